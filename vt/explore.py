"""E1 -- exploration library.

* bfs_history      explicit-state search over the REAL transition function: a
                   state is the shortest input history reaching it; each
                   transition builds a fresh implementation object, replays the
                   history and applies one letter.
* linear_extensions all topological orders of a DAG (with cap)
* choice_dfs       stateless DFS over sequences of choice points with a
                   deviation bound
"""
from collections import deque


class BFSResult:
  def __init__(self):
    self.states = {}          # canon -> history (list of letters)
    self.transitions = 0
    self.executions = 0       # histories executed on the implementation
    self.max_depth = 0
    self.closed = True
    self.table = {}           # (canon, letter) -> (step_obs, canon')
    self.merge_mismatch = []  # differential oracle failures


def bfs_history(make, apply, canon, letters, on_step=None, full_obs=None,
                max_states=100000, max_depth=None, init_hist=()):
  """make() -> fresh impl; apply(impl, letter) -> step observation;
  canon(impl) -> hashable canonical state; letters(canon_state) -> iterable.
  on_step(hist, letter, pre_canon, step_obs, post_canon) is called for every
  executed transition (oracle lives there).
  full_obs(impl): if given, a second, finer observation compared whenever a
  canonical state is reached again by another history (differential oracle)."""
  res = BFSResult()
  impl = make()
  for l in init_hist: apply(impl, l)
  res.executions += 1
  c0 = canon(impl)
  res.states[c0] = list(init_hist)
  fulls = {c0: full_obs(impl)} if full_obs else None
  q = deque([c0])
  while q:
    c = q.popleft()
    hist = res.states[c]
    depth = len(hist) - len(init_hist)
    if max_depth is not None and depth >= max_depth:
      res.closed = False
      continue
    for l in letters(c):
      impl = make()
      for x in hist: apply(impl, x)
      pre = canon(impl)
      if pre != c:
        raise RuntimeError(f"non-deterministic replay: history {hist} gave {pre} then {c}")
      obs = apply(impl, l)
      post = canon(impl)
      res.executions += 1
      res.transitions += 1
      res.table[(c, l)] = (obs, post)
      if on_step and on_step(hist, l, c, obs, post) is False:
        continue          # the oracle already failed on this step: do not explore beyond a divergence
      if post not in res.states:
        if len(res.states) >= max_states:
          res.closed = False
          continue
        res.states[post] = hist + [l]
        res.max_depth = max(res.max_depth, depth + 1)
        if fulls is not None: fulls[post] = full_obs(impl)
        q.append(post)
      elif fulls is not None:
        f = full_obs(impl)
        if f != fulls[post]:
          res.merge_mismatch.append((res.states[post], hist + [l], fulls[post], f))
  return res


def linear_extensions(nodes, edges, cap=None):
  """Yield every topological order of (nodes, edges) (edges: (a,b) = a before b).
  nodes are visited in the given order so the first extension is canonical."""
  nodes = list(nodes)
  succ = {n: [] for n in nodes}
  indeg = {n: 0 for n in nodes}
  for a, b in set(edges):
    succ[a].append(b)
    indeg[b] += 1
  order = []
  count = [0]

  def rec():
    if len(order) == len(nodes):
      count[0] += 1
      yield list(order)
      return
    for n in nodes:
      if indeg[n] == 0:
        indeg[n] = -1
        for m in succ[n]: indeg[m] -= 1
        order.append(n)
        for o in rec():
          yield o
          if cap is not None and count[0] >= cap: break
        order.pop()
        for m in succ[n]: indeg[m] += 1
        indeg[n] = 0
        if cap is not None and count[0] >= cap: return
  yield from rec()


def count_linear_extensions(nodes, edges, cap):
  n = 0
  for _ in linear_extensions(nodes, edges, cap + 1):
    n += 1
  return n


class ChoiceRun:
  """Records choice points of one execution. prefix is replayed, then 0."""
  def __init__(self, prefix):
    self.prefix = list(prefix)
    self.points = []           # (arity, chosen, cost_of_nonzero)

  def choose(self, arity, cost=1):
    i = len(self.points)
    if i < len(self.prefix):
      c = self.prefix[i]
      if not (0 <= c < arity):
        raise RuntimeError(f"replay diverged at choice {i}: {c} not in range({arity})")
    else:
      c = 0
    self.points.append((arity, c, cost))
    return c


def choice_dfs(run, bound=None, cap=None):
  """run(ChoiceRun) executes once. Yields (choices, result) for every choice
  sequence whose total deviation cost <= bound (None = unbounded)."""
  stack = [[]]
  n = 0
  while stack:
    prefix = stack.pop()
    cr = ChoiceRun(prefix)
    result = run(cr)
    n += 1
    yield [p[1] for p in cr.points], result
    if cap is not None and n >= cap: return
    spent = sum(p[2] for p in cr.points[:len(prefix)] if p[1] != 0)
    ext = []
    cost_before = spent
    for i in range(len(prefix), len(cr.points)):
      arity, _, cost = cr.points[i]
      for alt in range(1, arity):
        if bound is None or cost_before + cost <= bound:
          ext.append([p[1] for p in cr.points[:i]] + [alt])
    stack.extend(reversed(ext))
