"""E2 -- bounded generators of design families (see DESIGN.md section 5).

Every generator yields (name, design) pairs in a canonical simplest-first
order; a design is a Comp dict of vt.ir. Designs meant to be legal are legal
by construction: single driver per bit, total comb blocks, acyclic block
graph (except F-cyc), port rules obeyed.
"""
import itertools

from vt import ir
from vt.ir import B, S, L, ref, c

# ----------------------------------------------------------------- type / shape alphabet
T4 = B(4)
Sab = S("Sab", ("a", B(2)), ("b", B(2)))
Npc = S("Npc", ("p", Sab), ("c", B(2)))
SLal = S("SLal", ("a", B(2)), ("l", L(B(1), 2)))

# carrier: (label, type, dims, shapes); a shape is (label, accessors, is_variable)
VB = ("vb", ref("sel"))            # variable bit index read from the 2-bit input 'sel'
VI = ("v", ("ref", (), "sel", (("b", 0),)))   # variable list index from sel[0]

CARRIERS = [
  ("T4", T4, (), [("w", ()), ("s02", (("s", 0, 2),)), ("s24", (("s", 2, 4),)), ("s13", (("s", 1, 3),)),
                  ("b0", (("b", 0),)), ("b3", (("b", 3),)), ("vb", (VB,)), ("s04", (("s", 0, 4),)), ("s12", (("s", 1, 2),))]),
  ("Sab", Sab, (), [("w", ()), ("a", (("f", "a"),)), ("b", (("f", "b"),)), ("a0", (("f", "a"), ("s", 0, 1)))]),
  ("Npc", Npc, (), [("w", ()), ("p", (("f", "p"),)), ("pa", (("f", "p"), ("f", "a"))), ("c", (("f", "c"),))]),
  ("L2", B(2), (2,), [("e0", (("i", 0),)), ("e1", (("i", 1),)), ("ev", (VI,))]),
  ("SLal", SLal, (), [("w", ()), ("l0", (("f", "l"), ("i", 0))), ("l1", (("f", "l"), ("i", 1))), ("a", (("f", "a"),))]),
]


def shape_width(t, dims, acc):
  cur = t
  acc = list(acc)
  for _ in dims: acc.pop(0)
  for a in acc:
    k = a[0]
    if k == "f": cur = ir.field_range(cur, a[1])[2]
    elif k in ("i", "v"): cur = cur[1]
    elif k == "s": cur = B(a[2] - a[1])
    elif k in ("b", "vb"): cur = B(1)
  return ir.width(cur), cur


def leaves(t, acc=()):
  """Leaf Bits fields of a type as accessor tuples."""
  if t[0] == "B": yield acc, t[1]
  elif t[0] == "S":
    for fn, ft in t[2]: yield from leaves(ft, acc + (("f", fn),))
  elif t[0] == "L":
    for k in range(t[2]): yield from leaves(t[1], acc + (("i", k),))


def cover_refs(top, cpath, name, t, dims, bits):
  """Refs (leaf slices) that together cover exactly the given (key,bit) set of signal `name`."""
  out = []
  for idx in itertools.product(*[range(d) for d in dims]):
    for lacc, w in leaves(t):
      r = ref(name, *[("i", i) for i in idx], *lacc)
      rb = sorted(b for (k, b) in ir.ref_bits(top, cpath, r) if (k, b) in bits)
      allb = sorted(b for (k, b) in ir.ref_bits(top, cpath, r))
      if not rb: continue
      if rb == allb: out.append((r, w)); continue
      base = allb[0]
      runs, start, prev = [], rb[0], rb[0]
      for b in rb[1:] + [None]:
        if b is None or b != prev + 1:
          runs.append((start - base, prev + 1 - base))
          start = b
        prev = b
      for lo, hi in runs:
        out.append((("ref", r[1], r[2], r[3] + (("s", lo, hi),)), hi - lo))
  return out


def fit(e, we, w):
  """Adapt expression e of width we to width w (zero-extend or take the low bits)."""
  if we == w: return e
  if we < w: return ("call", "zext", e, ("n", w))
  if e[0] == "ref" and (not e[3] or e[3][-1][0] not in ("s", "b", "vb")):
    return ("ref", e[1], e[2], e[3] + (("s", 0, w),))
  return ("call", "trunc", e, ("n", w))


def mk_value(t, src, wsrc):
  """Expression of type t built from (slices of) src: Bits leaf <- low bits of src; struct <- constructor."""
  if t[0] == "B": return fit(src, wsrc, t[1])
  if t[0] == "S": return ("st", t[1], *[mk_value(ft, src, wsrc) for _, ft in t[2]])
  if t[0] == "L": return ("lst", *[mk_value(t[1], src, wsrc) for _ in range(t[2])])
  raise KeyError(t)


def flat_read(r, t):
  """Bits expression reading every leaf of the (possibly struct-typed) ref r."""
  if t[0] == "B": return r, t[1]
  parts = [("ref", r[1], r[2], r[3] + la) for la, _ in leaves(t)]
  return ("call", "concat", *parts), ir.width(t)


def comp(cls, sigs, blocks=(), connects=(), children=(), constraints=()):
  return dict(cls=cls, sigs=list(sigs), blocks=list(blocks), connects=list(connects),
              children=list(children), constraints=list(constraints))


# ----------------------------------------------------------------- F-chain

def f_chain():
  """in_ -> A writes X<wA>; F writes the rest of X; B reads X<rB> -> Y; out connected to Y.
  Variants: flat | writer in a child | reader in a child."""
  for clabel, t, dims, shapes in CARRIERS:
    for (wl, wacc, *_), (rl, racc, *_) in itertools.product(shapes, shapes):
      for place in ("flat", "wchild", "rchild"):
        d = _chain(clabel, t, dims, wacc, racc, place)
        if d is not None:
          yield f"chain:{clabel}:{wl}>{rl}:{place}", d


def _chain(clabel, t, dims, wacc, racc, place):
  ww, wt = shape_width(t, dims, wacc)
  rw, rt = shape_width(t, dims, racc)
  sigs = [("in_", "in", B(4), ()), ("sel", "in", B(2), ()), ("X", "wire", t, dims),
          ("Y", "wire", rt, ()), ("out", "out", B(rw), ())]
  top = comp("Chain", sigs)
  X = ref("X", *wacc)
  wvar = any(a[0] in ("v", "vb") for a in wacc)
  src = ("bin", "^", ref("in_"), c(4, 5))
  allbits = ir.ref_bits(top, (), ref("X"))
  if wvar:
    # one block drives the whole carrier: defaults first, then the variable target
    stm = [("=", r, fit(("un", "~", ref("in_")), 4, w)) for r, w in cover_refs(top, (), "X", t, dims, allbits)]
    stm.append(("=", X, mk_value(wt, src, 4)))
    blkA = ("blkA", "comb", stm)
    blkF = None
  else:
    blkA = ("blkA", "comb", [("=", X, mk_value(wt, src, 4))])
    rest = allbits - ir.ref_bits(top, (), X)
    stm = [("=", r, fit(("un", "~", ref("in_")), 4, w)) for r, w in cover_refs(top, (), "X", t, dims, rest)]
    blkF = ("blkF", "comb", stm) if stm else None
  rd = ref("X", *racc)
  if rt[0] == "B":
    blkB = ("blkB", "comb", [("=", ref("Y"), ("bin", "+", rd, c(rw, 1)))])
    blkO = None
    top["connects"].append((ref("out"), ref("Y")))
  else:
    # whole-struct read: copy it, then read the copy leaf by leaf in another block
    blkB = ("blkB", "comb", [("=", ref("Y"), rd)])
    e, w = flat_read(ref("Y"), rt)
    blkO = ("blkO", "comb", [("=", ref("out"), ("bin", "+", e, c(rw, 1)))])
  if place == "flat":
    top["blocks"] = [b for b in (blkO, blkB, blkA, blkF) if b]
    return top
  if place == "wchild":
    # the writer lives in a child that owns the carrier as an out port; the parent connects it to X
    if dims: return None
    ch = comp("W", [("in_", "in", B(4), ()), ("sel", "in", B(2), ()), ("X", "out", t, ())],
              blocks=[b for b in (blkA, blkF) if b])
    top["children"] = [("w", ch)]
    top["connects"] += [(ref("in_", path=("w",)), ref("in_")), (ref("sel", path=("w",)), ref("sel")),
                        (ref("X"), ref("X", path=("w",)))]
    top["blocks"] = [b for b in (blkO, blkB) if b]
    return top
  if place == "rchild":
    if dims: return None
    ch = comp("R", [("X", "in", t, ()), ("sel", "in", B(2), ()), ("Y", "out", rt, ())], blocks=[blkB])
    top["children"] = [("r", ch)]
    top["connects"] += [(ref("X", path=("r",)), ref("X")), (ref("sel", path=("r",)), ref("sel")),
                        (ref("Y"), ref("Y", path=("r",)))]
    top["blocks"] = [b for b in (blkO, blkA, blkF) if b]
    return top


# ----------------------------------------------------------------- F-reg

def f_reg():
  """k registers with cross reads; comb logic before and after; struct / list registers."""
  # swap / rotate / chain over k Bits4 registers, each in its own ff block, in every declaration order
  for k in (1, 2, 3, 4):
    for pat in ("rotate", "chain", "swapinc"):
      if k == 1 and pat != "chain": continue
      yield f"reg:{pat}:{k}", _regs(k, pat)
  yield "reg:cond-hold", _reg_cond()
  yield "reg:repeat-assign", _reg_repeat()
  yield "reg:struct", _reg_struct()
  yield "reg:list-var", _reg_list()
  yield "reg:child-forward", _reg_child()
  yield "reg:comb-both-sides", _reg_comb()


def _regs(k, pat):
  sigs = [("in_", "in", B(4), ()), ("out", "out", B(4), ())] + [(f"r{i}", "wire", B(4), ()) for i in range(k)]
  blocks = []
  for i in range(k):
    if pat == "rotate":
      src = ref(f"r{(i - 1) % k}") if i else ("bin", "+", ref(f"r{k - 1}"), ref("in_"))
    elif pat == "chain":
      src = ref(f"r{i - 1}") if i else ref("in_")
    else:  # swapinc: every register reads every other one
      src = ("bin", "+", ref(f"r{(i + 1) % k}"), c(4, i + 1))
      if i == 0: src = ("bin", "^", src, ref("in_"))
    body = [("if", ref("reset"), [("=", ref(f"r{i}"), c(4, i))], [("=", ref(f"r{i}"), src)])]
    blocks.append((f"ff{i}", "ff", body))
  blocks.append(("up_out", "comb", [("=", ref("out"), ("bin", "^", ref(f"r{k - 1}"), ref("r0")))]))
  return comp("Regs", sigs, blocks=blocks)


def _reg_cond():
  sigs = [("in_", "in", B(4), ()), ("en", "in", B(1), ()), ("out", "out", B(4), ()), ("r", "wire", B(4), ()), ("q", "wire", B(4), ())]
  b1 = ("ff_r", "ff", [("if", ref("en"), [("=", ref("r"), ref("in_"))], [])])
  b2 = ("ff_q", "ff", [("if", ("bin", "==", ref("r"), c(4, 3)), [("=", ref("q"), ("bin", "+", ref("q"), c(4, 1)))], [])])
  b3 = ("up_out", "comb", [("=", ref("out"), ("bin", "+", ref("r"), ref("q")))])
  return comp("RegCond", sigs, blocks=[b3, b2, b1])


def _reg_repeat():
  sigs = [("in_", "in", B(4), ()), ("out", "out", B(4), ()), ("r", "wire", B(4), ())]
  b1 = ("ff_r", "ff", [("=", ref("r"), ("bin", "+", ref("r"), c(4, 1))),
                        ("if", ("bin", ">", ref("in_"), c(4, 7)), [("=", ref("r"), ref("in_"))], []),
                        ("if", ("bin", "==", ref("r"), c(4, 9)), [("=", ref("r"), c(4, 0))], [])])
  b3 = ("up_out", "comb", [("=", ref("out"), ("un", "~", ref("r")))])
  return comp("RegRepeat", sigs, blocks=[b3, b1])


def _reg_struct():
  sigs = [("in_", "in", B(4), ()), ("out", "out", B(4), ()), ("r", "wire", Sab, ()), ("q", "wire", Sab, ())]
  b1 = ("ff_r", "ff", [("=", ref("r"), ("st", "Sab", ref("in_", ("s", 0, 2)), ref("q", ("f", "a"))))])
  b2 = ("ff_q", "ff", [("=", ref("q"), ("st", "Sab", ref("r", ("f", "b")), ref("in_", ("s", 2, 4))))])
  b3 = ("up_out", "comb", [("=", ref("out"), ("call", "concat", ref("r", ("f", "a")), ref("q", ("f", "b"))))])
  return comp("RegStruct", sigs, blocks=[b3, b1, b2])


def _reg_list():
  sigs = [("in_", "in", B(4), ()), ("sel", "in", B(2), ()), ("out", "out", B(4), ()), ("r", "wire", B(4), (2,))]
  vi = ("v", ("ref", (), "sel", (("b", 0),)))
  vj = ("v", ("ref", (), "sel", (("b", 1),)))
  b1 = ("ff_w", "ff", [("=", ref("r", vi), ("bin", "+", ref("r", vj), ref("in_")))])
  b3 = ("up_out", "comb", [("=", ref("out"), ("bin", "^", ref("r", ("i", 0)), ref("r", ("i", 1))))])
  return comp("RegList", sigs, blocks=[b3, b1])


def _reg_child():
  ch = comp("RC", [("d", "in", B(4), ()), ("q", "out", B(4), ())],
            blocks=[("ff_q", "ff", [("=", ref("q"), ref("d"))])])
  ch2 = comp("RD", [("d", "in", B(4), ()), ("q", "out", B(4), ()), ("w", "wire", B(4), ())],
             blocks=[("ff_w", "ff", [("=", ref("w"), ("bin", "+", ref("d"), c(4, 1)))]),
                     ("up_q", "comb", [("=", ref("q"), ref("w"))])])
  sigs = [("in_", "in", B(4), ()), ("out", "out", B(4), ()), ("m", "wire", B(4), ())]
  top = comp("RegChild", sigs, children=[("a", ch), ("b", ch2)],
             connects=[(ref("d", path=("a",)), ref("in_")), (ref("m"), ref("q", path=("a",))),
                       (ref("d", path=("b",)), ref("m")), (ref("out"), ref("q", path=("b",)))])
  return top


def _reg_comb():
  sigs = [("in_", "in", B(4), ()), ("out", "out", B(4), ()), ("pre", "wire", B(4), ()), ("r", "wire", B(4), ()),
          ("s2", "wire", B(4), ()), ("post", "wire", B(4), ())]
  blocks = [
    ("up_post", "comb", [("=", ref("post"), ("bin", "+", ref("r"), ref("s2")))]),
    ("up_out", "comb", [("=", ref("out"), ("bin", "^", ref("post"), ref("in_")))]),
    ("ff_s", "ff", [("=", ref("s2"), ref("r"))]),
    ("ff_r", "ff", [("=", ref("r"), ref("pre"))]),
    ("up_pre", "comb", [("=", ref("pre"), ("bin", "+", ref("in_"), ref("s2")))]),
  ]
  return comp("RegComb", sigs, blocks=blocks)


# ----------------------------------------------------------------- F-diamond / multi-block

def f_diamond():
  """Two writers of disjoint parts of X; readers of the whole and of each part; a second level."""
  parts = [((("s", 0, 2),), (("s", 2, 4),)), ((("s", 0, 1),), (("s", 1, 4),)), ((("b", 3),), (("s", 0, 3),))]
  for pi, (pa, pb) in enumerate(parts):
    for rd in ((), pa, pb, (("s", 1, 3),)):
      wa, wb = shape_width(T4, (), pa)[0], shape_width(T4, (), pb)[0]
      rw = shape_width(T4, (), rd)[0]
      sigs = [("in_", "in", B(4), ()), ("X", "wire", T4, ()), ("Y", "wire", B(rw), ()), ("Z", "wire", B(4), ()), ("out", "out", B(4), ())]
      blocks = [
        ("up_z", "comb", [("=", ref("Z"), ("bin", "+", fit(ref("Y"), rw, 4), ref("X")))]),
        ("up_y", "comb", [("=", ref("Y"), ("un", "~", ref("X", *rd)))]),
        ("up_a", "comb", [("=", ref("X", *pa), fit(ref("in_"), 4, wa))]),
        ("up_b", "comb", [("=", ref("X", *pb), fit(("bin", "+", ref("in_"), c(4, 3)), 4, wb))]),
        ("up_o", "comb", [("=", ref("out"), ("bin", "^", ref("Z"), ref("in_")))]),
      ]
      yield f"diamond:{pi}:{rd}", comp("Diamond", sigs, blocks=blocks)


# ----------------------------------------------------------------- F-net

def f_net():
  """writer -> connection X<s1> -- Y<s2> -> reader; slices, fields, consts, children."""
  # (label, X type, X access, Y type, Y access)
  cases = [
    ("whole", T4, (), T4, ()),
    ("slice-to-whole", T4, (("s", 0, 2),), B(2), ()),
    ("whole-to-slice", B(2), (), T4, (("s", 2, 4),)),
    ("slice-to-slice", T4, (("s", 1, 3),), T4, (("s", 0, 2),)),
    ("field-to-whole", Sab, (("f", "b"),), B(2), ()),
    ("whole-to-field", B(2), (), Sab, (("f", "a"),)),
    ("nested-field", Npc, (("f", "p"), ("f", "a")), B(2), ()),
    ("struct-whole", Sab, (), Sab, ()),
  ]
  for label, tx, ax, ty, ay in cases:
    for side in (0, 1):
      wx = shape_width(tx, (), ax)[0]
      sigs = [("in_", "in", B(4), ()), ("X", "wire", tx, ()), ("Y", "wire", ty, ()), ("out", "out", B(4), ())]
      top = comp("Net", sigs)
      a, b = ref("X", *ax), ref("Y", *ay)
      top["connects"].append((a, b) if side == 0 else (b, a))
      # writer block drives all of X
      allx = ir.ref_bits(top, (), ref("X"))
      wstm = [("=", r, fit(("bin", "^", ref("in_"), c(4, 6)), 4, w)) for r, w in cover_refs(top, (), "X", tx, (), allx)]
      # filler drives the bits of Y that the connection does not
      resty = ir.ref_bits(top, (), ref("Y")) - ir.ref_bits(top, (), b)
      fstm = [("=", r, fit(("un", "~", ref("in_")), 4, w)) for r, w in cover_refs(top, (), "Y", ty, (), resty)]
      wy = ir.width(ty)
      yexpr = ref("Y")
      if ty[0] == "S":   # read a struct through its fields
        yexpr = ("call", "concat", *[("ref", (), "Y", la) for la, _ in leaves(ty)])
      rblk = ("up_r", "comb", [("=", ref("out"), ("bin", "+", fit(yexpr, wy, 4), c(4, 1)))])
      top["blocks"] = [rblk, ("up_w", "comb", wstm)] + ([("up_f", "comb", fstm)] if fstm else [])
      yield f"net:{label}:{side}", top
  # constant connected to a wire, read by a block
  sigs = [("in_", "in", B(4), ()), ("K", "wire", B(4), ()), ("out", "out", B(4), ())]
  yield "net:const", comp("NetK", sigs, connects=[(ref("K"), c(4, 9))],
                          blocks=[("up_r", "comb", [("=", ref("out"), ("bin", "+", ref("K"), ref("in_")))])])
  # fan-out through two levels of children
  leaf = comp("Leaf", [("i", "in", B(4), ()), ("o", "out", B(4), ())],
              blocks=[("up_l", "comb", [("=", ref("o"), ("bin", "+", ref("i"), c(4, 2)))])])
  mid = comp("Mid", [("i", "in", B(4), ()), ("o", "out", B(4), ())], children=[("l", leaf)],
             connects=[(ref("i", path=("l",)), ref("i")), (ref("o"), ref("o", path=("l",)))])
  sigs = [("in_", "in", B(4), ()), ("out", "out", B(4), ()), ("w", "wire", B(4), ())]
  yield "net:hier2", comp("NetH", sigs, children=[("m", mid), ("n", leaf)],
                          connects=[(ref("i", path=("m",)), ref("in_")), (ref("w"), ref("o", path=("m",))),
                                    (ref("i", path=("n",)), ref("w")), (ref("out"), ref("o", path=("n",)))])


# ----------------------------------------------------------------- F-hier

def f_hier():
  """Parent blocks write child in-ports and read child out-ports (no connections)."""
  leaf = comp("HLeaf", [("i", "in", B(4), ()), ("o", "out", B(4), ())],
              blocks=[("up_l", "comb", [("=", ref("o"), ("bin", "^", ref("i"), c(4, 10)))])])
  leafs = comp("HLeafS", [("i", "in", Sab, ()), ("o", "out", B(2), ())],
               blocks=[("up_l", "comb", [("=", ref("o"), ("bin", "+", ref("i", ("f", "a")), ref("i", ("f", "b"))))])])
  sigs = [("in_", "in", B(4), ()), ("out", "out", B(4), ())]
  yield "hier:parent-drives-child", comp("Hier1", sigs, children=[("c", leaf)], blocks=[
    ("up_o", "comb", [("=", ref("out"), ("bin", "+", ref("o", path=("c",)), c(4, 1)))]),
    ("up_i", "comb", [("=", ref("i", path=("c",)), ("un", "~", ref("in_")))])])
  yield "hier:parent-drives-child-fields", comp("Hier2", [("in_", "in", B(4), ()), ("out", "out", B(2), ())], children=[("c", leafs)], blocks=[
    ("up_o", "comb", [("=", ref("out"), ("un", "~", ref("o", path=("c",))))]),
    ("up_ia", "comb", [("=", ref("i", ("f", "a"), path=("c",)), ref("in_", ("s", 0, 2)))]),
    ("up_ib", "comb", [("=", ref("i", ("f", "b"), path=("c",)), ref("in_", ("s", 2, 4)))])])
  yield "hier:two-children-chained-by-blocks", comp("Hier3", sigs, children=[("c", leaf), ("d", leaf)], blocks=[
    ("up_o", "comb", [("=", ref("out"), ref("o", path=("d",)))]),
    ("up_d", "comb", [("=", ref("i", path=("d",)), ("bin", "+", ref("o", path=("c",)), c(4, 3)))]),
    ("up_c", "comb", [("=", ref("i", path=("c",)), ref("in_"))])])


# ----------------------------------------------------------------- F-ffx (register-centred, used by C07)

def _stage(cls, nregs, en=False):
  """A component holding a chain of nregs registers d -> r0 -> .. -> q (each in its own ff block)."""
  sigs = [("d", "in", B(4), ()), ("q", "out", B(4), ())] + [(f"r{i}", "wire", B(4), ()) for i in range(nregs)]
  if en: sigs.append(("en", "in", B(1), ()))
  blocks = []
  for i in range(nregs):
    src = ref(f"r{i - 1}") if i else ref("d")
    body = [("=", ref(f"r{i}"), src)]
    if en: body = [("if", ref("en"), body, [])]
    blocks.append((f"ff{i}", "ff", body))
  conns = [(ref("q"), ref(f"r{nregs - 1}"))]
  return comp(cls, sigs, blocks=blocks, connects=conns)


def f_ffx():
  # 1. shift registers spread over parent / child / grandchild with k registers each
  for pk, ck, gk in [(2, 1, 0), (1, 2, 0), (1, 1, 0), (3, 1, 0), (2, 1, 1), (2, 2, 1), (1, 1, 1), (2, 0, 1)]:
    sigs = [("in_", "in", B(4), ()), ("out", "out", B(4), ())] + [(f"p{i}", "wire", B(4), ()) for i in range(pk)]
    blocks = []
    for i in range(pk):
      blocks.append((f"pf{i}", "ff", [("=", ref(f"p{i}"), ref(f"p{i - 1}") if i else ref("in_"))]))
    children, conns = [], []
    last = ref(f"p{pk - 1}")
    if ck or gk:
      if gk:
        g = _stage("G", gk)
        if ck:
          ch = _stage("Cst", ck)
          ch["sigs"].append(("m", "wire", B(4), ()))
          ch["children"] = [("g", g)]
          ch["connects"] = [(ref("d", path=("g",)), ref(f"r{ck - 1}")), (ref("q"), ref("q", path=("g",)))]
        else:
          ch = comp("Cpass", [("d", "in", B(4), ()), ("q", "out", B(4), ())], children=[("g", g)],
                    connects=[(ref("d", path=("g",)), ref("d")), (ref("q"), ref("q", path=("g",)))])
      else:
        ch = _stage("Cst", ck)
      children = [("c", ch)]
      conns = [(ref("d", path=("c",)), last), (ref("out"), ref("q", path=("c",)))]
    else:
      conns = [(ref("out"), last)]
    yield f"ffx:shift:p{pk}c{ck}g{gk}", comp("Shift", sigs, blocks=blocks, children=children, connects=conns)
  # 2. many enabled registers, one ff block each (Mamba groups ff blocks into meta blocks by branchiness)
  for n in (5, 7, 8, 9):
    sigs = [("in_", "in", B(4), ()), ("en", "in", B(1), ()), ("out", "out", B(4), ())] + [(f"r{i}", "wire", B(4), ()) for i in range(n)]
    blocks = [(f"ff{i}", "ff", [("if", ref("en"), [("=", ref(f"r{i}"), ref(f"r{i - 1}") if i else ref("in_"))], [])]) for i in range(n)]
    blocks.append(("up_out", "comb", [("=", ref("out"), ("bin", "^", ref(f"r{n - 1}"), ref(f"r{n // 2}")))]))
    yield f"ffx:many-en:{n}", comp("ManyEn", sigs, blocks=blocks)
  # 3. every register read by another ff block, by a comb block and through a net in a child
  ch = comp("Rd", [("x", "in", B(4), ()), ("y", "out", B(4), ()), ("k", "wire", B(4), ())],
            blocks=[("ffk", "ff", [("=", ref("k"), ("bin", "+", ref("x"), ref("k")))]), ("upy", "comb", [("=", ref("y"), ("bin", "^", ref("k"), ref("x")))])])
  sigs = [("in_", "in", B(4), ()), ("out", "out", B(4), ()), ("a", "wire", B(4), ()), ("b", "wire", B(4), ()), ("cm", "wire", B(4), ())]
  yield "ffx:read-everywhere", comp("RdAll", sigs, children=[("c", ch)],
      connects=[(ref("x", path=("c",)), ref("a"))],
      blocks=[("ffa", "ff", [("=", ref("a"), ("bin", "+", ref("in_"), ref("b")))]),
              ("ffb", "ff", [("=", ref("b"), ("bin", "^", ref("a"), ref("y", path=("c",))))]),
              ("upc", "comb", [("=", ref("cm"), ("bin", "+", ref("a"), ref("b")))]),
              ("upo", "comb", [("=", ref("out"), ("bin", "^", ref("cm"), ref("y", path=("c",))))])])
  # 4. struct register, nested struct register, list-of-struct registers with variable index, child out-port register
  yield "ffx:struct-nested", comp("RegN", [("in_", "in", B(4), ()), ("out", "out", B(6), ()), ("r", "wire", Npc, ()), ("q", "wire", Npc, ())], blocks=[
      ("ffr", "ff", [("=", ref("r"), ("st", "Npc", ("st", "Sab", ref("in_", ("s", 0, 2)), ref("q", ("f", "p"), ("f", "a"))), ref("q", ("f", "c"))))]),
      ("ffq", "ff", [("=", ref("q"), ("st", "Npc", ("st", "Sab", ref("r", ("f", "c")), ref("in_", ("s", 2, 4))), ref("r", ("f", "p"), ("f", "b"))))]),
      ("upo", "comb", [("=", ref("out"), ("call", "concat", ref("r", ("f", "p"), ("f", "a")), ref("q", ("f", "p"), ("f", "b")), ref("q", ("f", "c"))))])])
  vi = ("v", ("ref", (), "sel", (("b", 0),)))
  vj = ("v", ("ref", (), "sel", (("b", 1),)))
  yield "ffx:list-struct-var", comp("RegLS", [("in_", "in", B(4), ()), ("sel", "in", B(2), ()), ("out", "out", B(4), ()), ("r", "wire", Sab, (2,))], blocks=[
      ("ffw", "ff", [("=", ref("r", vi), ("st", "Sab", ref("r", vj, ("f", "b")), ref("in_", ("s", 0, 2))))]),
      ("upo", "comb", [("=", ref("out"), ("call", "concat", ref("r", ("i", 0), ("f", "a")), ref("r", ("i", 1), ("f", "b"))))])])
  yield "ffx:two-writers-in-one-block", comp("Reg2W", [("in_", "in", B(4), ()), ("sel", "in", B(2), ()), ("out", "out", B(4), ()), ("r", "wire", B(4), (2,)), ("t", "wire", B(4), ())], blocks=[
      ("ffw", "ff", [("=", ref("r", ("i", 0)), ref("r", ("i", 1))), ("=", ref("r", ("i", 1)), ref("r", ("i", 0))),
                     ("if", ref("sel", ("b", 1)), [("=", ref("r", vi), ref("in_"))], []), ("=", ref("t"), ("bin", "+", ref("t"), ref("r", vi)))]),
      ("upo", "comb", [("=", ref("out"), ("bin", "+", ("bin", "^", ref("r", ("i", 0)), ref("r", ("i", 1))), ref("t")))])])


# ----------------------------------------------------------------- F-fan

FAN = [
  ("T4", T4, [[()], [(("s", 0, 2),), (("s", 2, 4),)], [(("b", 0),), (("s", 1, 3),), (("b", 3),)], [(("s", 1, 2),), (("b", 0),), (("s", 2, 4),)]],
   [(), (("s", 0, 2),), (("s", 2, 4),), (("s", 1, 3),), (("b", 0),), (("b", 3),), (("s", 0, 4),), (("s", 1, 2),), (("s", 0, 3),)]),
  ("Sab", Sab, [[()], [(("f", "a"),), (("f", "b"),)], [(("f", "a"), ("s", 0, 1)), (("f", "a"), ("s", 1, 2)), (("f", "b"),)]],
   [(), (("f", "a"),), (("f", "b"),), (("f", "a"), ("s", 0, 1))]),
  ("Npc", Npc, [[()], [(("f", "p"),), (("f", "c"),)], [(("f", "p"), ("f", "a")), (("f", "p"), ("f", "b")), (("f", "c"),)]],
   [(), (("f", "p"),), (("f", "p"), ("f", "a")), (("f", "c"),)]),
  ("SLal", SLal, [[()], [(("f", "a"),), (("f", "l"), ("i", 0)), (("f", "l"), ("i", 1))]],
   [(), (("f", "l"), ("i", 0)), (("f", "l"), ("i", 1)), (("f", "a"),)]),
]


def f_fan():
  """One carrier X written part by part (one block per part of a partition) and read by two
  independent reader blocks of any two shapes, each driving its own output."""
  for label, t, partitions, reads in FAN:
    for pi, parts in enumerate(partitions):
      for (i, r1), (j, r2) in itertools.combinations_with_replacement(list(enumerate(reads)), 2):
        sigs = [("in_", "in", B(4), ()), ("X", "wire", t, ())]
        blocks = []
        for k, racc in enumerate((r1, r2)):
          rw, rt = shape_width(t, (), racc)
          sigs.append((f"o{k}", "out", rt, ()))
          rd = ref("X", *racc)
          val = ("bin", "+", rd, c(rw, (k + 1) % (1 << rw) or 1)) if rt[0] == "B" else rd
          blocks.append((f"rd{k}", "comb", [("=", ref(f"o{k}"), val)]))
        for k, wacc in enumerate(parts):
          ww, wt = shape_width(t, (), wacc)
          src = ("bin", "^", ref("in_"), c(4, 3 * k + 5))
          blocks.append((f"wr{k}", "comb", [("=", ref("X", *wacc), mk_value(wt, src, 4))]))
        yield f"fan:{label}:p{pi}:r{i}r{j}", comp("Fan", sigs, blocks=blocks)


# ----------------------------------------------------------------- F-vidx (block-driven index signals)

def f_vidx():
  """A reader block indexes a list with signals that OTHER blocks drive; the indexed subscript is the outermost node, or is followed
  by a field, a second (signal) index, or a slice. The reader stands first in the source."""
  base = [("in_", "in", B(4), ()), ("lst", "wire", Sab, (2,)), ("arr", "wire", B(4), (2, 2)), ("vec", "wire", B(4), (2,)),
          ("idx", "wire", B(1), ()), ("jdx", "wire", B(1), ()), ("out", "out", B(4), ())]
  # the tables hold distinct values derived from the input, so that a wrong index is visible
  wd = ("wr_data", "comb", [("=", ref("lst", ("i", k)), ("st", "Sab", c(2, 1 + k), ("bin", "+", ref("in_", ("s", 2, 4)), c(2, k)))) for k in range(2)] +
                           [("=", ref("arr", ("i", a), ("i", b)), ("bin", "^", ref("in_"), c(4, 1 + 5 * a + 3 * b))) for a in range(2) for b in range(2)] +
                           [("=", ref("vec", ("i", k)), ("bin", "+", ref("in_"), c(4, 2 + 9 * k))) for k in range(2)])
  wi = ("wr_idx", "comb", [("=", ref("idx"), ref("in_", ("s", 0, 1)))])
  wj = ("wr_jdx", "comb", [("=", ref("jdx"), ("un", "~", ref("in_", ("s", 1, 2))))])
  I, J = ("v", ref("idx")), ("v", ref("jdx"))
  readers = [
    ("plain", [("=", ref("out"), ref("vec", I))]),
    ("field", [("=", ref("out"), ("call", "concat", ref("lst", I, ("f", "a")), ref("lst", J, ("f", "b"))))]),
    ("inner", [("=", ref("out"), ref("arr", I, J))]),
    ("inner-const-outer", [("=", ref("out"), ref("arr", ("i", 1), J))]),
    ("slice", [("=", ref("out"), ("call", "concat", ref("arr", I, ("i", 1), ("s", 1, 3)), ref("vec", J, ("s", 0, 2))))]),
    ("bit", [("=", ref("out"), ("call", "zext", ref("vec", I, ("b", 2)), ("n", 4)))]),
  ]
  for label, stmts in readers:
    yield f"vidx:{label}", comp("Vidx", base, blocks=[("rd", "comb", stmts), wj, wi, wd])
    # the same with the index produced by a two-block chain (idx <- mid <- in_)
    base2 = base + [("mid", "wire", B(1), ())]
    wm = ("wr_mid", "comb", [("=", ref("mid"), ref("in_", ("s", 0, 1)))])
    wi2 = ("wr_idx", "comb", [("=", ref("idx"), ("un", "~", ref("mid")))])
    yield f"vidx:{label}:chain", comp("Vidx2", base2, blocks=[("rd", "comb", stmts), wi2, wd, wj, wm])


# ----------------------------------------------------------------- F-cyc (cyclic block graphs, used by C11)

def f_cyc():
  """yields (name, design, expectation) with expectation in
  'false' (bit-level acyclic: must equal the reference), 'converge' (true loop that settles: fixed point only),
  'diverge' (must raise), 'once' (update_once in the cycle: must raise)."""
  # carriers for the two loop variables P (A -> B) and R (B -> A): (label, sigs, refP, refR)
  carriers = [
    ("top", [("P", "wire", B(2), ()), ("R", "wire", B(2), ())], ref("P"), ref("R")),
    ("slices", [("PR", "wire", B(4), ())], ref("PR", ("s", 0, 2)), ref("PR", ("s", 2, 4))),
    ("fields", [("PR", "wire", Sab, ())], ref("PR", ("f", "a")), ref("PR", ("f", "b"))),
    ("nested", [("PR", "wire", Npc, ())], ref("PR", ("f", "p"), ("f", "a")), ref("PR", ("f", "c"))),
    ("list", [("PR", "wire", B(2), (2,))], ref("PR", ("i", 0)), ref("PR", ("i", 1))),
    ("mixed", [("P", "wire", B(4), ()), ("R", "wire", Sab, ())], ref("P", ("s", 1, 3)), ref("R", ("f", "b"))),
  ]
  ins = [("in_", "in", B(4), ()), ("out", "out", B(2), ())]
  for label, sg, P, R in carriers:
    i2 = ref("in_", ("s", 0, 2))
    # false loop: A: P = f(in); Q(out) = g(R).  B: R = h(P).
    A = ("blkA", "comb", [("=", P, ("bin", "+", i2, c(2, 1))), ("=", ref("out"), ("un", "~", R))])
    Bk = ("blkB", "comb", [("=", R, ("bin", "^", P, ref("in_", ("s", 2, 4))))])
    extra = _cyc_fill(label, sg)
    yield f"cyc:false:{label}", comp("CycF", ins + sg, blocks=[A, Bk] + extra), "false"
    yield f"cyc:false-rev:{label}", comp("CycFr", ins + sg, blocks=[Bk, A] + extra), "false"
    # false loop entered from a predecessor block (pre) and followed by a successor
    pre = ("blkPre", "comb", [("=", ref("m"), ("bin", "+", ref("in_"), c(4, 3)))])
    A2 = ("blkA", "comb", [("=", P, ref("m", ("s", 0, 2))), ("=", ref("q"), ("un", "~", R))])
    post = ("blkPost", "comb", [("=", ref("out"), ("bin", "+", ref("q"), c(2, 1)))])
    yield f"cyc:false-pred:{label}", comp("CycP", ins + sg + [("m", "wire", B(4), ()), ("q", "wire", B(2), ())], blocks=[post, Bk, A2, pre] + extra), "false"
    # convergent true loop (monotone): P = R | in ; R = P & 2  (bit 1 latches)
    A3 = ("blkA", "comb", [("=", P, ("bin", "|", R, i2)), ("=", ref("out"), P)])
    B3 = ("blkB", "comb", [("=", R, ("bin", "&", P, c(2, 2)))])
    yield f"cyc:converge:{label}", comp("CycC", ins + sg, blocks=[A3, B3] + extra), "converge"
    # divergent loop (ring oscillator on bit 0 when in_[0] is set)
    A4 = ("blkA", "comb", [("=", P, ("bin", "^", R, i2)), ("=", ref("out"), P)])
    B4 = ("blkB", "comb", [("=", R, ("un", "~", P))])
    yield f"cyc:diverge:{label}", comp("CycD", ins + sg, blocks=[A4, B4] + extra), "diverge"
    # update_once member in the cycle
    B5 = ("blkB", "once", [("=", R, ("bin", "^", P, ref("in_", ("s", 2, 4))))])
    yield f"cyc:once:{label}", comp("CycO", ins + sg, blocks=[A, B5] + extra), "once"
  # long false loops (Mamba breaks traces for SCCs of >= 10 blocks): a chain whose first block also consumes the last value
  for n in (3, 9, 10, 12):
    sg = [(f"x{i}", "wire", B(4), ()) for i in range(n + 1)]
    blocks = [("b0", "comb", [("=", ref("x0"), ref("in_")), ("=", ref("out"), ref(f"x{n}", ("s", 0, 2)))])]
    for i in range(1, n + 1):
      blocks.append((f"b{i}", "comb", [("=", ref(f"x{i}"), ("bin", "+", ref(f"x{i - 1}"), c(4, 1)))]))
    order = blocks[:1] + list(reversed(blocks[1:]))
    yield f"cyc:false-ring:{n}", comp("CycR", ins + sg, blocks=order), "false"
  # ping-pong chains: two blocks exchange SEVERAL signals in each direction (x0 -> x1 -> ... -> xn alternating between the blocks)
  S6 = S("S6", *[(f"f{i}", B(2)) for i in range(6)])
  for n in (3, 4, 6):
    for carrier in ("wires", "fields", "slices"):
      if carrier == "wires":
        sg = [(f"x{i}", "wire", B(2), ()) for i in range(n)]
        X = [ref(f"x{i}") for i in range(n)]
        fill = []
      elif carrier == "fields":
        sg = [("st", "wire", S6, ())]
        X = [ref("st", ("f", f"f{i}")) for i in range(n)]
        fill = [("=", ref("st", ("f", f"f{i}")), c(2, 0)) for i in range(n, 6)]
      else:
        sg = [("w", "wire", B(12), ())]
        X = [ref("w", ("s", 2 * i, 2 * i + 2)) for i in range(n)]
        fill = [("=", ref("w", ("s", 2 * n, 12)), c(12 - 2 * n, 0))] if n < 6 else []
      a = [("=", X[0], ref("in_", ("s", 0, 2)))] + [("=", X[i], ("bin", "+", X[i - 1], c(2, 1))) for i in range(2, n, 2)]
      b = [("=", X[i], ("bin", "+", X[i - 1], c(2, 1))) for i in range(1, n, 2)]
      last = ("=", ref("out"), X[n - 1])
      (a if (n - 1) % 2 == 1 else b).append(last)
      blocks = [("blkB", "comb", b), ("blkA", "comb", a)] + ([("blkFill", "comb", fill)] if fill else [])
      yield f"cyc:pingpong:{carrier}:{n}", comp("CycPP", ins + sg, blocks=blocks), "false"
  # three-block false loops with a "writer writes the whole signal, reader reads a part of it" hop (and an overlapping-sibling-slice
  # hop): in -> X<lo> -> y -> z -> X<hi>; every block in turn is made the entry of the cyclic group by a predecessor, all source orders
  for clabel, xt, mkx, rd in (
      ("slice", B(4), lambda z, i: ("call", "concat", z, i), ref("X", ("s", 0, 2))),
      ("field", Sab, lambda z, i: ("st", "Sab", z, i), ref("X", ("f", "b"))),
      ("sibling", B(4), None, ref("X", ("s", 1, 3)))):
    for entry in (None, "y", "z", "x"):
      for oi, order in enumerate(itertools.permutations(range(3))):
        sg = [("X", "wire", xt, ()), ("y", "wire", B(2), ()), ("z", "wire", B(2), ()), ("m", "wire", B(4), ()), ("q", "out", B(4), ())]
        i2 = ref("in_", ("s", 0, 2))
        tail = lambda k: [("=", ref("q"), ref("m"))] if entry == k else []
        by = ("blkY", "comb", [("=", ref("y"), rd)] + tail("y"))
        bz = ("blkZ", "comb", [("=", ref("z"), ref("y")), ("=", ref("out"), ref("z"))] + tail("z"))
        if clabel == "sibling":
          bx = ("blkX", "comb", [("=", ref("X", ("s", 0, 3)), ("call", "concat", ref("z", ("b", 0)), i2))] + tail("x"))
          extra = [("blkFill", "comb", [("=", ref("X", ("b", 3)), ref("in_", ("b", 3)))])]
        else:
          bx = ("blkX", "comb", [("=", ref("X"), mkx(ref("z"), i2))] + tail("x"))
          extra = []
        pre = [("blkPre", "comb", [("=", ref("m"), ("bin", "+", ref("in_"), c(4, 3)))])]
        if entry is None: pre = [("blkPre", "comb", [("=", ref("m"), ref("in_")), ("=", ref("q"), ref("in_"))])]
        three = [by, bz, bx]
        yield f"cyc:false-whole-part:{clabel}:entry-{entry}:o{oi}", comp("CycW", ins + sg, blocks=[three[k] for k in order] + extra + pre), "false"
  # two independent false loops + an acyclic part
  sgs = [("P", "wire", B(2), ()), ("R", "wire", B(2), ()), ("P2", "wire", B(2), ()), ("R2", "wire", B(2), ()), ("o2", "wire", B(2), ())]
  yield "cyc:false-two-sccs", comp("Cyc2", ins + sgs, blocks=[
    ("a1", "comb", [("=", ref("P"), ref("in_", ("s", 0, 2))), ("=", ref("o2"), ("un", "~", ref("R")))]),
    ("b1", "comb", [("=", ref("R"), ("bin", "+", ref("P"), c(2, 1)))]),
    ("a2", "comb", [("=", ref("P2"), ref("o2")), ("=", ref("out"), ("bin", "^", ref("R2"), ref("o2")))]),
    ("b2", "comb", [("=", ref("R2"), ("bin", "+", ref("P2"), c(2, 3)))])]), "false"

  # an update_once member in a cycle that passes through a CONNECTION (a generated net block is a member of the group)
  sgn = [("P", "wire", B(2), ()), ("P2", "wire", B(2), ()), ("R", "wire", B(2), ())]
  An = ("blkA", "comb", [("=", ref("P"), ("bin", "+", ref("in_", ("s", 0, 2)), ref("R"))), ("=", ref("out"), ("un", "~", ref("R")))])
  Bn = ("blkB", "once", [("=", ref("R"), ("bin", "^", ref("P2"), ref("in_", ("s", 2, 4))))])
  yield "cyc:once-net", comp("CycON", ins + sgn, blocks=[An, Bn], connects=[(ref("P2"), ref("P"))]), "once"
  # loops inside ONE block: a block that reads the signal it writes
  i2 = ref("in_", ("s", 0, 2))
  yield "cyc:self-diverge", comp("CycSD", ins + [("X", "wire", B(2), ())], blocks=[
    ("blkA", "comb", [("=", ref("X"), ("bin", "+", ref("X"), ("bin", "|", i2, c(2, 1)))), ("=", ref("out"), ref("X"))])]), "diverge"
  yield "cyc:self-false-slices", comp("CycSF", ins + [("X", "wire", B(4), ())], blocks=[
    ("blkA", "comb", [("=", ref("X", ("s", 2, 4)), ref("X", ("s", 1, 3))), ("=", ref("out"), ref("X", ("s", 2, 4)))]),
    ("blkF", "comb", [("=", ref("X", ("s", 0, 2)), i2)])]), "false"


def _cyc_fill(label, sg):
  """Blocks driving the bits of the carriers that the loop does not drive (single-driver discipline)."""
  if label == "nested":
    return [("blkFill", "comb", [("=", ref("PR", ("f", "p"), ("f", "b")), ref("in_", ("s", 1, 3)))])]
  if label == "mixed":
    return [("blkFill", "comb", [("=", ref("P", ("b", 0)), ref("in_", ("b", 3))), ("=", ref("P", ("b", 3)), ref("in_", ("b", 0))),
                                 ("=", ref("R", ("f", "a")), ref("in_", ("s", 1, 3)))])]
  return []


FAMILIES = {"ffx": f_ffx, "fan": f_fan, "vidx": f_vidx, "chain": f_chain, "reg": f_reg, "diamond": f_diamond, "net": f_net, "hier": f_hier}


def all_designs(families=None):
  for fam in (families or FAMILIES):
    yield from FAMILIES[fam]()
