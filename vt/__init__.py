"""vt -- verification toolkit for the pymtl3 properties (see /verif/DESIGN.md)."""
