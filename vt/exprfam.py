"""Typed expression family for the translation checks (C03 / C12): every well-typed expression
tree up to a depth over a leaf alphabet, as IR expressions, packed many-per-design."""
import itertools

from vt import ir
from vt.ir import B, ref, c
from vt.irgen import Sab, comp

W = (1, 2, 4, 8)


def leaves(w):
  """sized leaves of width w: (expr, tag)"""
  L = []
  if w == 4: L += [(ref("in4a"), "P4a"), (ref("in4b"), "P4b"), (c(4, 5), "C4"), (ref("in8", ("s", 0, 4)), "S"), (ref("in8", ("s", 4, 8)), "Sh"),
                   (ref("lst", ("i", 1)), "A"), (ref("lst", ("v", ref("in1"))), "Av")]
  if w == 8: L += [(ref("in8"), "P8"), (c(8, 130), "C8")]
  if w == 1: L += [(ref("in1"), "P1"), (ref("in8", ("b", 7)), "b7"), (ref("in8", ("vb", ref("in4a", ("s", 0, 3)))), "VI"), (c(1, 1), "C1")]
  if w == 2: L += [(ref("st", ("f", "a")), "Fa"), (ref("st", ("f", "b")), "Fb"), (ref("in4a", ("s", 1, 3)), "S13")]
  return L


INTS = [(("i", 0), "L0"), (("i", 1), "L1"), (("i", 3), "L3")]


def ints_for(w):
  out = [x for x in INTS if x[0][1] < (1 << w)]
  if w >= 4: out.append((("i", 15), "L15"))
  if w >= 8: out.append((("i", 200), "L200"))
  return out


def exprs(w, depth, small=False):
  """All expressions of width w and nesting <= depth: list of (expr, shape). small: False = every sub-expression of the level below,
  True = about 14 evenly spaced representatives of it (quick tier), an int k = about k representatives (thorough tier: the full
  depth-2 product is 10^7 statements)."""
  out = list(leaves(w))
  if depth == 0: return out
  sub = exprs(w, depth - 1, small)
  if small and depth >= 2: sub = sub[::max(1, len(sub) // (14 if small is True else small))]
  res = list(out)
  ar = ["+", "-", "&", "|", "^"] + ([] if small is True and depth >= 2 else ["*"])
  for op in ar:
    for (a, sa), (b, sb) in itertools.product(sub, sub):
      res.append((("bin", op, a, b), f"({sa}{op}{sb})"))
    for (a, sa) in sub:
      for (k, sk) in ints_for(w):
        res.append((("bin", op, a, k), f"({sa}{op}{sk})"))
        if op in ("+", "&", "-"): res.append((("bin", op, k, a), f"({sk}{op}{sa})"))
  for (a, sa) in sub:
    res.append((("un", "~", a), f"(~{sa})"))
    for op in ("<<", ">>"):
      for (k, sk) in [x for x in ints_for(w) if x[0][1] <= w]:
        res.append((("bin", op, a, k), f"({sa}{op}{sk})"))
      for (b, sb) in sub[:6]:
        res.append((("bin", op, a, b), f"({sa}{op}{sb})"))
  c1 = exprs(1, 0)
  for (cc, sc) in c1[:3]:
    for (a, sa), (b, sb) in itertools.product(sub[:10], sub[:10]):
      res.append((("ife", cc, a, b), f"ife({sc},{sa},{sb})"))
  if w == 1:
    for w2 in (2, 4, 8):
      s2 = exprs(w2, depth - 1, small)
      if small: s2 = s2[::max(1, len(s2) // (10 if small is True else small))]
      for op in ("==", "!=", "<", "<=", ">", ">="):
        for (a, sa), (b, sb) in itertools.product(s2[:12], s2[:12]):
          res.append((("bin", op, a, b), f"({sa}{op}{sb})"))
        for (a, sa) in s2[:12]:
          for (k, sk) in ints_for(w2):
            res.append((("bin", op, a, k), f"({sa}{op}{sk})"))
      for fn in ("reduce_and", "reduce_or", "reduce_xor"):
        for (a, sa) in s2[:12]: res.append((("call", fn, a), f"{fn}({sa})"))
  for w2 in W:
    s2 = exprs(w2, depth - 1, small)
    if small: s2 = s2[::max(1, len(s2) // (8 if small is True else small))]
    if w2 < w:
      for (a, sa) in s2[:12]:
        res.append((("call", "zext", a, ("n", w)), f"zext({sa},{w})"))
        res.append((("call", "sext", a, ("n", w)), f"sext({sa},{w})"))
      w3 = w - w2
      if w3 in W or w3 in (1, 2, 4):
        s3 = exprs(w3, 0) if w3 in W else []
        for (a, sa), (b, sb) in itertools.product(s2[:8], s3[:6]):
          res.append((("call", "concat", a, b), f"concat({sa},{sb})"))
    if w2 > w:
      for (a, sa) in s2[:12]:
        res.append((("call", "trunc", a, ("n", w)), f"trunc({sa},{w})"))
  return res


def statements(tier):
  """(shape, width, stmts) : the statement list of one block writing its own output {o}."""
  out = []
  depth = 2
  for w in W:
    es = exprs(w, 1) + exprs(w, 2, small=(True if tier == "quick" else 80))
    seen = set()
    for e, sh in es:
      if sh in seen: continue
      seen.add(sh)
      out.append((sh, w, [("=", ref("{o}"), e)]))
  # loops, temporaries, if/else statements
  for n in (2, 3, 4):
    out.append((f"for{n}:bit-copy", 4, [("=", ref("{o}"), c(4, 0)), ("for", "i", 0, n, [("=", ref("{o}", ("vb", ("lv", "i"))), ref("in8", ("vb", ("lv", "i"))))])]))
    out.append((f"for{n}:acc", 8, [("=", ref("{o}"), ref("in8")), ("for", "i", 0, n, [("=", ref("{o}"), ("bin", "+", ref("{o}"), ("lv", "i")))])]))
    out.append((f"for{n}:shift-by-loopvar", 8, [("=", ref("{o}"), c(8, 0)), ("for", "i", 0, n, [("=", ref("{o}"), ("bin", "|", ref("{o}"), ("bin", "<<", ref("in8"), ("lv", "i"))))])]))
  out.append(("tmp:sum", 4, [("tmp", "t", ("bin", "+", ref("in4a"), ref("in4b"))), ("=", ref("{o}"), ("bin", "^", ("tv", "t"), ref("in4a")))]))
  out.append(("tmp:nested", 8, [("tmp", "t", ("call", "zext", ref("in4a"), ("n", 8))), ("tmp", "u", ("bin", "+", ("tv", "t"), ref("in8"))), ("=", ref("{o}"), ("bin", "&", ("tv", "u"), ("i", 200)))]))
  out.append(("if:else", 4, [("if", ref("in1"), [("=", ref("{o}"), ref("in4a"))], [("=", ref("{o}"), ("un", "~", ref("in4b")))])]))
  out.append(("if:elif", 4, [("if", ref("in1"), [("=", ref("{o}"), ref("in4a"))], [("if", ("bin", "==", ref("in4b"), ("i", 3)), [("=", ref("{o}"), c(4, 9))], [("=", ref("{o}"), ref("in4b"))])])]))
  out.append(("if:default-then-override", 4, [("=", ref("{o}"), c(4, 1)), ("if", ("bin", ">", ref("in8"), ("i", 100)), [("=", ref("{o}"), ref("in8", ("s", 2, 6)))], [])]))
  out.append(("sext:compound", 8, [("=", ref("{o}"), ("call", "sext", ("bin", "+", ref("in4a"), ref("in4b")), ("n", 8)))]))
  out.append(("sext:slice", 8, [("=", ref("{o}"), ("call", "sext", ref("in8", ("s", 2, 5)), ("n", 8)))]))
  # casts and extensions that do not change the width, around a compound expression and inside another operator
  s44 = ("bin", "+", ref("in4a"), ref("in4b"))
  s88 = ("bin", "+", ref("in8"), ("call", "zext", ref("in4a"), ("n", 8)))
  same = {"zext": ("call", "zext", s44, ("n", 4)), "sext": ("call", "sext", s44, ("n", 4)), "trunc": ("call", "trunc", s44, ("n", 4)), "cast": ("call", "Bits4", s44),
          "trunc-narrow": ("call", "trunc", s88, ("n", 4))}
  for nm, e in same.items():
    out.append((f"samewidth:{nm}:mul", 4, [("=", ref("{o}"), ("bin", "*", e, ref("in4b")))]))
    out.append((f"samewidth:{nm}:inv", 4, [("=", ref("{o}"), ("un", "~", e))]))
    out.append((f"samewidth:{nm}:and-shift", 4, [("=", ref("{o}"), ("bin", "&", ("bin", ">>", e, ("i", 1)), ref("in4a")))]))
  out.append(("struct:ctor", 4, [("=", ref("{o}"), ("call", "concat", ref("st", ("f", "b")), ref("st", ("f", "a"))))]))
  return out


def design(items):
  """items: [(k, shape, w, stmts)] -> one component with one block + one out port per item"""
  sigs = [("in4a", "in", B(4), ()), ("in4b", "in", B(4), ()), ("in8", "in", B(8), ()), ("in1", "in", B(1), ()), ("st", "in", Sab, ()), ("lst", "in", B(4), (2,))]
  blocks = []
  for k, sh, w, stmts in items:
    o = f"o{w}_{k}"
    sigs.append((o, "out", B(w), ()))
    blocks.append((f"blk_{k}", "comb", _subst(stmts, o)))
  return comp("Ex", sigs, blocks=blocks)


def _subst(x, o):
  if isinstance(x, tuple):
    if len(x) == 4 and x[0] == "ref" and x[2] == "{o}": return ("ref", x[1], o, x[3])
    return tuple(_subst(y, o) for y in x)
  if isinstance(x, list): return [_subst(y, o) for y in x]
  return x


def inputs():
  out = []
  for a in (0, 1, 9, 15):
    for b in (0, 3, 15):
      for c8 in (0, 1, 200, 255):
        for d in (0, 1):
          out.append({"in4a": a, "in4b": b, "in8": c8, "in1": d, "st": (a ^ b) & 15, ((), "lst", (0,)): b, ((), "lst", (1,)): (a + 5) & 15, "reset": 0})
  return out
