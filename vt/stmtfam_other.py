"""A second Python module for vt/stmtfam.py: a base class whose block uses a module-level constant with the same NAME as a
(different) constant of the module in which the subclass is defined."""
from pymtl3 import *

GK = 5
GT = [1, 2, 3, 4]


class OtherModuleBase(Component):
  def construct(s):
    s.a = InPort(Bits8)
    s.b = InPort(Bits8)
    s.sel = InPort(Bits2)
    s.en = InPort(Bits1)
    s.o = OutPort(Bits8)
    s.q = OutPort(Bits8)

    @update
    def up_omb():
      s.o @= s.a + GK
      s.q @= s.b + GT[1]
