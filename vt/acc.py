"""Accumulator of what one shard of an exploration covered.

Everything a check reports goes through an Acc: counters, sets of distinct
things (outcomes, non-trivial cases, states), a few written-out samples and
the violations. Accs are merged by the runner; sets are merged by union so a
"distinct" count is distinct over the whole run, not per shard.
"""
import json
from collections import Counter, defaultdict


class MachineryError(Exception):
  """The harness itself is wrong (generator bug, oracle bug, vacuous run)."""


class Acc:
  MAX_SAMPLES = 4
  MAX_VIOLATIONS = 200

  def __init__(self):
    self.n = Counter()
    self.sets = defaultdict(set)
    self.samples = []
    self.violations = []
    self.notes = []

  def count(self, key, d=1):
    self.n[key] += d

  def add(self, name, item):
    self.sets[name].add(item)

  def sample(self, x, force=False):
    if force or len(self.samples) < self.MAX_SAMPLES:
      self.samples.append(x)

  def violation(self, sig, case, expected=None, observed=None, msg=""):
    """sig: short stable signature naming *what* fails (used for known findings
    and for de-duplication); case: JSON-able minimal replayable input."""
    self.n["violations"] += 1
    if len(self.violations) < self.MAX_VIOLATIONS:
      self.violations.append(dict(sig=sig, case=case, expected=_j(expected),
                                  observed=_j(observed), msg=msg))

  def merge(self, other):
    self.n.update(other.n)
    for k, v in other.sets.items():
      self.sets[k] |= v
    for s in other.samples:
      if len(self.samples) < self.MAX_SAMPLES * 4:
        self.samples.append(s)
    self.violations.extend(other.violations)
    self.notes.extend(other.notes)
    return self

  def size(self, name):
    return len(self.sets.get(name, ()))


def _j(x):
  try:
    json.dumps(x)
    return x
  except TypeError:
    return repr(x)
