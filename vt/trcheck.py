"""Shared machinery of C03 / C12: translate a design with a real backend, execute the
emitted text with the E3 interpreter, compare with the PyMTL simulation (and the
IR reference when the design comes from the IR), check the driver map."""
import itertools
import os

from vt import ir, irref, svsim
from vt.svparse import Unsupported, SvSyntaxError
from vt.acc import MachineryError


def backend_pass(backend):
  if backend == "sv":
    from pymtl3.passes.backends.verilog import VerilogTranslationPass as P
  else:
    from pymtl3.passes.backends.yosys import YosysTranslationPass as P
  return P


def translate(cls, backend):
  """-> (text, top module name) or raises the backend's exception."""
  P = backend_pass(backend)
  m = cls()
  m.elaborate()
  m.set_metadata(P.enable, True)
  m.apply(P())
  fn = m.get_metadata(P.translated_filename)
  top = m.get_metadata(P.translated_top_module)
  with open(fn) as f: text = f.read()
  try: os.remove(fn)
  except OSError: pass
  return text, top


def flat_leaves(t, prefix, lo=None):
  """Yosys port flattening of a port of IR type t: [(flat name, lo bit, width)] using the packing layout."""
  w = ir.width(t)
  if lo is None: lo = 0
  if t[0] == "B": return [(prefix, lo, w)]
  out = []
  if t[0] == "S":
    hi = lo + w
    for fn, ft in t[2]:
      fw = ir.width(ft)
      out += flat_leaves(ft, f"{prefix}__{fn}", hi - fw)
      hi -= fw
    return out
  if t[0] == "L":
    ew = ir.width(t[1])
    for k in range(t[2]):
      out += flat_leaves(t[1], f"{prefix}__{k}", lo + k * ew)
    return out
  raise KeyError(t)


class PortMap:
  """How the top-level ports of an IR design appear in the emitted module."""
  def __init__(self, d, backend):
    self.ins, self.outs = [], []          # (ir key, [(sv name, sv elem idx, lo, width)])
    for name, kind, t, dims in d["sigs"]:
      if kind == "wire": continue
      for idx in itertools.product(*[range(x) for x in dims]):
        key = ((), name, idx)
        flat = 0
        for dd, x in zip(dims, idx): flat = flat * dd + x
        if backend == "sv":
          pieces = [(name, flat, 0, ir.width(t))]                     # packed value, unpacked array element
        else:
          base = name + "".join(f"__{i}" for i in idx)                # Yosys: one scalar port per leaf
          pieces = [(n, 0, lo, w) for n, lo, w in flat_leaves(t, base)]
        (self.ins if kind == "in" else self.outs).append((key, pieces))
    self.ins.append((((), "reset", ()), [("reset", 0, 0, 1)]))

  def drive(self, inst, values):
    for key, pieces in self.ins:
      if key not in values: continue
      v = values[key]
      for n, el, lo, w in pieces:
        inst.set_port(n, (v >> lo) & ((1 << w) - 1), el)

  def read(self, inst):
    out = {}
    for key, pieces in self.outs:
      v = 0
      for n, el, lo, w in pieces:
        v |= (inst.get_port(n, el) & ((1 << w) - 1)) << lo
      out[key] = v
    return out


def check_ir_design(name, d, backend, seqs, acc, sig_prefix):
  """seqs: list of input sequences (list of {input name: value, 'reset': r}). Returns 'skipped' | 'ok' | 'violation'."""
  from vt.dut import Dut
  cls, src, modname = ir.load(d)
  case = dict(design=name, ir=d, backend=backend)
  sig_prefix = f"{sig_prefix}:{struct_usage(d)}"
  try:
    try:
      text, top = translate(cls, backend)
    except Exception as ex:
      acc.count("not_translatable"); acc.add("translate_errors", type(ex).__name__)
      return "skipped"
    acc.count("programs")
    try:
      des = svsim.Design(text)
      if top not in des.mods: raise SvSyntaxError(f"top module {top} not defined")
      for mn, md in des.mods.items():
        for mod, iname, conns in md["insts"]:
          if mod not in des.mods: raise SvSyntaxError(f"{mn} instantiates undefined module {mod}")
      inst = svsim.Inst(des, top)
    except SvSyntaxError as ex:
      acc.violation(f"{sig_prefix}:invalid-text:{_fam(name)}", case, "syntactically valid text", str(ex)[:200], name)
      return "violation"
    # one driver per bit, in every module
    bad_drv = []
    for mn in des.mods:
      multi, drv = svsim.drivers(des, mn)
      if multi: bad_drv.append((mn, multi[0]))
    status = "ok"
    if bad_drv:
      mn, ((var, el, bit), who) = bad_drv[0]
      acc.violation(f"{sig_prefix}:multiple-drivers:{_drvkind(who)}:{_fam(name)}", case, "exactly one driver per variable bit",
                    f"{mn}.{var}[{el}] bit {bit}: {who}", name)
      status = "violation"
    pm = PortMap(d, backend)
    ref = irref.RefSim(d)
    dut = Dut(d, "dynamic", cls=cls)
    nsteps = 0
    outs_seen = set()
    for seq in seqs:
      for inp in seq:
        vals = {(k if isinstance(k, tuple) else ((), k, ())): v for k, v in inp.items()}
        dut.set_inputs(inp); ref.set_inputs(inp); pm.drive(inst, vals)
        try:
          inst.tick()
        except (svsim.SimError, SvSyntaxError) as ex:
          acc.violation(f"{sig_prefix}:{'invalid-text' if isinstance(ex, SvSyntaxError) else 'text-does-not-simulate'}:{_fam(name)}", case,
                        "valid text with a well-defined simulation", str(ex)[:200], name)
          return "violation"
        dut.tick(); ref.tick()
        po, ro, so = dut.obs(), ref.obs(), pm.read(inst)
        nsteps += 1
        for key in so:
          outs_seen.add((key, so[key]))
          if po[key] != ro[key]:
            raise AssertionError(f"machinery: PyMTL simulation and reference disagree on {name} {key}: {po[key]} vs {ro[key]}")
          if so[key] != po[key]:
            if status == "ok" or True:
              acc.violation(f"{sig_prefix}:output-differs:{_fam(name)}", dict(case, inputs=[[[_jk(k), v] for k, v in i.items()] for i in seq]), f"{ir.inst_name(key)} = {po[key]}",
                            f"{so[key]}", f"{name} after inputs {inp}")
            return "violation"
    acc.count("evaluations", nsteps)
    if len({v for k, v in outs_seen}) >= 2 and any(x in text for x in ("+", "^", "~", "'(", "[", "?")):
      acc.add("nontrivial", name)
    return status
  finally:
    ir.unload(modname)


def _jk(k):
  return k if isinstance(k, str) else [list(k[0]), k[1], list(k[2])]


def unjk(k):
  return k if isinstance(k, str) else (tuple(k[0]), k[1], tuple(k[2]))


def struct_usage(d):
  """plain | struct-structural (struct-typed ports moved by connections only) | struct-read-only (update blocks read fields of the
  component's own struct-typed input ports, nothing else) | struct-behavioral (a struct-typed wire, or a struct signal written / a
  non-input struct signal read inside an update block)"""
  insts = ir.instances(d)
  if not any(t[0] == "S" for t in insts.values()): return "plain"
  reads = False
  for path, cmp in ir.walk_comps(d):
    for name, kind, t, dims in cmp["sigs"]:
      if t[0] == "S" and kind == "wire": return "struct-behavioral"
    for blk in cmp.get("blocks", []):
      R, W = [], []
      ir.stmt_access(blk[2], R, W)
      for r in W:
        if ir.sig_decl(ir.comp_at(d, tuple(path) + tuple(r[1])), r[2])[2][0] == "S": return "struct-behavioral"
      for r in R:
        if r[2] in ("reset", "clk"): continue
        decl = ir.sig_decl(ir.comp_at(d, tuple(path) + tuple(r[1])), r[2])
        if decl[2][0] == "S":
          if decl[1] != "in" or r[1]: return "struct-behavioral"      # only reads of the component's OWN input ports are the benign class
          reads = True
  return "struct-read-only" if reads else "struct-structural"


def has_struct(d):
  return any(t[0] == "S" for t in ir.instances(d).values())


def _fam(name):
  return name.split(":")[0] + ":" + (name.split(":")[1] if ":" in name else "")


def _drvkind(who):
  kinds = sorted({w.split()[0].split("#")[0] for w in who})
  return "+".join(kinds)


# ------------------------------------------------------------------ class-level (non-IR) designs

def _port_path(port):
  """'s.i[0][1].msg[2]' -> (['i', 'msg'], [0, 1, 2], [('i',[0,1]),('msg',[2])])"""
  import re
  names, idxs, parts = [], [], []
  for seg in repr(port)[2:].split("."):
    m = re.match(r"([A-Za-z_0-9]+)((?:\[\d+\])*)$", seg)
    n = m.group(1); ii = [int(x) for x in re.findall(r"\[(\d+)\]", m.group(2))]
    names.append(n); idxs += ii; parts.append((n, ii))
  return names, idxs, parts


def sv_port(inst, port, backend):
  """Locate a top-level PyMTL port in the emitted module: (variable name, element index)."""
  names, idxs, parts = _port_path(port)
  if backend == "sv":
    n = "__".join(names)
    if n not in inst.vars: raise KeyError(n)
    dims = inst.vars[n][1]
    if len(dims) != len(idxs): raise KeyError(f"{n}: dims {dims} vs indices {idxs}")
    flat = 0
    for d, x in zip(dims, idxs): flat = flat * d + x
    return n, flat
  n = "__".join([p for n_, ii in parts for p in [n_] + [str(x) for x in ii]])
  if n not in inst.vars: raise KeyError(n)
  return n, 0


def _mk_setter(port):
  """lambda top, int: drive a top-level input port (Bits or bitstruct) with the packed value"""
  from pymtl3.datatypes import is_bitstruct_class, mk_bits
  r, T = repr(port), port._dsl.Type
  f = eval(f"lambda s, v: s.{r[2:]}.__imatmul__(v)")
  if is_bitstruct_class(T):
    B = mk_bits(T.nbits)
    return lambda s, v: f(s, T.from_bits(B(v)))
  return f


def _mk_getter(port):
  from pymtl3.datatypes import is_bitstruct_class
  r, T = repr(port), port._dsl.Type
  if is_bitstruct_class(T): return eval(f"lambda s: int(s.{r[2:]}.to_bits())")
  return eval(f"lambda s: int(s.{r[2:]})")


def yosys_struct_leaves(T, prefix):
  """[(leaf port name, lo bit, width)] of a bitstruct-typed top-level port in the flattened Yosys text (first field = most significant bits)"""
  from pymtl3.datatypes import is_bitstruct_class
  out = []
  hi = T.nbits
  for fname, ft in T.__bitstruct_fields__.items():
    if isinstance(ft, list): raise MachineryError(f"array field {fname} of a top-level struct port is not handled by the class harness")
    w = ft.nbits
    if is_bitstruct_class(ft): out += [(n, lo + hi - w, ww) for n, lo, ww in yosys_struct_leaves(ft, f"{prefix}__{fname}")]
    else: out.append((f"{prefix}__{fname}", hi - w, w))
    hi -= w
  return out


def drive_port(inst, port, backend, loc, v):
  """set one top-level input of the interpreted text; a struct-typed port of the Yosys text is driven through its flattened leaves"""
  from pymtl3.datatypes import is_bitstruct_class
  T = port._dsl.Type
  if backend == "yosys" and is_bitstruct_class(T):
    for n, lo, w in yosys_struct_leaves(T, loc[0]):
      if n not in inst.vars: raise KeyError(n)
      inst.set_port(n, (v >> lo) & ((1 << w) - 1), loc[1])
    return
  inst.set_port(loc[0], v, loc[1])


def port_width_mismatch(inst, maps):
  """first (port, PyMTL width, declared width) whose declaration in the text has another width than the PyMTL port"""
  for r, w, loc in maps:
    if loc is None: continue
    dw = inst.d.twidth(inst.vars[loc[0]][0])
    if dw != w: return r, w, dw
  return None


def check_class(name, cls, backend, acc, vectors):
  """Two-way comparison for a hand-written component class: PyMTL simulation vs interpreted text."""
  from pymtl3 import DefaultPassGroup
  case = dict(design=name, backend=backend, kind="class")
  sig_prefix = f"{backend}:class"
  try:
    text, top = translate(cls, backend)
  except Exception as ex:
    acc.count("not_translatable"); acc.add("translate_errors", type(ex).__name__)
    return "skipped"
  acc.count("programs")
  try:
    des = svsim.Design(text)
    for mn, md in des.mods.items():
      for mod, iname, conns in md["insts"]:
        if mod not in des.mods: raise SvSyntaxError(f"{mn} instantiates undefined module {mod}")
    inst = svsim.Inst(des, top)
  except SvSyntaxError as ex:
    acc.violation(f"{sig_prefix}:invalid-text:{name}", case, "syntactically valid text", str(ex)[:200], name)
    return "violation"
  for mn in des.mods:
    multi, drv = svsim.drivers(des, mn)
    if multi:
      (var, el, bit), who = multi[0]
      acc.violation(f"{sig_prefix}:multiple-drivers:{name}", case, "exactly one driver per variable bit", f"{mn}.{var}[{el}] bit {bit}: {who}", name)
      break
  m = cls()
  m.elaborate()
  m.apply(DefaultPassGroup())
  ins = sorted((p for p in m.get_input_value_ports() if p.get_field_name() not in ("clk",)), key=repr)
  ins = sorted(m.get_all_object_filter(lambda x: x.is_signal() and x.is_top_level_signal() and x.get_host_component() is m and x.is_input_value_port() and repr(x) != "s.clk"), key=repr)
  outs = sorted(m.get_all_object_filter(lambda x: x.is_signal() and x.is_top_level_signal() and x.get_host_component() is m and x.is_output_value_port()), key=repr)
  try:
    imap = [(repr(p), p._dsl.Type.nbits, sv_port(inst, p, backend)) for p in ins]
    omap = [(repr(p), p._dsl.Type.nbits, sv_port(inst, p, backend)) for p in outs]
  except KeyError as ex:
    acc.violation(f"{sig_prefix}:port-missing:{name}", case, "every PyMTL port appears in the emitted module", f"no port {ex}", name)
    return "violation"
  bad = port_width_mismatch(inst, imap + omap)
  if bad:
    acc.violation(f"{sig_prefix}:port-width-differs:{name}", case, f"{bad[0]} is {bad[1]} bits wide", f"declared with {bad[2]} bits in the text", name)
    return "violation"
  setters = {repr(p): _mk_setter(p) for p in ins}
  getters = {repr(p): _mk_getter(p) for p in outs}
  nsteps = 0
  pobj = {repr(p): p for p in ins}
  for vec in vectors(imap):
    for (r, w, (vn, el)) in imap:
      v = vec[r] & ((1 << w) - 1)
      setters[r](m, v); drive_port(inst, pobj[r], backend, (vn, el), v)
    try:
      m.sim_tick(); inst.tick()
    except (svsim.SimError, SvSyntaxError) as ex:
      acc.violation(f"{sig_prefix}:{'invalid-text' if isinstance(ex, SvSyntaxError) else 'text-does-not-simulate'}:{name}", case, "valid text", str(ex)[:200], name)
      return "violation"
    nsteps += 1
    for (r, w, (vn, el)) in omap:
      a, b = getters[r](m), inst.get_port(vn, el)
      if a != b:
        acc.violation(f"{sig_prefix}:output-differs:{name}", dict(case, vector={k: v for k, v in vec.items()}), f"{r} = {a}", b, f"{name} inputs {vec}")
        return "violation"
  acc.count("evaluations", nsteps)
  acc.add("nontrivial", name)
  return "ok"


def check_class_ref(name, cls, backend, acc, seqs, ref, sig_prefix=None):
  """Three-way comparison for a hand-written component with a reference function:
  ref(state, **inputs) -> (state', {output name without 's.': value}); every sequence starts from a fresh design / state None."""
  from pymtl3 import DefaultPassGroup
  case = dict(design=name, backend=backend, kind="stmt")
  sig_prefix = sig_prefix or f"{backend}:stmt"
  try:
    text, top = translate(cls, backend)
  except Exception as ex:
    acc.count("not_translatable"); acc.add("translate_errors", f"{name}:{type(ex).__name__}")
    text = None
  if text is not None:
    acc.count("programs")
    try:
      des = svsim.Design(text)
      for mn, md in des.mods.items():
        for mod, iname, conns in md["insts"]:
          if mod not in des.mods: raise SvSyntaxError(f"{mn} instantiates undefined module {mod}")
      svsim.Inst(des, top)
    except SvSyntaxError as ex:
      acc.violation(f"{sig_prefix}:invalid-text:{name}", case, "syntactically valid text", str(ex)[:200], name)
      return "violation"
    for mn in des.mods:
      multi, drv = svsim.drivers(des, mn)
      if multi:
        (var, el, bit), who = multi[0]
        acc.violation(f"{sig_prefix}:multiple-drivers:{name}", case, "exactly one driver per variable bit", f"{mn}.{var}[{el}] bit {bit}: {who}", name)
        return "violation"
  nsteps = 0
  for si, seq in enumerate(seqs):
    m = cls()
    m.elaborate()
    m.apply(DefaultPassGroup())
    inst = svsim.Inst(des, top) if text is not None else None
    ins = sorted(m.get_all_object_filter(lambda x: x.is_signal() and x.is_top_level_signal() and x.get_host_component() is m and x.is_input_value_port() and repr(x) != "s.clk"), key=repr)
    outs = sorted(m.get_all_object_filter(lambda x: x.is_signal() and x.is_top_level_signal() and x.get_host_component() is m and x.is_output_value_port()), key=repr)
    try:
      imap = [(repr(p), p._dsl.Type.nbits, sv_port(inst, p, backend) if inst else None) for p in ins]
      omap = [(repr(p), p._dsl.Type.nbits, sv_port(inst, p, backend) if inst else None) for p in outs]
    except KeyError as ex:
      acc.violation(f"{sig_prefix}:port-missing:{name}", case, "every PyMTL port appears in the emitted module", f"no port {ex}", name)
      return "violation"
    bad = port_width_mismatch(inst, imap + omap) if inst else None
    if bad:
      acc.violation(f"{sig_prefix}:port-width-differs:{name}", case, f"{bad[0]} is {bad[1]} bits wide", f"declared with {bad[2]} bits in the text", name)
      return "violation"
    setters = {repr(p): _mk_setter(p) for p in ins}
    getters = {repr(p): _mk_getter(p) for p in outs}
    state = None
    for step, vec in enumerate(seq):
      for (r, w, loc) in imap:
        v = vec[r[2:]] & ((1 << w) - 1)
        setters[r](m, v)
        if inst: inst.set_port(loc[0], v, loc[1])
      try:
        m.sim_tick()
      except Exception as ex:
        raise MachineryError(f"{name}: PyMTL simulation raised {ex!r} (family bug)")
      state, want = ref(state, **vec)
      if inst:
        try:
          inst.tick()
        except (svsim.SimError, SvSyntaxError) as ex:
          acc.violation(f"{sig_prefix}:{'invalid-text' if isinstance(ex, SvSyntaxError) else 'text-does-not-simulate'}:{name}", case, "valid text", str(ex)[:200], name)
          return "violation"
      nsteps += 1
      for (r, w, loc) in omap:
        a = getters[r](m)
        e = want[r[2:]] & ((1 << w) - 1)
        if a != e:
          raise MachineryError(f"{name}: reference function and PyMTL simulation disagree on {r} at step {step} of sequence {si}: ref {e}, sim {a}, inputs {vec} (family bug or a simulation defect: triage by hand)")
        if inst:
          b = inst.get_port(loc[0], loc[1])
          if a != b:
            acc.violation(f"{sig_prefix}:output-differs:{name}", dict(case, seq=si, step=step), f"{r} = {a}", b, f"{name} sequence {si} step {step} inputs {vec}")
            return "violation"
  acc.count("evaluations", nsteps)
  if text is not None: acc.add("nontrivial", name)
  return "ok" if text is not None else "skipped"


def class_vectors(imap):
  """A deterministic family of input vectors: all-equal values, per-port distinct values, walking differences."""
  names = [r for r, w, _ in imap]
  out = []
  for base in (0, 1, 5, 10, 15):
    out.append({r: (base + 3 * k) for k, r in enumerate(names)})
    out.append({r: base for r in names})
  for k, r in enumerate(names):
    v = {x: 0 for x in names}; v[r] = 0xF
    out.append(v)
    v2 = {x: 0xFF for x in names}; v2[r] = 0x2
    out.append(v2)
  # every bit of every port: all ones, the top bit alone, alternating patterns (the harness masks a value to the port width)
  widths = {r: w for r, w, _ in imap}
  out.append({r: (1 << widths[r]) - 1 for r in names})
  out.append({r: 1 << (widths[r] - 1) for r in names})
  out.append({r: int("a5" * 16, 16) + k for k, r in enumerate(names)})
  out.append({r: int("5a" * 16, 16) ^ (k << (widths[r] // 2)) for k, r in enumerate(names)})
  return out
