"""Runner: tiering, sharding over worker processes, evidence, exit codes.

Contract of a check module vt/checks/cNN.py:

  PROPERTY   = "C04"
  LEVEL      = "exploration" | "model_checking" | ...
  ASSUMPTIONS= [str]
  shards(tier)                 -> list of small picklable shard descriptors
  run_shard(shard, tier, seed) -> vt.acc.Acc
  finish(acc, tier)            -> coverage dict (level keys measured from acc)
  replay(case)                 -> list of (sig, expected, observed, msg) still failing
  known_sig(v)  (optional)     -> refine a violation's signature

Exit status: 0 held / only known findings, 1 VIOLATION, 2+ machinery failure.
"""
import argparse
import fnmatch
import hashlib
import importlib
import json
import multiprocessing as mp
import os
import shutil
import subprocess
import sys
import time
import traceback

from vt.acc import Acc, MachineryError

ROOT = os.path.dirname(os.path.dirname(os.path.abspath(__file__)))
WORK = os.path.join(ROOT, ".work")
NPROC = int(os.environ.get("VERIF_NPROC", "16"))


def _load(pid):
  return importlib.import_module("vt.checks." + pid.lower())


# ---------------------------------------------------------------- workers

def _init_worker(pid):
  d = os.path.join(WORK, f"{pid}-{os.getpid()}")
  os.makedirs(d, exist_ok=True)
  os.chdir(d)


def _worker(job):
  pid, idx, shard, tier, seed = job
  try:
    mod = _load(pid)
    acc = mod.run_shard(shard, tier, seed)
    return idx, acc, None
  except BaseException:
    return idx, None, traceback.format_exc()


def run_parallel(pid, shards, tier, seed):
  jobs = [(pid, i, s, tier, seed) for i, s in enumerate(shards)]
  # the seed only rotates the order in which independent shards are started
  if jobs:
    k = seed % len(jobs)
    jobs = jobs[k:] + jobs[:k]
  total = Acc()
  errors = []
  nproc = min(NPROC, max(1, len(jobs)))
  if nproc == 1 or os.environ.get("VERIF_SERIAL"):
    _init_worker(pid)
    results = map(_worker, jobs)
    for idx, acc, err in results:
      if err: errors.append((idx, err))
      else: total.merge(acc)
    os.chdir(ROOT)
  else:
    ctx = mp.get_context("fork")
    with ctx.Pool(nproc, initializer=_init_worker, initargs=(pid,)) as pool:
      for idx, acc, err in pool.imap_unordered(_worker, jobs, chunksize=1):
        if err: errors.append((idx, err))
        else: total.merge(acc)
  return total, errors


# ---------------------------------------------------------------- findings

def load_findings():
  p = os.path.join(ROOT, "known_findings.json")
  if not os.path.exists(p):
    return []
  with open(p) as f:
    return json.load(f)["findings"]


def match_known(pid, sig, findings):
  for e in findings:
    if e["property"] == pid and e.get("status") == "known":
      for pat in e["signatures"]:
        if fnmatch.fnmatchcase(sig, pat):
          return e
  return None


def digest(obj):
  return hashlib.sha1(json.dumps(obj, sort_keys=True, default=repr).encode()).hexdigest()[:16]


# ---------------------------------------------------------------- evidence

def write_evidence(pid, ev):
  os.makedirs(os.path.join(ROOT, "evidence"), exist_ok=True)
  path = os.path.join(ROOT, "evidence", pid + ".json")
  with open(path, "w") as f:
    json.dump(ev, f, indent=1, sort_keys=True, default=repr)
    f.write("\n")
  # validate with the tooling venv's jsonschema when present
  schema = "/root/.vp/EVIDENCE.schema.json"
  if not os.path.exists(schema):
    schema = os.path.join(ROOT, "vt", "EVIDENCE.schema.json")
  vt = shutil.which("python3-vt")
  if vt and os.path.exists(schema):
    r = subprocess.run([vt, "-c",
        "import json,sys,jsonschema;"
        "jsonschema.validate(json.load(open(sys.argv[1])),json.load(open(sys.argv[2])))",
        path, schema], capture_output=True, text=True)
    if r.returncode != 0:
      print("MACHINERY: evidence does not validate:\n" + r.stderr[-2000:])
      return False
  return True


# ---------------------------------------------------------------- main modes

def do_replay(pid, path, as_json=False):
  mod = _load(pid)
  with open(path) as f:
    rec = json.load(f)
  _init_worker(pid)
  try:
    fails = mod.replay(rec["case"])
  finally:
    os.chdir(ROOT)
  out = [dict(sig=s, expected=e, observed=o, msg=m) for (s, e, o, m) in fails]
  if as_json:
    print(json.dumps(out, sort_keys=True, default=repr))
  else:
    for v in out:
      print(f"REPLAY-FAIL property={pid} sig={v['sig']} expected={v['expected']!r} "
            f"observed={v['observed']!r} {v['msg']}")
    if not out:
      print(f"REPLAY-OK property={pid} (case no longer fails)")
  return 1 if out else 0


def confirm(pid, path):
  """Replay twice in fresh processes; both must fail identically."""
  outs = []
  for _ in range(2):
    r = subprocess.run([os.path.join(ROOT, "check"), pid, "--replay", path, "--json"],
                       capture_output=True, text=True)
    outs.append((r.returncode, r.stdout.strip().splitlines()[-1:] ))
  return outs[0] == outs[1] and outs[0][0] == 1, outs


def do_check(pid, tier, seed):
  t0 = time.time()
  mod = _load(pid)
  shutil.rmtree(os.path.join(WORK), ignore_errors=True) if False else None
  os.makedirs(WORK, exist_ok=True)
  shards = mod.shards(tier)
  acc, errors = run_parallel(pid, shards, tier, seed)
  status = 0
  if errors:
    for idx, err in errors[:5]:
      print(f"MACHINERY: shard {idx} failed:\n{err}")
    status = 2

  findings = load_findings()
  # de-duplicate violations: one replay per signature (smallest case first)
  by_sig = {}
  for v in acc.violations:
    key = v["sig"]
    if key not in by_sig or len(json.dumps(v["case"], default=repr)) < len(json.dumps(by_sig[key]["case"], default=repr)):
      by_sig[key] = v
  known_hits = {}
  new = []
  for sig, v in sorted(by_sig.items()):
    e = match_known(pid, sig, findings)
    if e: known_hits.setdefault(e["id"], (e, []))[1].append(sig)
    else: new.append(v)
  for fid, (e, sigs) in sorted(known_hits.items()):
    print(f"KNOWN-FINDING: property={pid} {e['id']}: {e['what']} ({len(sigs)} signature(s), e.g. {sigs[0]})")
  rdir = os.path.join(ROOT, "replays", pid)
  nviol = 0
  for v in new[:25]:
    os.makedirs(rdir, exist_ok=True)
    path = os.path.join(rdir, digest([v["sig"], v["case"]]) + ".json")
    with open(path, "w") as f:
      json.dump(dict(property=pid, **v), f, indent=1, sort_keys=True, default=repr)
    if nviol < 3 and not os.environ.get("VERIF_NOCONFIRM"):
      ok, outs = confirm(pid, path)
      if not ok:
        print(f"MACHINERY: violation {v['sig']} did not replay deterministically: {outs}")
        status = max(status, 3)
        continue
    nviol += 1
    print(f"VIOLATION property={pid} replay={path}")
    print(f"  sig={v['sig']} expected={v['expected']!r} observed={v['observed']!r} {v['msg']}")
  if len(new) > 25:
    print(f"  ... and {len(new)-25} further distinct violation signatures")
    if os.environ.get("VERIF_SHOWALL"):
      for v in new[25:]: print(f"  more: sig={v['sig']} expected={v['expected']!r} observed={v['observed']!r} {str(v['msg'])[:200]}")
    import collections
    cls = collections.Counter(":".join(v["sig"].split(":")[:3]) for v in new)
    for k, n in cls.most_common(30): print(f"  class {k}: {n} signatures")
  if nviol:
    status = max(status, 1)

  try:
    cov = mod.finish(acc, tier)
  except MachineryError as e:
    print(f"MACHINERY: {e}")
    cov = dict(evaluations=int(acc.n.get('evaluations', 0)), distinct_nontrivial=0,
               rule="(run failed its self-check)", samples=acc.samples[:1] or ["-"])
    status = max(status, 2)
  cov.setdefault("samples", acc.samples[:4])
  cov["counters"] = {k: int(v) for k, v in sorted(acc.n.items())}
  cov["shards"] = len(shards)
  cov["shard_errors"] = len(errors)
  ev = dict(property_id=pid, tier=tier, seed=seed, level=mod.LEVEL, coverage=cov,
            assumptions=list(getattr(mod, "ASSUMPTIONS", [])),
            wall_s=round(time.time() - t0, 2),
            violations=nviol, known_findings=sorted(known_hits))
  if not write_evidence(pid, ev):
    status = max(status, 2)
  keys = [k for k in ("evaluations", "distinct_nontrivial", "states", "transitions",
                      "traces_validated_against_impl", "programs", "exhaustive") if k in cov]
  print(f"{pid} {tier}: " + " ".join(f"{k}={cov[k]}" for k in keys) +
        f" violations={nviol} known={len(known_hits)} wall={ev['wall_s']}s status={status}")
  # clean per-process work dirs
  for d in os.listdir(WORK):
    if d.startswith(pid + "-"):
      shutil.rmtree(os.path.join(WORK, d), ignore_errors=True)
  return status


def main(argv=None):
  ap = argparse.ArgumentParser()
  ap.add_argument("pid", nargs="?")
  ap.add_argument("--tier", default=os.environ.get("VERIF_TIER") or "quick",
                  choices=["quick", "thorough"])
  ap.add_argument("--replay")
  ap.add_argument("--json", action="store_true")
  ap.add_argument("--selftest", action="store_true")
  ap.add_argument("--seeded", nargs="*")
  args = ap.parse_args(argv)
  seed = int(os.environ.get("VERIF_SEED") or 0)
  if args.selftest:
    from vt import selftest
    return selftest.main()
  if args.seeded is not None:
    from vt import seeded
    return seeded.main(args.seeded)
  if not args.pid:
    ap.error("property id required")
  pid = args.pid.upper()
  if args.replay:
    return do_replay(pid, args.replay, args.json)
  return do_check(pid, args.tier, seed)


if __name__ == "__main__":
  sys.exit(main())
