"""Hand-written designs with interfaces, interface arrays (1-D, 2-D, non-square), interfaces holding port arrays,
arrays of sub-components -- constructs the design IR does not cover. Used by C03 / C12 (two-way comparison:
PyMTL simulation vs interpreted text) and by C13."""
from pymtl3 import *


class MsgIn(Interface):
  def construct(s):
    s.msg = InPort(Bits4)
    s.val = InPort(Bits1)


class MsgOut(Interface):
  def construct(s):
    s.msg = OutPort(Bits4)
    s.val = OutPort(Bits1)


class IfcGrid(Component):
  """2 x 3 array of interfaces copied element by element inside an update block (constant indices)"""
  def construct(s):
    s.i = [[MsgIn() for _ in range(3)] for _ in range(2)]
    s.o = [[MsgOut() for _ in range(3)] for _ in range(2)]

    @update
    def up_grid():
      s.o[0][0].msg @= s.i[0][0].msg
      s.o[0][1].msg @= s.i[0][1].msg + 1
      s.o[0][2].msg @= s.i[0][2].msg + 2
      s.o[1][0].msg @= s.i[1][0].msg + 3
      s.o[1][1].msg @= s.i[1][1].msg + 4
      s.o[1][2].msg @= s.i[1][2].msg + 5
      for a in range(2):
        for b in range(3):
          s.o[a][b].val @= s.i[a][b].val


class IfcGridLoop(Component):
  """the same with loop-variable indices, transposed source"""
  def construct(s):
    s.i = [[MsgIn() for _ in range(2)] for _ in range(3)]
    s.o = [[MsgOut() for _ in range(3)] for _ in range(2)]

    @update
    def up_gridl():
      for a in range(2):
        for b in range(3):
          s.o[a][b].msg @= s.i[b][a].msg ^ 9
          s.o[a][b].val @= ~s.i[b][a].val


class IfcRow(Component):
  """1-D interface array, connected (no blocks)"""
  def construct(s):
    s.i = [MsgIn() for _ in range(3)]
    s.o = [MsgOut() for _ in range(3)]
    for k in range(3):
      s.o[k].msg //= s.i[2 - k].msg
      s.o[k].val //= s.i[k].val


class FooIfc(Interface):
  def construct(s):
    s.foo = [InPort(Bits4) for _ in range(3)]
    s.bar = OutPort(Bits4)


class FooChild(Component):
  def construct(s):
    s.ifc = [FooIfc() for _ in range(2)]

    @update
    def up_foo():
      for k in range(2):
        s.ifc[k].bar @= s.ifc[k].foo[0] + (s.ifc[k].foo[1] << 1) + (s.ifc[k].foo[2] ^ 5)


class FooTop(Component):
  """sub-component whose interface array (2) contains a port array (3): unequal sizes"""
  def construct(s):
    s.in_ = [InPort(Bits4) for _ in range(6)]
    s.out = [OutPort(Bits4) for _ in range(2)]
    s.b = FooChild()
    for a in range(2):
      for c in range(3):
        s.b.ifc[a].foo[c] //= s.in_[3 * a + c]
      s.out[a] //= s.b.ifc[a].bar


class Inc(Component):
  def construct(s, amount=1):
    s.in_ = InPort(Bits4)
    s.out = OutPort(Bits4)

    @update
    def up_inc():
      s.out @= s.in_ + amount


class CompArray(Component):
  """2 x 2 array of sub-components with different parameters, chained"""
  def construct(s):
    s.in_ = [InPort(Bits4) for _ in range(2)]
    s.out = [OutPort(Bits4) for _ in range(2)]
    s.c = [[Inc(1 + 2 * a + b) for b in range(2)] for a in range(2)]
    for a in range(2):
      s.c[a][0].in_ //= s.in_[a]
      s.c[a][1].in_ //= s.c[a][0].out
      s.out[a] //= s.c[a][1].out


class DownLoop(Component):
  """descending / strided loops with the loop variable as shift amount, index and operand"""
  def construct(s):
    s.in_ = InPort(Bits8)
    s.out = [OutPort(Bits8) for _ in range(8)]
    s.o2 = OutPort(Bits8)

    @update
    def up_down():
      s.out[0] @= s.in_
      for i in range(7, 0, -1):
        s.out[i] @= s.in_ << i

    @update
    def up_stride():
      s.o2 @= 0
      for j in range(6, 1, -2):
        s.o2[j] @= s.in_[j - 1]


class InnerI(Interface):
  def construct(s):
    s.msg = InPort(Bits4)


class OuterI(Interface):
  def construct(s):
    s.inner = [InnerI() for _ in range(3)]
    s.tag = InPort(Bits2)


class NestedIfc(Component):
  """an array of interfaces each holding an array of interfaces, read inside an update block (loop-variable and constant indices)"""
  def construct(s):
    s.x = [OuterI() for _ in range(2)]
    s.o = [OutPort(Bits4) for _ in range(2)]
    s.p = OutPort(Bits4)

    @update
    def up_nifc():
      for i in range(2):
        s.o[i] @= s.x[i].inner[2].msg + zext(s.x[i].tag, 4)
      s.p @= s.x[1].inner[0].msg


class NestedIfcExprIndex(Component):
  """nested interface arrays indexed by an EXPRESSION at the outer level and a constant at the inner level; a component array with an
  interface array indexed the same way"""
  def construct(s):
    s.sel = InPort(Bits1)
    s.x = [OuterI() for _ in range(2)]
    s.o = OutPort(Bits4)
    s.p = OutPort(Bits4)
    s.q = OutPort(Bits2)

    @update
    def up_nie():
      s.o @= s.x[s.sel ^ 1].inner[2].msg
      s.p @= s.x[s.sel].inner[1].msg
      s.q @= s.x[s.sel ^ 1].tag


class NestedIfcConn(Component):
  """the same interfaces moved by connections only"""
  def construct(s):
    s.x = [OuterI() for _ in range(2)]
    s.o = [OutPort(Bits4) for _ in range(2)]
    s.o[0] //= s.x[0].inner[2].msg
    s.o[1] //= s.x[1].inner[1].msg


class _PassChild(Component):
  def construct(s):
    s.in_ = InPort(Bits8)
    s.out = OutPort(Bits8)
    s.out //= s.in_


class PassThroughHier(Component):
  """connections only, in the top and in its child (no update block anywhere)"""
  def construct(s):
    s.in_ = InPort(Bits8)
    s.out = OutPort(Bits8)
    s.c = _PassChild()
    s.c.in_ //= s.in_
    s.out //= s.c.out


class TIn(Interface):
  def construct(s, T):
    s.msg = InPort(T)


class TOut(Interface):
  def construct(s, T):
    s.msg = OutPort(T)


class HeteroIfcArray(Component):
  """a list of views of ONE interface class with different member widths (must be refused or translated element-wise)"""
  def construct(s):
    s.x = [TIn(Bits8), TIn(Bits16)]
    s.o0 = OutPort(Bits8)
    s.o1 = OutPort(Bits16)
    s.o0 //= s.x[0].msg
    s.o1 //= s.x[1].msg


class TQ(Component):
  def construct(s, T):
    s.enq = TIn(T)
    s.deq = TOut(T)
    s.deq.msg //= s.enq.msg


class HeteroCompIfcArray(Component):
  """a list of components of one class whose interface members differ in width"""
  def construct(s):
    s.i0 = InPort(Bits8)
    s.i1 = InPort(Bits16)
    s.o0 = OutPort(Bits8)
    s.o1 = OutPort(Bits16)
    s.q = [TQ(Bits8), TQ(Bits16)]
    s.q[0].enq.msg //= s.i0
    s.q[1].enq.msg //= s.i1
    s.o0 //= s.q[0].deq.msg
    s.o1 //= s.q[1].deq.msg


DESIGNS = {"IfcGrid": IfcGrid, "IfcGridLoop": IfcGridLoop, "IfcRow": IfcRow, "FooTop": FooTop, "CompArray": CompArray, "DownLoop": DownLoop,
           "NestedIfc": NestedIfc, "NestedIfcConn": NestedIfcConn,
           "NestedIfcExprIndex": NestedIfcExprIndex, "PassThroughHier": PassThroughHier, "HeteroIfcArray": HeteroIfcArray, "HeteroCompIfcArray": HeteroCompIfcArray}
