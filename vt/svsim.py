"""E3 -- two-state simulator for the parsed SystemVerilog subset (vt/svparse.py).

Semantics follow IEEE 1800-2017 clause 11: self-determined expression sizes
(table 11-21), context-determined operands evaluated at the context width,
everything unsigned (the backends emit only unsigned constructs; loop variables
take non-negative values), non-blocking assignments committed after all
always_ff blocks, combinational logic (assign, always_comb, port bindings)
iterated to a fixed point. A per-module driver map at bit granularity supports
the "exactly one driver" clause.
"""
from vt.svparse import Unsupported, SvSyntaxError, parse, const_eval


class SimError(Exception):
  pass


def mask(w): return (1 << w) - 1


class Design:
  def __init__(self, text):
    self.ast = parse(text)
    self.typedefs = self.ast["typedefs"]
    self.mods = {}
    for m in self.ast["modules"]:
      if m["name"] in self.mods: raise SvSyntaxError(f"module {m['name']} defined twice")
      self.mods[m["name"]] = m

  def twidth(self, t):
    if t[0] == "vec": return t[1]
    if t[0] == "parr": return t[2] * self.twidth(t[1])
    if t[0] == "struct": return sum(self.twidth(ft) for _, ft in self.typedefs[t[1]])
    raise KeyError(t)

  def field(self, t, name):
    """(lo, type) of field `name` in struct type t (first field most significant)."""
    fields = self.typedefs[t[1]]
    hi = self.twidth(t)
    for fn, ft in fields:
      w = self.twidth(ft)
      if fn == name: return hi - w, ft
      hi -= w
    raise SimError(f"struct {t[1]} has no field {name}")


def is_signed(e, signed_ids=()):
  """signedness of an expression from its operands (IEEE 1800-2017 11.8.1); logic variables are unsigned, `integer` variables
  (signed_ids: the module-level loop variables of the Yosys backend) are signed"""
  k = e[0]
  if k == "signed": return True
  if k == "id": return e[1] in signed_ids
  if k == "cast": return is_signed(e[2], signed_ids)
  if k == "num": return e[1] is None                       # an unsized decimal literal is signed
  if k == "un" and e[1] in ("~", "-", "+"): return is_signed(e[2], signed_ids)
  if k == "tern": return is_signed(e[2], signed_ids) and is_signed(e[3], signed_ids)
  if k == "bin" and e[1] in ("+", "-", "*", "/", "%", "&", "|", "^"): return is_signed(e[2], signed_ids) and is_signed(e[3], signed_ids)
  return False


def _to_signed(x, n):
  return x - (1 << n) if n and x >> (n - 1) else x


class Inst:
  """One module instance: variable store + children."""
  def __init__(self, design, modname, path="top"):
    self.d = design
    if modname not in design.mods: raise SvSyntaxError(f"instantiated module {modname} is not defined")
    self.m = m = design.mods[modname]
    self.path = path
    self.vars = {}       # name -> (type, dims, is_integer)
    self.val = {}        # name -> list of ints (flattened unpacked dims)
    self.dirty = False
    for d_, t, n, dims in m["ports"]: self._decl(n, t, dims, False)
    for t, n, dims, isint in m["decls"]: self._decl(n, t, dims, isint)
    self.signed_ids = {n for t, n, dims, isint in m["decls"] if isint}
    self.params = {}
    for t, n, dims, e in m["params"]:
      self._decl(n, t, dims, False)
      if e[0] == "pat":
        vals = [self.ev(x, self.d.twidth(t)) for x in e[1]]
        self.val[n] = vals
      else:
        self.val[n] = [self.ev(e, self.d.twidth(t))]
    self.children = {}
    # IEEE 1800-2017 3.13 (e): named blocks, instance names, parameters, nets and variables share the name space of the module
    space = set(self.vars)
    for kind, names in (("instance", [iname for mod, iname, conns in m["insts"]]),
                        ("named block", [l for l, st in m["combs"] if l] + [l for l, clk, st in m["ffs"] if l])):
      for n in names:
        if n in space: raise SvSyntaxError(f"{m['name']}: {kind} {n} has the name of another declaration in the module")
        space.add(n)
    for mod, iname, conns in m["insts"]:
      self.children[iname] = (Inst(design, mod, path + "." + iname), conns)
    self.nba = []

  def _decl(self, n, t, dims, isint):
    if n in self.vars: raise SvSyntaxError(f"{self.m['name']}: identifier {n} declared twice")
    self.vars[n] = (t, list(dims), isint)
    cnt = 1
    for d in dims: cnt *= d
    self.val[n] = [0] * cnt

  # ---------------------------------------------------------------- l-values / selects
  def resolve(self, e, env):
    """-> (name, flat index | None for a whole unpacked array, lo, width, type) for a select chain."""
    k = e[0]
    if k == "id":
      n = e[1]
      if n in env: return ("$loc", n, 0, 32, ("vec", 32))
      if n not in self.vars: raise SvSyntaxError(f"{self.m['name']}: undeclared identifier {n}")
      t, dims, _ = self.vars[n]
      return (n, [] if dims else None, 0, self.d.twidth(t), t) if dims else (n, 0, 0, self.d.twidth(t), t)
    if k == "idx":
      base = self.resolve(e[1], env)
      n, fi, lo, w, t = base
      i = self.ev(e[2], None, env)
      if n != "$loc" and isinstance(fi, list):            # still consuming unpacked dimensions
        dims = self.vars[n][1]
        if not 0 <= i < dims[len(fi)]: return (n, "oob", 0, self.d.twidth(t), t)
        fi = fi + [i]
        if len(fi) == len(dims):
          flat = 0
          for d, x in zip(dims, fi): flat = flat * d + x
          return (n, flat, 0, self.d.twidth(t), t)
        return (n, fi, 0, self.d.twidth(t), t)
      if t[0] == "parr":
        ew = self.d.twidth(t[1])
        if not 0 <= i < t[2]: return (n, "oob", 0, ew, t[1])
        return (n, fi, lo + i * ew, ew, t[1])
      if t[0] == "vec":
        if not 0 <= i < w: return (n, "oob", 0, 1, ("vec", 1))
        return (n, fi, lo + i, 1, ("vec", 1))
      raise SimError(f"cannot index type {t}")
    if k == "rng":
      n, fi, lo, w, t = self.resolve(e[1], env)
      msb, lsb = self.ev(e[2], None, env), self.ev(e[3], None, env)
      if t[0] != "vec": raise Unsupported("part select on non-vector")
      if not (0 <= lsb <= msb < w): return (n, "oob", 0, msb - lsb + 1 if msb >= lsb else 1, ("vec", max(1, msb - lsb + 1)))
      return (n, fi, lo + lsb, msb - lsb + 1, ("vec", msb - lsb + 1))
    if k == "ipx":
      n, fi, lo, w, t = self.resolve(e[1], env)
      st = self.ev(e[2], None, env)
      wd = const_eval(e[3])
      if wd is None: raise Unsupported("non-constant +: width")
      if not (0 <= st and st + wd <= w): return (n, "oob", 0, wd, ("vec", wd))
      return (n, fi, lo + st, wd, ("vec", wd))
    if k == "mem":
      n, fi, lo, w, t = self.resolve(e[1], env)
      if t[0] != "struct": raise SvSyntaxError(f"member access .{e[2]} on a non-struct value in module {self.m['name']}")
      flo, ft = self.d.field(t, e[2])
      return (n, fi, lo + flo, self.d.twidth(ft), ft)
    raise SimError(f"not a select: {e}")

  def read(self, e, env):
    n, fi, lo, w, t = self.resolve(e, env)
    if n == "$loc": return (env[fi] >> lo) & mask(w), w
    if fi == "oob": return 0, w                       # out-of-range read yields 0 in two-state
    if fi is None or isinstance(fi, list):
      # IEEE 1800 7.4/7.6: an unpacked array (or a slice of unpacked dimensions) is not an integral value; using it as an operand /
      # assigning it to a vector is a type error that every tool rejects
      raise SvSyntaxError(f"ill-typed: unpacked array {n} used as an integral value in module {self.m['name']}")
    return (self.val[n][fi] >> lo) & mask(w), w

  def write(self, e, v, env, nba=False):
    n, fi, lo, w, t = self.resolve(e, env)
    v &= mask(w)
    if n == "$loc":
      env[fi] = (env[fi] & ~(mask(w) << lo)) | (v << lo); return
    if fi == "oob": return                              # out-of-range write is ignored
    if fi is None or isinstance(fi, list): raise Unsupported("assignment to a whole unpacked array")
    if nba:
      self.nba.append((n, fi, lo, w, v)); return
    old = self.val[n][fi]
    new = (old & ~(mask(w) << lo)) | (v << lo)
    if new != old:
      self.val[n][fi] = new
      self.dirty = True

  # ---------------------------------------------------------------- expressions
  def size(self, e, env):
    k = e[0]
    if k == "num": return e[1] if e[1] is not None else 32
    if k in ("id", "idx", "rng", "ipx", "mem"):
      if k == "id" and e[1] in env: return 32
      return self._selsize(e, env)
    if k == "cat": return sum(self.size(x, env) for x in e[1])
    if k == "rep": return e[1] * self.size(e[2], env)
    if k == "cast": return e[1]
    if k in ("signed", "unsigned"): return self.size(e[1], env)
    if k == "un": return 1 if e[1] in ("&", "|", "^", "!") else self.size(e[2], env)
    if k == "tern": return max(self.size(e[2], env), self.size(e[3], env))
    if k == "bin":
      op = e[1]
      if op in ("==", "!=", "<", "<=", ">", ">=", "&&", "||"): return 1
      if op in ("<<", ">>", "**"): return self.size(e[2], env)
      return max(self.size(e[2], env), self.size(e[3], env))
    raise Unsupported(f"expression {k}")

  def _selsize(self, e, env):
    k = e[0]
    if k == "id":
      t, dims, _ = self.vars[e[1]] if e[1] in self.vars else (None, None, None)
      if t is None: raise SimError(f"{self.m['name']}: undeclared identifier {e[1]}")
      return self.d.twidth(t)
    if k == "rng":
      a, b = const_eval(e[2]), const_eval(e[3])
      if a is None or b is None:
        a, b = self.ev(e[2], None, env), self.ev(e[3], None, env)
      return abs(a - b) + 1
    if k == "ipx": return const_eval(e[3])
    # idx / mem need the type walk
    return self._seltype_width(e, env)

  def _seltype_width(self, e, env):
    t, left = self._seltype(e, env)
    return self.d.twidth(t)

  def _seltype(self, e, env):
    """static type of a select chain, and number of unpacked dims still unconsumed"""
    k = e[0]
    if k == "id":
      if e[1] in env: return ("vec", 32), 0
      if e[1] not in self.vars: raise SvSyntaxError(f"{self.m['name']}: undeclared identifier {e[1]}")
      t, dims, _ = self.vars[e[1]]
      return t, len(dims)
    if k == "idx":
      t, left = self._seltype(e[1], env)
      if left: return t, left - 1
      if t[0] == "parr": return t[1], 0
      if t[0] == "vec": return ("vec", 1), 0
      raise SimError(f"cannot index {t}")
    if k == "mem":
      t, left = self._seltype(e[1], env)
      if t[0] != "struct": raise SvSyntaxError(f"member access .{e[2]} on a non-struct value in module {self.m['name']}")
      return self.d.field(t, e[2])[1], 0
    if k == "rng": return ("vec", self._selsize(e, env)), 0
    if k == "ipx": return ("vec", const_eval(e[3])), 0
    raise SimError(str(e))

  def ev(self, e, w=None, env=None):
    """Evaluate e in a context of width w (None: self-determined)."""
    env = env if env is not None else {}
    L = self.size(e, env)
    W = L if w is None or w < L else w
    k = e[0]
    if k == "num": return e[2] & mask(W)
    if k in ("id", "idx", "rng", "ipx", "mem"):
      return self.read(e, env)[0]
    if k == "cat":
      v = 0
      for x in e[1]:
        sx = self.size(x, env)
        v = (v << sx) | self.ev(x, None, env)
      return v
    if k == "rep":
      sx = self.size(e[2], env); x = self.ev(e[2], None, env); v = 0
      for _ in range(e[1]): v = (v << sx) | x
      return v
    if k == "cast":
      if e[2][0] == "signed":          # N'($signed(x)): the operand is self-determined and signed -> sign extension
        sx = self.size(e[2][1], env); x = self.ev(e[2][1], None, env)
        if x >> (sx - 1): x -= 1 << sx
        return x & mask(e[1])
      return self.ev(e[2], None, env) & mask(e[1])
    if k == "signed":
      raise Unsupported("$signed outside a size cast")
    if k == "unsigned":                # $unsigned(x): same bits, self-determined operand, unsigned result
      return self.ev(e[1], None, env)
    if k == "un":
      op = e[1]
      if op == "~": return (~self.ev(e[2], W, env)) & mask(W)
      if op == "-": return (-self.ev(e[2], W, env)) & mask(W)
      if op == "+": return self.ev(e[2], W, env)
      x = self.ev(e[2], None, env); sx = self.size(e[2], env)
      if op == "&": return int(x == mask(sx))
      if op == "|": return int(x != 0)
      if op == "^": return bin(x).count("1") & 1
      if op == "!": return int(x == 0)
    if k == "tern":
      c = self.ev(e[1], None, env)
      return self.ev(e[2] if c else e[3], W, env)
    if k == "bin":
      op = e[1]
      if op in ("==", "!=", "<", "<=", ">", ">="):
        cw = max(self.size(e[2], env), self.size(e[3], env))
        a, b = self.ev(e[2], cw, env), self.ev(e[3], cw, env)
        sids = self.signed_ids - set(env)
        if is_signed(e[2], sids) and is_signed(e[3], sids):
          # IEEE 1800-2017 11.8.1: the comparison is signed when both operands are signed; a size cast passes the signedness
          # of its operand through (6.24.1), so N'($signed(x)) is a signed operand
          a = _to_signed(self.ev(e[2], None, env), self.size(e[2], env))
          b = _to_signed(self.ev(e[3], None, env), self.size(e[3], env))
        return int({"==": a == b, "!=": a != b, "<": a < b, "<=": a <= b, ">": a > b, ">=": a >= b}[op])
      if op in ("&&", "||"):
        a, b = self.ev(e[2], None, env) != 0, self.ev(e[3], None, env) != 0
        return int(a and b) if op == "&&" else int(a or b)
      if op in ("<<", ">>"):
        a = self.ev(e[2], W, env); b = self.ev(e[3], None, env)
        if op == "<<": return (a << b) & mask(W) if b < 4096 else 0
        return a >> b if b < 4096 else 0
      if op == "**":
        a = self.ev(e[2], W, env); b = self.ev(e[3], None, env)
        return pow(a, b, 1 << W)
      a, b = self.ev(e[2], W, env), self.ev(e[3], W, env)
      if op == "+": return (a + b) & mask(W)
      if op == "-": return (a - b) & mask(W)
      if op == "*": return (a * b) & mask(W)
      if op == "&": return a & b
      if op == "|": return a | b
      if op == "^": return a ^ b
      if op == "/": return (a // b) & mask(W) if b else 0
      if op == "%": return (a % b) & mask(W) if b else 0
      raise Unsupported(f"operator {op}")
    raise Unsupported(f"expression {k}")

  # ---------------------------------------------------------------- statements
  def lsize(self, lv, env):
    return self.resolve(lv, env)[3]

  def assign(self, lv, e, env, nba=False):
    if e[0] == "pat": raise Unsupported("assignment pattern in procedural code")
    lw = self.lsize(lv, env)
    v = self.ev(e, lw, env)
    self.write(lv, v, env, nba)

  def run(self, st, env, budget):
    k = st[0]
    if k == "blk":
      for s in st[1]: self.run(s, env, budget)
    elif k == "if":
      if self.ev(st[1], None, env): self.run(st[2], env, budget)
      elif st[3] is not None: self.run(st[3], env, budget)
    elif k == "for":
      _, var, init, cond, step, body, kind = st
      local = kind != "integer"
      if local:
        env = dict(env); env[var] = self.ev(init, 32, env) & mask(32)
      else:
        self.write(("id", var), self.ev(init, 32, env), env)
      n = 0
      while self.ev(cond, None, env):
        self.run(body, env, budget)
        nv = self.ev(step, 32, env) & mask(32)
        if local: env[var] = nv
        else: self.write(("id", var), nv, env)
        n += 1
        if n > 4096: raise SimError("for-loop does not terminate")
    elif k in ("ba", "nba"):
      self.assign(st[1], st[2], env, nba=(k == "nba"))
    else:
      raise Unsupported(f"statement {k}")

  # ---------------------------------------------------------------- simulation
  def comb_pass(self):
    m = self.m
    for lv, e in m["assigns"]:
      self.assign(lv, e, {})
    for label, st in m["combs"]:
      self.run(st, {}, None)
    for iname, (child, conns) in self.children.items():
      cm = child.m
      pdir = {n: (d, t, dims) for d, t, n, dims in cm["ports"]}
      for p, e in conns:
        if p not in pdir: raise SvSyntaxError(f"{cm['name']} has no port {p}")
        d, t, dims = pdir[p]
        if e is None: continue
        if d == "input": self._bind(child, p, dims, e, into_child=True)
      child.settle_local()
      for p, e in conns:
        d, t, dims = pdir[p]
        if e is None: continue
        if d == "output": self._bind(child, p, dims, e, into_child=False)
      if child.dirty: self.dirty = True; child.dirty = False

  def _bind(self, child, p, dims, e, into_child):
    if dims:
      n, fi, lo, w, t = self.resolve(e, {})
      pdims = self.vars.get(n, (None, [], None))[1] if n != "$loc" else []
      pre = fi if isinstance(fi, list) else None
      if pre is None or list(pdims[len(pre):]) != list(dims):
        raise Unsupported(f"array port {p} bound to {e}")
      base, cnt = 0, 1
      for d, x in zip(pdims, pre): base = base * d + x
      for d in dims: cnt *= d
      base *= cnt
      pv, cv = self.val[n], child.val[p]
      for i in range(cnt):
        if into_child:
          if cv[i] != pv[base + i]: cv[i] = pv[base + i]; child.dirty = True
        else:
          if pv[base + i] != cv[i]: pv[base + i] = cv[i]; self.dirty = True
      return
    if into_child:
      w = child.d.twidth(child.vars[p][0])
      v = self.ev(e, w) & mask(w)
      if child.val[p][0] != v: child.val[p][0] = v; child.dirty = True
    else:
      w = child.d.twidth(child.vars[p][0])
      self.write(e, child.val[p][0] & mask(self.lsize(e, {})), {})

  def settle_local(self, cap=200):
    for it in range(cap):
      self.dirty = False
      before = self.snapshot()
      self.comb_pass()
      if self.snapshot() == before:
        self.dirty = before != getattr(self, "_last", None)
        self._last = before
        return
    raise SimError(f"{self.path}: combinational logic does not converge")

  def snapshot(self):
    return (tuple((n, tuple(v)) for n, v in sorted(self.val.items())),
            tuple(ch.snapshot() for ch, _ in self.children.values()))

  def settle(self):
    self.settle_local()

  def collect_ff(self):
    for label, clk, st in self.m["ffs"]:
      self.run(st, {}, None)
    for child, _ in self.children.values(): child.collect_ff()

  def commit_ff(self):
    for n, fi, lo, w, v in self.nba:
      self.val[n][fi] = (self.val[n][fi] & ~(mask(w) << lo)) | (v << lo)
    self.nba = []
    for child, _ in self.children.values(): child.commit_ff()

  def tick(self):
    self.settle()
    self.collect_ff()
    self.commit_ff()
    self.settle()

  # ---------------------------------------------------------------- port access for the harness
  def set_port(self, name, value, idx=0):
    if name not in self.vars: raise SimError(f"no port {name}")
    self.val[name][idx] = value & mask(self.d.twidth(self.vars[name][0]))

  def get_port(self, name, idx=0):
    return self.val[name][idx]


# -------------------------------------------------------------------- driver map

def drivers(design, modname):
  """-> (multi: [(var, elem, bit, [drivers])], undriven_read: [(var, elem, bit)]) for one module definition."""
  inst = Inst(design, modname)
  m = inst.m
  drv = {}
  def add(var, elems, lo, w, who):
    for el in elems:
      for b in range(lo, lo + w): drv.setdefault((var, el, b), set()).add(who)
  def targets(lv):
    """static over-approximation of the bits an l-value may write: (var, [elems], lo, w)"""
    chain = []
    e = lv
    while e[0] != "id":
      chain.append(e); e = e[1]
    name = e[1]
    if name not in inst.vars: return None
    t, dims, isint = inst.vars[name]
    n = 1
    for d in dims: n *= d
    elems = list(range(n)) if dims else [0]
    lo, w, cur = 0, design.twidth(t), t
    consumed = []
    for sel in reversed(chain):
      k = sel[0]
      if k == "idx" and len(consumed) < len(dims):
        c = const_eval(sel[2])
        consumed.append(c)
        if len(consumed) == len(dims):
          if all(x is not None for x in consumed):
            flat = 0
            for d, x in zip(dims, consumed): flat = flat * d + x
            elems = [flat] if 0 <= flat < n else []
        continue
      if k == "idx":
        c = const_eval(sel[2])
        if cur[0] == "parr":
          ew = design.twidth(cur[1])
          if c is None: w = cur[2] * ew
          else: lo, w = lo + c * ew, ew
          cur = cur[1] if c is not None else cur
          if c is None: break
        else:
          if c is None: break
          lo, w, cur = lo + c, 1, ("vec", 1)
      elif k == "rng":
        a, b = const_eval(sel[2]), const_eval(sel[3])
        if a is None or b is None: break
        lo, w, cur = lo + b, a - b + 1, ("vec", a - b + 1)
      elif k == "ipx":
        a, wd = const_eval(sel[2]), const_eval(sel[3])
        if a is None: break
        lo, w, cur = lo + a, wd, ("vec", wd)
      elif k == "mem":
        flo, ft = design.field(cur, sel[2])
        lo, w, cur = lo + flo, design.twidth(ft), ft
    if 0 < len(consumed) < len(dims) and all(x is not None for x in consumed):
      # a sub-array of an unpacked array (e.g. the port array of one element of a component array)
      pre, rest = 0, 1
      for d, x in zip(dims, consumed): pre = pre * d + x
      for d in dims[len(consumed):]: rest *= d
      elems = list(range(pre * rest, (pre + 1) * rest)) if all(0 <= x < d for d, x in zip(dims, consumed)) else []
    return name, elems, lo, w
  def stmt_targets(st, out):
    k = st[0]
    if k == "blk":
      for s in st[1]: stmt_targets(s, out)
    elif k == "if":
      stmt_targets(st[2], out)
      if st[3] is not None: stmt_targets(st[3], out)
    elif k == "for": stmt_targets(st[5], out)
    elif k in ("ba", "nba"): out.append(st[1])
  for d_, t, n, dims in m["ports"]:
    if d_ == "input":
      cnt = 1
      for d in dims: cnt *= d
      add(n, range(cnt), 0, design.twidth(t), "input port")
  for i, (lv, e) in enumerate(m["assigns"]):
    tg = targets(lv)
    if tg: add(*tg, f"assign#{i}")
  for label, st in m["combs"]:
    out = []; stmt_targets(st, out)
    for lv in out:
      tg = targets(lv)
      if tg and not inst.vars[tg[0]][2]: add(*tg, f"always_comb {label}")
  for label, clk, st in m["ffs"]:
    out = []; stmt_targets(st, out)
    for lv in out:
      tg = targets(lv)
      if tg and not inst.vars[tg[0]][2]: add(*tg, f"always_ff {label}")
  for mod, iname, conns in m["insts"]:
    cm = design.mods.get(mod)
    if cm is None: continue
    pdir = {n: d for d, t, n, dims in cm["ports"]}
    for p, e in conns:
      if e is not None and pdir.get(p) == "output":
        if e[0] == "id" and inst.vars.get(e[1], (None, [], None))[1]:
          t, dims, _ = inst.vars[e[1]]
          cnt = 1
          for d in dims: cnt *= d
          add(e[1], range(cnt), 0, design.twidth(t), f"instance {iname}.{p}")
        else:
          tg = targets(e)
          if tg: add(*tg, f"instance {iname}.{p}")
  multi = [(k, sorted(v)) for k, v in drv.items() if len(v) > 1]
  return multi, drv
