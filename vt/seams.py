"""Harness-side seams over pymtl3's sources of nondeterminism (DESIGN.md section 4).

Nothing in /repo is modified: module globals / attributes are patched at run
time and restored afterwards.
"""
import contextlib
import random


@contextlib.contextmanager
def shuffle_seam(chooser):
  """SimpleSchedulePass does `random.shuffle(Q); u = Q.pop()` in its Kahn loop.
  Replace random.shuffle by a function that moves the ready block selected by
  chooser(len(Q)) -> index to the end of Q. chooser=None leaves pymtl3 alone
  but seeds nothing (the caller then must not depend on the order).
  Q is first put into a canonical order (by block name) so that the choice
  index means the same block in every process."""
  if chooser is None:
    yield
    return
  orig = random.shuffle

  def fake(q):
    if len(q) > 1:
      q.sort(key=_blkname)
      i = chooser(len(q))
      q.append(q.pop(i))

  random.shuffle = fake
  try:
    yield
  finally:
    random.shuffle = orig


def _blkname(b):
  """name of the block plus the name of the component it belongs to (two children of one class have same-named blocks)"""
  name = getattr(b, "__name__", repr(b))
  host = ""
  try:
    code = b.__code__
    if "s" in code.co_freevars:
      host = repr(b.__closure__[code.co_freevars.index("s")].cell_contents)
  except Exception:
    host = ""
  return (name, host)


@contextlib.contextmanager
def hash_seam(rank_of=None):
  """Give NamedObject / Const instances small deterministic hashes so that the
  iteration order of the sets pymtl3 keeps them in is a function of the ranks
  the harness chooses. rank_of(obj, creation_index) -> int (default: identity)."""
  from pymtl3.dsl.NamedObject import NamedObject
  from pymtl3.dsl.Connectable import Const
  counter = [0]
  table = {}

  def h(self):
    r = table.get(id(self))
    if r is None:
      i = counter[0]
      counter[0] += 1
      r = table[id(self)] = (rank_of(self, i) if rank_of else i)
      _keep.append(self)
    return r

  _keep = []
  had_n = "__hash__" in NamedObject.__dict__
  had_c = "__hash__" in Const.__dict__
  old_n = NamedObject.__dict__.get("__hash__")
  old_c = Const.__dict__.get("__hash__")
  NamedObject.__hash__ = h
  Const.__hash__ = h
  try:
    yield table
  finally:
    if had_n: NamedObject.__hash__ = old_n
    else: del NamedObject.__hash__
    if had_c: Const.__hash__ = old_c
    else: del Const.__hash__
