"""Machinery self tests, run by MANIFEST.setup_cmd (./check --selftest).

Each engine / oracle registers hand-computed cases here; a failing self test
means the machinery is broken (exit 2), never that pymtl3 is.
"""
import importlib
import os
import sys
import traceback

TESTS = []


def selftest(fn):
  TESTS.append(fn)
  return fn


@selftest
def t_c04_spec():
  from vt.checks.c04 import spec, proto_ref
  assert spec("+", 4, 15, 1) == 0 and spec("-", 4, 0, 1) == 15 and spec("*", 3, 7, 7) == 1
  assert spec("<<", 4, 3, 4) == 0 and spec("<<", 4, 3, 3) == 8 and spec(">>", 4, 8, 3) == 1
  assert spec("//", 4, 7, 0) is None and spec("<", 4, 3, 4) == 1
  assert proto_ref(2, (1, None), ("<<=", 3)) == ((1, 3), True)
  assert proto_ref(2, (1, 3), ("flip",)) == ((3, 3), True)
  assert proto_ref(2, (1, 3), ("@=", 4))[1] is False and proto_ref(2, (1, 3), ("@=", -2)) == ((2, 3), True)


def main():
  # importing every registered module lets it add its own self tests
  root = os.path.dirname(os.path.abspath(__file__))
  for f in sorted(os.listdir(root)):
    if f.endswith(".py") and f not in ("run.py", "selftest.py", "__init__.py"):
      importlib.import_module("vt." + f[:-3])
  for f in sorted(os.listdir(os.path.join(root, "checks"))):
    if f.endswith(".py") and f != "__init__.py":
      importlib.import_module("vt.checks." + f[:-3])
  os.makedirs(os.path.join(os.path.dirname(root), ".work"), exist_ok=True)
  bad = 0
  for t in TESTS:
    try:
      t()
    except Exception:
      bad += 1
      print(f"SELFTEST FAIL {t.__module__}.{t.__name__}\n{traceback.format_exc()}")
  print(f"selftest: {len(TESTS) - bad}/{len(TESTS)} passed")
  return 2 if bad else 0
