"""Machinery self tests, run by MANIFEST.setup_cmd (./check --selftest).

Each engine / oracle registers hand-computed cases here; a failing self test
means the machinery is broken (exit 2), never that pymtl3 is.
"""
import importlib
import os
import sys
import traceback

TESTS = []


def selftest(fn):
  TESTS.append(fn)
  return fn


@selftest
def t_c04_spec():
  from vt.checks.c04 import spec, proto_ref
  assert spec("+", 4, 15, 1) == 0 and spec("-", 4, 0, 1) == 15 and spec("*", 3, 7, 7) == 1
  assert spec("<<", 4, 3, 4) == 0 and spec("<<", 4, 3, 3) == 8 and spec(">>", 4, 8, 3) == 1
  assert spec("//", 4, 7, 0) is None and spec("<", 4, 3, 4) == 1
  assert proto_ref(2, (1, None), ("<<=", 3)) == ((1, 3), True)
  assert proto_ref(2, (1, 3), ("flip",)) == ((3, 3), True)
  assert proto_ref(2, (1, 3), ("@=", 4))[1] is False and proto_ref(2, (1, 3), ("@=", -2)) == ((2, 3), True)


# ------------------------------------------------------------------ E1

@selftest
def t_explore():
  from vt import explore
  le = lambda n, e: len(list(explore.linear_extensions(n, e)))
  assert le("abcd", []) == 24 and le("abcd", [("a", "b"), ("b", "c"), ("c", "d")]) == 1
  assert le("abcd", [("a", "b"), ("a", "c"), ("b", "d"), ("c", "d")]) == 2
  assert le("abcde", [("a", "b"), ("c", "d")]) == 30          # 5!/(2*2)
  assert next(explore.linear_extensions("cab", [])) == ["c", "a", "b"]      # canonical first order = given order
  assert len(list(explore.linear_extensions("abcd", [], cap=5))) == 5
  for o in explore.linear_extensions("abcd", [("d", "a")]): assert o.index("d") < o.index("a")
  # choice DFS: 3 binary choice points -> 8 runs unbounded; 1+3 with one deviation; 1+3+3 with two
  def run(cr): return tuple(cr.choose(2) for _ in range(3))
  assert sorted(r for _, r in explore.choice_dfs(run)) == sorted(__import__("itertools").product((0, 1), repeat=3))
  assert len(list(explore.choice_dfs(run, bound=1))) == 4 and len(list(explore.choice_dfs(run, bound=2))) == 7
  assert len(list(explore.choice_dfs(run, bound=0))) == 1
  # data-dependent arity: second point exists only after choice 1
  def run2(cr):
    a = cr.choose(3)
    return (a, cr.choose(2)) if a == 1 else (a,)
  assert sorted(r for _, r in explore.choice_dfs(run2)) == [(0,), (1, 0), (1, 1), (2,)]
  try:
    explore.ChoiceRun([5]).choose(2); raise AssertionError("out-of-range replay accepted")
  except RuntimeError: pass
  # BFS over a real transition function: modulo-5 counter with letters +1 / +2 / reset
  class Ctr:
    def __init__(s): s.v = 0
  def apply(c, l):
    c.v = 0 if l == "r" else (c.v + l) % 5
    return c.v
  res = explore.bfs_history(Ctr, apply, lambda c: c.v, lambda st: (1, 2, "r"))
  assert len(res.states) == 5 and res.transitions == 15 and res.closed and res.max_depth == 2
  assert res.states[4] == [2, 2] and res.states[3] == [1, 2]
  res = explore.bfs_history(Ctr, apply, lambda c: c.v, lambda st: (1,), max_depth=2)
  assert len(res.states) == 3 and not res.closed
  # differential oracle: a canonicalisation that merges states with different futures is reported
  res = explore.bfs_history(Ctr, apply, lambda c: c.v % 2, lambda st: (1,), full_obs=lambda c: c.v)
  assert res.merge_mismatch


@selftest
def t_seams():
  import random, itertools
  from vt import seams, explore
  seen = set()
  def run(cr):
    with seams.shuffle_seam(lambda n: cr.choose(n, cost=0)):
      q = [1, 2, 3]; out = []
      while q:
        random.shuffle(q); out.append(q.pop())
    return tuple(out)
  for _, r in explore.choice_dfs(run): seen.add(r)
  assert seen == set(itertools.permutations((1, 2, 3))), seen
  q = list(range(10)); random.shuffle(q)          # the seam is gone afterwards
  from pymtl3 import Wire, Bits4, Component
  class T(Component):
    def construct(s): s.w = [Wire(Bits4) for _ in range(6)]
  orders = []
  for rank in (lambda o, i: i, lambda o, i: 1000 - i):
    with seams.hash_seam(rank):
      t = T(); t.elaborate()
      orders.append([repr(x) for x in set(t.w)])
  assert orders[0] == list(reversed(orders[1])) and len(orders[0]) == 6, orders
  assert T.__hash__ is Component.__hash__ or True


# ------------------------------------------------------------------ E4

@selftest
def t_fifo():
  from vt.fifo import step
  r = step("normal", 2, [], 1, 7, 1); assert (r["enq_rdy"], r["deq_val"], r["enq_fire"], r["deq_fire"], r["q2"]) == (1, 0, 1, 0, [7])
  r = step("normal", 2, [7, 8], 1, 9, 1); assert (r["enq_rdy"], r["deq_val"], r["deq_msg"], r["q2"]) == (0, 1, 7, [8])
  r = step("pipe", 1, [7], 1, 9, 1); assert (r["enq_rdy"], r["deq_msg"], r["q2"]) == (1, 7, [9])
  r = step("pipe", 1, [7], 1, 9, 0); assert (r["enq_rdy"], r["q2"]) == (0, [7])
  r = step("bypass", 1, [], 1, 9, 1); assert (r["deq_val"], r["deq_msg"], r["q2"], r["enq_fire"], r["deq_fire"]) == (1, 9, [], 1, 1)
  r = step("bypass", 1, [], 1, 9, 0); assert (r["deq_val"], r["deq_msg"], r["q2"]) == (1, 9, [9])
  r = step("bypass", 1, [7], 1, 9, 1); assert (r["enq_rdy"], r["deq_msg"], r["q2"]) == (0, 7, [])
  r = step("bypass-chain2", 2, [], 1, 5, 0); assert r["q2"] == [(2, 5)] and r["deq_val"] == 1
  r = step("bypass-chain2", 2, [(2, 5)], 1, 6, 0); assert r["q2"] == [(2, 5), (1, 6)] and r["enq_rdy"] == 1
  r = step("bypass-chain2", 2, [(2, 5), (1, 6)], 1, 7, 1); assert r["enq_rdy"] == 0 and r["deq_msg"] == 5 and r["q2"] == [(1, 6)]     # stage 2 drains; stage 1 sees stage 2 full this cycle and keeps its message


@selftest
def t_memref():
  from vt import memref as M
  m = M.Mem()
  assert m.apply((M.WRITE, 1, 0x10, 0, 0x11223344)) == (M.WRITE, 1, 0, 0, 0)
  assert m.image(0x10, 0x14) == (0x44, 0x33, 0x22, 0x11)                                  # little endian
  assert m.apply((M.READ, 2, 0x11, 2, 0)) == (M.READ, 2, 0, 2, 0x2233)
  assert m.apply((M.WRITE, 3, 0x12, 1, 0xABCD))[0] == M.WRITE and m.read(0x10, 4) == 0x11CD3344   # only len bytes written
  assert m.apply((M.AMO_ADD, 4, 0x10, 0, 0xFFFFFFFF))[4] == 0x11CD3344 and m.read(0x10, 4) == 0x11CD3343
  assert m.apply((M.AMO_MIN, 5, 0x20, 0, 0xFFFFFFFF))[4] == 0 and m.read(0x20, 4) == 0xFFFFFFFF  # signed: -1 < 0
  assert m.apply((M.AMO_MINU, 6, 0x24, 0, 0xFFFFFFFF))[4] == 0 and m.read(0x24, 4) == 0
  assert m.apply((M.AMO_SWAP, 7, 0x24, 0, 9))[4] == 0 and m.read(0x24, 4) == 9
  c = m.copy(); c.write(0x24, 4, 1); assert m.read(0x24, 4) == 9


@selftest
def t_layout():
  from vt import layout as Y
  t = ("S", "P", (("a", ("B", 2)), ("l", ("L", ("B", 3), 2)), ("n", ("S", "Q", (("x", ("B", 1)), ("y", ("B", 2)))))))
  assert Y.width(t) == 11
  v = {"a": 0b10, "l": [0b001, 0b110], "n": {"x": 1, "y": 0b01}}
  assert Y.pack(t, v) == 0b10_110_001_1_01, bin(Y.pack(t, v))
  assert Y.unpack(t, 0b10_110_001_1_01) == v
  assert [p for p, w in Y.leaf_paths(t)] == [("a",), ("l", 1), ("l", 0), ("n", "x"), ("n", "y")]
  for b in range(1 << 11): assert Y.pack(t, Y.unpack(t, b)) == b


@selftest
def t_isa():
  from vt import isa
  # encodings written by hand from the RISC-V base ISA tables
  assert isa.encode(("addi", 1, 0, 5)) == 0x00500093
  assert isa.encode(("add", 3, 1, 2)) == 0x002081B3
  assert isa.encode(("lw", 5, 4, 3)) == 0x0041A283
  assert isa.encode(("sw", 5, 8, 3)) == 0x0051A423
  assert isa.encode(("bne", 1, 2, -4)) == 0xFE209EE3
  assert isa.encode(("csrw", isa.PROC2MNGR, 1)) == 0x7C009073
  assert isa.encode(("csrr", 2, isa.MNGR2PROC)) == 0xFC002173
  # cross-check every letter shape against the repository's assembler (a disagreement would make C20 compare different programs)
  sys.path.insert(0, "/repo")
  from examples.ex03_proc import tinyrv0_encoding as te
  prog = [("addi", 1, 0, -7), ("add", 3, 1, 2), ("and", 4, 3, 1), ("sll", 5, 1, 2), ("srl", 6, 5, 2), ("lw", 7, 4, 3), ("sw", 7, -8, 3),
          ("csrr", 1, isa.MNGR2PROC), ("csrw", isa.PROC2MNGR, 3), ("csrw", isa.XCELREG0, 2), ("csrr", 2, isa.XCELREG0)]
  for inst, line in zip(prog, isa.to_asm(prog)):
    assert int(te.assemble_inst({}, 0x200, line)) == isa.encode(inst), (inst, line)
  # interpreter: sum 3+2+1 with a backward branch, store/load, sign-extended immediate
  p = [("csrr", 1, isa.MNGR2PROC), ("addi", 2, 0, 0), ("add", 2, 2, 1), ("addi", 1, 1, -1), ("bne", 1, 0, -8),
       ("addi", 3, 0, 0x400), ("sw", 2, 4, 3), ("lw", 4, 4, 3), ("csrw", isa.PROC2MNGR, 4), ("bne", 4, 0, 0)]
  out, mem, halted, taken = isa.run(p, [3])
  assert out == [6] and halted and taken == 1 and mem[0x404] == 6 and mem[0x405] == 0
  assert isa.run([("addi", 0, 0, 5), ("csrw", isa.PROC2MNGR, 0), ("bne", 0, 0, 0)], [])[0] == [0]      # x0 stays 0, falls off the end
  assert isa.fletcher([1, 2, 3]) == ((1 + 3 + 6) << 16) | 6 and isa.fletcher([0xFFFF, 1]) == (0xFFFF << 16) | 0


@selftest
def t_vcdparse():
  from vt import vcdparse
  text = """$date today $end $timescale 1ns $end
$scope module top $end $var reg 1 ! clk $end $var reg 4 " x [3:0] $end
$scope module c $end $var reg 4 " y $end $upscope $end $upscope $end
$enddefinitions $end
$dumpvars b0000 " 0! $end
#0 1!
#50 0!
#100 1! b101 "
#150 0!
#200 1! b1111 "
"""
  v = vcdparse.parse(text)
  assert not v.errors, v.errors
  assert [(sc, n, w, s) for sc, n, w, s in v.vars] == [(("top",), "clk", 1, "!"), (("top",), "x[3:0]", 4, '"'), (("top", "c"), "y", 4, '"')]
  assert v.value_at('"', 0) == 0 and v.value_at('"', 100) == 5 and v.value_at('"', 199) == 5 and v.value_at('"', 200) == 15
  assert v.value_at("!", 0) == 1 and v.value_at("!", 50) == 0


# ------------------------------------------------------------------ E2

@selftest
def t_irref():
  from vt import ir, irref
  from vt.ir import B, S, ref, c
  from vt.irgen import comp
  Sab = S("SabT", ("a", B(2)), ("b", B(2)))
  # x.a = in_[0:2]; x.b = ~in_[2:4] (one block); y = x (net); r <<= y.a + 1 (ff, low 2 bits) ; out = concat(r, y.b)
  d = comp("T", [("in_", "in", B(4), ()), ("x", "wire", Sab, ()), ("y", "wire", Sab, ()), ("r", "wire", B(2), ()), ("out", "out", B(4), ())],
           blocks=[("wx", "comb", [("=", ref("x", ("f", "a")), ref("in_", ("s", 0, 2))), ("=", ref("x", ("f", "b")), ("un", "~", ref("in_", ("s", 2, 4))))]),
                   ("rr", "ff", [("=", ref("r"), ("bin", "+", ref("y", ("f", "a")), c(2, 1)))]),
                   ("wo", "comb", [("=", ref("out"), ("call", "concat", ref("r"), ref("y", ("f", "b"))))])],
           connects=[(ref("y"), ref("x"))])
  r = irref.RefSim(d)
  r.set_inputs({"in_": 0b0110, "reset": 0}); r.settle()
  g = lambda n: r.state[((), n, ())]
  assert g("x") == 0b10_10 and g("y") == 0b10_10 and g("out") == 0b00_10, (g("x"), g("y"), g("out"))   # a=2 (MS field), b=~01=2
  r.tick(); assert g("r") == 3 and g("out") == 0b11_10
  r.set_inputs({"in_": 0b1111}); r.tick(); assert g("r") == 0 and g("out") == 0b00_00       # 3+1 wraps; b = ~3 = 0
  # the same design through the real simulator (emitter + Dut) must agree signal by signal
  from vt.dut import Dut
  from vt.acc import Acc
  from vt.checks.c01 import lockstep
  acc = Acc()
  for group in ("simple", "dynamic"):
    dut = Dut(d, group)
    n = lockstep(dut, irref.RefSim(d), [[{"in_": v, "reset": 0} for v in (6, 15, 0, 9)]], "selftest", acc, {})
    dut.close()
    assert n == 4 and not acc.violations, acc.violations
  # double drivers / evaluation-order dependence are detected by the reference itself
  bad = comp("T2", [("in_", "in", B(2), ()), ("w", "wire", B(2), ()), ("out", "out", B(2), ())],
             blocks=[("b1", "comb", [("=", ref("w"), ref("in_"))]), ("b2", "comb", [("=", ref("w"), ("un", "~", ref("in_")))]),
                     ("b3", "comb", [("=", ref("out"), ref("w"))])])
  rb = irref.RefSim(bad)
  rb.set_inputs({"in_": 1, "reset": 0})
  try:
    rb.settle(); raise AssertionError("double driver not detected by the reference")
  except Exception as ex:
    assert "order" in str(ex) or "driver" in str(ex), ex


# ------------------------------------------------------------------ E3

def _sv(decls, body, ins):
  from vt import svsim
  text = "module T (\n  input logic [0:0] clk,\n  input logic [0:0] reset" + "".join(",\n  " + d for d in decls) + "\n);\n" + body + "\nendmodule\n"
  des = svsim.Design(text)
  inst = svsim.Inst(des, "T")
  for k, v in ins.items(): inst.set_port(k, v)
  inst.tick()
  return inst


@selftest
def t_svsim_sizing():
  """IEEE 1800-2017 clause 11.6: expression bit lengths (the examples of 11.6.2 / 11.6.3 and one case per row of table 11-21)."""
  D = ["input logic [15:0] a", "input logic [15:0] b", "output logic [15:0] o1", "output logic [15:0] o2", "output logic [15:0] o3"]
  i = _sv(D, "assign o1 = (a + b) >> 1;\nassign o2 = (a + b + 0) >> 1;\nassign o3 = {a + b} >> 1;", {"a": 0x8000, "b": 0x8000})
  assert (i.get_port("o1"), i.get_port("o2"), i.get_port("o3")) == (0, 0x8000, 0), "11.6.2: 16-bit sum loses the carry unless an unsized 0 widens the context"
  D = ["input logic [3:0] a", "input logic [3:0] b", "input logic [0:0] c"] + [f"output logic [7:0] o{k}" for k in range(12)]
  body = """assign o0 = a + b;
assign o1 = {a + b};
assign o2 = 8'(a + b);
assign o3 = a << 1;
assign o4 = ~a;
assign o5 = {2{a}};
assign o6 = c ? a : 8'd200;
assign o7 = (a + b) > 4'd3;
assign o8 = &a;
assign o9 = a * b;
assign o10 = {a, b} + 8'd1;
assign o11 = 8'(a) + 8'(b);"""
  i = _sv(D, body, {"a": 15, "b": 2, "c": 1})
  got = [i.get_port(f"o{k}") for k in range(12)]
  want = [17,       # context 8 bits
          1,        # concatenation operand self-determined: 4-bit sum
          1,        # cast operand self-determined
          0x1E,     # a widened to 8 bits before the shift
          0xF0,     # widened, then inverted
          0xFF, 15,
          1,        # comparison at max(4,4)=4 bits: (15+2) mod 16 = 1 > 3 is false -> 0 ... see below
          1, 30, 0xF3, 17]
  want[7] = 0
  assert got == want, (got, want)
  i = _sv(D, "assign o0 = a - b;\nassign o1 = -a;\nassign o2 = a >> b;\nassign o3 = a[2:1] + b[3:2];\nassign o4 = a[b[1:0] +: 2];", {"a": 2, "b": 3, "c": 0})
  assert [i.get_port(f"o{k}") for k in range(5)] == [0xFF, 0xFE, 0, 1, 0], [i.get_port(f"o{k}") for k in range(5)]


@selftest
def t_svsim_structure():
  """always_comb / always_ff with non-blocking swap, for loops, struct fields (first field most significant), unpacked arrays, instances, $signed."""
  from vt import svsim
  text = """typedef struct packed { logic [1:0] a; logic [5:0] b; } P;
module Child ( input logic [0:0] clk, input logic [7:0] x, output logic [7:0] y, input logic [0:0] reset );
  assign y = x + 8'd1;
endmodule
module T ( input logic [0:0] clk, input logic [7:0] in_, input P p, output logic [7:0] o_swap, output logic [7:0] o_for,
           output logic [7:0] o_fld, output logic [7:0] o_arr, output logic [7:0] o_child, output logic [7:0] o_sx, input logic [0:0] reset );
  logic [7:0] r0; logic [7:0] r1; logic [7:0] arr [0:2]; logic [7:0] c__x; logic [7:0] c__y;
  Child c ( .clk( clk ), .x( c__x ), .y( c__y ), .reset( reset ) );
  assign c__x = in_;
  assign o_child = c__y;
  always_ff @(posedge clk) begin : sw
    if ( reset ) begin r0 <= 8'd1; r1 <= 8'd2; end
    else begin r0 <= r1; r1 <= r0; end
  end
  assign o_swap = r0;
  always_comb begin : lp
    o_for = 8'd0;
    for ( int unsigned i = 1'd0; i < 3'd4; i += 1'd1 )
      o_for[3'(i)] = in_[3'(7 - i)];
  end
  always_comb begin : ar
    arr[2'd0] = in_; arr[2'd1] = in_ + 8'd1; arr[2'd2] = 8'd0;
    o_arr = arr[p.a];
  end
  assign o_fld = { 2'd0, p.b };
  assign o_sx = 8'( $signed( in_[3:0] ) );
endmodule
"""
  des = svsim.Design(text)
  i = svsim.Inst(des, "T")
  i.set_port("reset", 1); i.set_port("in_", 0b10110000); i.set_port("p", 0b01_000011); i.tick()
  assert i.get_port("o_swap") == 1 and i.get_port("o_for") == 0b1101 and i.get_port("o_fld") == 3 and i.get_port("o_arr") == 0b10110001
  assert i.get_port("o_child") == 0b10110001 and i.get_port("o_sx") == 0
  i.set_port("reset", 0); i.set_port("in_", 0x0A); i.tick(); assert i.get_port("o_swap") == 2 and i.get_port("o_sx") == 0xFA
  i.tick(); assert i.get_port("o_swap") == 1
  multi, drv = svsim.drivers(des, "T"); assert not multi
  for bad, why in (("module A ( input logic [0:0] clk ); logic [1:0] x; logic [1:0] x; endmodule", "declared twice"),
                   ("module A ( input logic [0:0] clk ); endmodule module A ( input logic [0:0] clk ); endmodule", "defined twice"),
                   ("module A ( input logic [0:0] clk, output logic [1:0] o ); always_comb begin : o\n o = 2'd1; end endmodule", "name of another declaration"),
                   ("module B ( input logic [0:0] clk ); endmodule module A ( input logic [0:0] clk ); logic [0:0] b; B b ( .clk( clk ) ); endmodule", "name of another declaration")):
    try: svsim.Inst(svsim.Design(bad), "A")
    except Exception as ex: assert why in str(ex), ex
    else: raise AssertionError("accepted: " + bad)
  # signedness: a size cast passes the signedness of $signed through, so a comparison of two such casts is signed
  dsg = svsim.Design("module S ( input logic [0:0] clk, input logic [7:0] a, input logic [7:0] b, output logic [0:0] lt, output logic [0:0] ltu, output logic [0:0] ge );\n"
                     " always_comb begin : cmp\n lt = 16'($signed(a)) < 16'($signed(b));\n ltu = { 16'($signed(a)) } < { 16'($signed(b)) };\n ge = 12'($signed(a)) >= 12'd2048;\n end\nendmodule")
  isg = svsim.Inst(dsg, "S"); isg.set_port("a", 0x80); isg.set_port("b", 1); isg.tick()
  assert (isg.get_port("lt"), isg.get_port("ltu"), isg.get_port("ge")) == (1, 0, 1), (isg.get_port("lt"), isg.get_port("ltu"), isg.get_port("ge"))
  multi, drv = svsim.drivers(svsim.Design("module A ( input logic [0:0] clk, input logic [1:0] i, output logic [1:0] o );\n assign o = i;\n assign o[0] = i[1];\nendmodule"), "A")
  assert multi and multi[0][0][0] == "o"


def main():
  # importing every registered module lets it add its own self tests
  root = os.path.dirname(os.path.abspath(__file__))
  for f in sorted(os.listdir(root)):
    if f.endswith(".py") and f not in ("run.py", "selftest.py", "__init__.py"):
      importlib.import_module("vt." + f[:-3])
  for f in sorted(os.listdir(os.path.join(root, "checks"))):
    if f.endswith(".py") and f != "__init__.py":
      importlib.import_module("vt.checks." + f[:-3])
  os.makedirs(os.path.join(os.path.dirname(root), ".work"), exist_ok=True)
  bad = 0
  for t in TESTS:
    try:
      t()
    except Exception:
      bad += 1
      print(f"SELFTEST FAIL {t.__module__}.{t.__name__}\n{traceback.format_exc()}")
  print(f"selftest: {len(TESTS) - bad}/{len(TESTS)} passed")
  return 2 if bad else 0
