"""C18 -- magic memories act as one in-order memory whatever the timing parameters.

MagicMemoryCL (1 and 2 ports) and the stream MagicMemoryRTL are driven by
scripted sources/sinks owned by the harness. For every request sequence of the
alphabet (overlapping sub-word addresses, reads, writes, AMOs), every split
over the ports and every timing configuration (latency, source interval, sink
back-pressure, and the stall oracle explored with a deviation bound) the
responses must be linearizable against a byte-level sequential memory
respecting per-port order and real time, and the final memory image must be
the one of that linearization.
"""
import itertools

from pymtl3 import Component, CallerIfcCL, update_once, non_blocking, connect, U, M

from vt import memref as MR
from vt.acc import Acc, MachineryError
from vt.explore import choice_dfs

PROPERTY = "C18"
LEVEL = "model_checking"
ASSUMPTIONS = [
  "reference: vt/memref.py (dict of bytes, little endian; an AMO acts on the addressed len bytes, operand = low bytes of the data field, signedness at that width)",
  "linearizability: there must be an interleaving of the per-port request sequences, consistent with real time (a response observed before another request was issued), "
  "whose sequential execution yields exactly the observed responses (type, opaque, len, data) and the final image",
  "randomness is replaced by a stall oracle (random() answers 'no stall' by default and 'stall' at the call indices chosen by the explorer, deviation bound 1 quick / 2 thorough)",
  "a run is given a horizon of 60 cycles after the last request; not finishing is reported",
]

BASE = 0x10
# (type, addr offset, len, data)
ALPHA = [
  ("W4", (MR.WRITE, 0, 0, 0xA1B2C3D4)), ("W1", (MR.WRITE, 1, 1, 0x5E)), ("W2", (MR.WRITE, 2, 2, 0x7788)), ("W3", (MR.WRITE, 0, 3, 0x112233)),
  ("R4", (MR.READ, 0, 0, 0)), ("R1", (MR.READ, 1, 1, 0)), ("R2", (MR.READ, 2, 2, 0)), ("R4b", (MR.READ, 4, 0, 0)), ("W4b", (MR.WRITE, 2, 0, 0xCAFEF00D)),
  ("ADD", (MR.AMO_ADD, 0, 0, 0xFFFFFFFF)), ("SWP", (MR.AMO_SWAP, 0, 0, 0x01020304)), ("MIN", (MR.AMO_MIN, 0, 0, 0x80000000)),
  ("MAXU", (MR.AMO_MAXU, 0, 0, 0x1234)), ("XOR", (MR.AMO_XOR, 0, 0, 0x0F0F0F0F)), ("MAX", (MR.AMO_MAX, 0, 0, 0x7FFFFFFF)), ("MINU", (MR.AMO_MINU, 0, 0, 0x00FF00FF)),
  ("AND", (MR.AMO_AND, 0, 0, 0xF0F0FFFF)), ("OR", (MR.AMO_OR, 0, 0, 0x00000F0F)),
  # atomic operations on fewer bytes than the data field holds
  ("ADD2", (MR.AMO_ADD, 2, 2, 0xFFFF)), ("MIN2", (MR.AMO_MIN, 0, 2, 0x8000)), ("SWP1", (MR.AMO_SWAP, 1, 1, 0x5A)), ("MAXU3", (MR.AMO_MAXU, 0, 3, 0x00C0FF)),
]
ADICT = dict(ALPHA)
COLLIDE = ["W4", "W1", "R4", "ADD", "SWP", "R2", "MAXU", "ADD2", "MIN2"]
INIT_IMAGE = {BASE + i: v for i, v in enumerate([0xEF, 0xBE, 0xAD, 0xC0, 0x44, 0x33, 0x22, 0x11])}   # word 0xC0ADBEEF: bit 31 set


def mkreq(letter, opaque):
  t, off, ln, data = ADICT[letter]
  return (t, opaque, BASE + off, ln, data)


class StallOracle:
  """random() -> 1.0 (no stall) by default, 0.0 (stall) where the explorer deviates."""
  def __init__(self, cr, limit=40):
    self.cr, self.n, self.limit = cr, 0, limit
  def random(self):
    self.n += 1
    if self.n > self.limit: return 1.0
    return 0.0 if self.cr.choose(2, 1) else 1.0


class Src(Component):
  def construct(s, msgs, interval):
    s.send = CallerIfcCL()
    s.msgs, s.interval = list(msgs), interval
    s.idx, s.wait, s.cyc = 0, 0, 0
    s.sent_at = []

    @update_once
    def up_src():
      s.cyc += 1
      if s.idx < len(s.msgs):
        if s.wait > 0: s.wait -= 1
        elif s.send.rdy():
          s.send(s.msgs[s.idx])
          s.sent_at.append(s.cyc)
          s.idx += 1
          s.wait = s.interval


class Sink(Component):
  def construct(s, period):
    s.period, s.cyc = period, 0
    s.got = []

    @update_once
    def up_sink():
      s.cyc += 1

    s.add_constraints(U(up_sink) < M(s.recv), U(up_sink) < M(s.recv.rdy))

  @non_blocking(lambda s: s.period <= 1 or s.cyc % s.period == 0)
  def recv(s, msg):
    s.got.append((s.cyc, msg))


class HarnessCL(Component):
  def construct(s, nports, streams, latency, src_int, sink_per):
    from pymtl3.stdlib.mem.MagicMemoryCL import MagicMemoryCL
    from pymtl3.stdlib.mem.MemMsg import mk_mem_msg
    s.srcs = [Src(streams[i], src_int) for i in range(nports)]
    s.mem = MagicMemoryCL(nports, [mk_mem_msg(8, 32, 32)] * nports, 0.5, latency)
    s.sinks = [Sink(sink_per) for i in range(nports)]
    for i in range(nports):
      connect(s.srcs[i].send, s.mem.ifc[i].req)
      connect(s.mem.ifc[i].resp, s.sinks[i].recv)


def run_cl(streams, latency, src_int, sink_per, cr):
  """-> (per-port [(issue cycle, req)], per-port [(recv cycle, resp tuple)], final image, done)"""
  from pymtl3 import DefaultPassGroup
  from pymtl3.stdlib.mem.MemMsg import mk_mem_msg
  Req, Resp = mk_mem_msg(8, 32, 32)
  nports = len(streams)
  msgs = [[Req(t, o, a, l, d) for (t, o, a, l, d) in st] for st in streams]
  top = HarnessCL(nports, msgs, latency, src_int, sink_per)
  top.elaborate()
  for i, st in enumerate(top.mem.req_stalls):
    st.stall_rgen = StallOracle(cr)
  top.mem.write_mem(BASE, bytearray(INIT_IMAGE[BASE + i] for i in range(8)))
  top.apply(DefaultPassGroup())
  top.sim_reset()
  total = sum(len(s) for s in streams)
  for cyc in range(40 + 25 * total):
    top.sim_tick()
    if sum(len(k.got) for k in top.sinks) == total: break
  issued = [[(c, streams[i][k]) for k, c in enumerate(top.srcs[i].sent_at)] for i in range(nports)]
  got = [[(c, (int(m.type_), int(m.opaque), int(m.test), int(m.len), int(m.data))) for c, m in top.sinks[i].got] for i in range(nports)]
  image = tuple(top.mem.read_mem(BASE, 8))
  done = sum(len(g) for g in got) == total
  return issued, got, image, done


class SSrc(Component):
  """registered val/rdy source (same discipline as stdlib SourceRTL) that logs the cycle of every accepted request"""
  def construct(s, Type, msgs, interval):
    from pymtl3 import update_ff
    from pymtl3.stdlib.stream.ifcs import SendIfcRTL
    s.send = SendIfcRTL(Type)
    s.msgs, s.idx, s.count, s.cyc = list(msgs), 0, 0, 0
    s.sent_at = []

    @update_ff
    def up_ssrc():
      s.cyc += 1
      if s.reset:
        s.idx = 0; s.count = 0
        s.send.val <<= 0
      else:
        if s.send.val & s.send.rdy:
          s.sent_at.append(s.cyc)
          s.idx += 1
          s.count = interval
        if s.count > 0:
          s.count -= 1
          s.send.val <<= 0
        elif s.idx < len(s.msgs):
          s.send.val <<= 1
          s.send.msg <<= s.msgs[s.idx]
        else:
          s.send.val <<= 0


class SSink(Component):
  def construct(s, Type, period):
    from pymtl3 import update_ff
    from pymtl3.stdlib.stream.ifcs import RecvIfcRTL
    s.recv = RecvIfcRTL(Type)
    s.cyc, s.got = 0, []

    @update_ff
    def up_ssink():
      s.cyc += 1
      if s.reset:
        s.recv.rdy <<= 0
      else:
        if s.recv.val & s.recv.rdy:
          m = s.recv.msg
          s.got.append((s.cyc, (int(m.type_), int(m.opaque), int(m.test), int(m.len), int(m.data))))
        s.recv.rdy <<= int(period <= 1 or (s.cyc + 1) % period == 0)


class HarnessStream(Component):
  def construct(s, nports, streams, extra_latency, src_int, sink_per):
    import pymtl3.stdlib.stream.magic_memory as mm
    from pymtl3.stdlib.mem.MemMsg import mk_mem_msg
    Req, Resp = mk_mem_msg(8, 32, 32)
    s.srcs = [SSrc(Req, streams[i], src_int) for i in range(nports)]
    s.mem = mm.MagicMemoryRTL(nports, [mk_mem_msg(8, 32, 32)] * nports, 0.5, extra_latency)
    s.sinks = [SSink(Resp, sink_per) for i in range(nports)]
    for i in range(nports):
      connect(s.srcs[i].send, s.mem.ifc[i].req)
      connect(s.mem.ifc[i].resp, s.sinks[i].recv)


def run_stream(streams, extra_latency, src_int, sink_per, cr):
  """stream MagicMemoryRTL between registered val/rdy sources and sinks owned by the harness."""
  import pymtl3.stdlib.stream.magic_memory as mm
  from pymtl3 import DefaultPassGroup
  from pymtl3.stdlib.mem.MemMsg import mk_mem_msg
  Req, Resp = mk_mem_msg(8, 32, 32)
  nports = len(streams)
  oracle = StallOracle(cr)
  orig = mm.Random
  mm.Random = lambda seed: oracle
  try:
    msgs = [[Req(t, o, a, l, d) for (t, o, a, l, d) in st] for st in streams]
    top = HarnessStream(nports, msgs, extra_latency, src_int, sink_per)
    top.elaborate()
    top.apply(DefaultPassGroup())
  finally:
    mm.Random = orig
  top.mem.write_mem(BASE, bytearray(INIT_IMAGE[BASE + i] for i in range(8)))
  top.sim_reset()
  total = sum(len(s) for s in streams)
  for cyc in range(60 + 25 * total):
    top.sim_tick()
    if sum(len(k.got) for k in top.sinks) == total: break
  for _ in range(3): top.sim_tick()          # a duplicated response would show up now
  issued = [[(c, streams[i][k]) for k, c in enumerate(top.srcs[i].sent_at)] for i in range(nports)]
  got = [list(top.sinks[i].got) for i in range(nports)]
  image = tuple(top.mem.read_mem(BASE, 8))
  return issued, got, image, sum(len(g) for g in got) == total


def run_fl(stream, wide):
  """MagicMemoryFL called directly through its read / write / amo methods, one request after the other.
  wide=True passes the full 32-bit data operand (as the stdlib CL->FL adapter does), else an operand of exactly len bytes."""
  from pymtl3 import Bits, Bits32
  from pymtl3.stdlib.mem.MagicMemoryFL import MagicMemoryFL
  top = MagicMemoryFL(1 << 12)
  top.elaborate()
  top.write_mem(BASE, bytearray(INIT_IMAGE[BASE + i] for i in range(8)))
  got = []
  for k, (t, o, a, l, d) in enumerate(stream):
    n = l if l else 4
    if t == MR.READ:
      r = top.read(Bits32(a), n)
      got.append((k, (t, o, 0, l, int(r))))
    elif t == MR.WRITE:
      top.write(Bits32(a), n, Bits32(d) if wide else Bits(8 * n, d & ((1 << (8 * n)) - 1)))
      got.append((k, (t, o, 0, 0, 0)))
    else:
      r = top.amo(t, Bits32(a), n, Bits32(d))
      got.append((k, (t, o, 0, l, int(r))))
  issued = [(k, rq) for k, rq in enumerate(stream)]
  return [issued], [got], tuple(top.read_mem(BASE, 8)), True


def check_fl(letters, acc):
  opq = itertools.count(1)
  stream = [mkreq(l, next(opq)) for l in letters]
  for wide in (True, False):
    acc.count("executions")
    case = dict(model="fl", letters=[list(letters)], cfg=[int(wide)], stalls=[])
    kinds = "+".join(sorted(set(letters)))
    try:
      issued, got, image, done = run_fl(stream, wide)
    except Exception as ex:
      acc.violation(f"fl:raised:{type(ex).__name__}:{kinds}", case, "runs", f"{type(ex).__name__}: {str(ex)[:160]}"); continue
    ok, why = linearizable([stream], issued, got, image)
    if not ok:
      acc.violation(f"fl:wrong-result:{'wide' if wide else 'exact'}-operand:{kinds}", case, "sequential memory semantics",
                    dict(responses=[r for c, r in got[0]], image=list(image)), why)


def linearizable(streams, issued, got, image):
  """Search the interleavings of the per-port sequences (per-port order kept, real time respected)."""
  n = len(streams)
  lens = [len(s) for s in streams]
  if any(len(got[i]) != lens[i] or len(issued[i]) != lens[i] for i in range(n)): return False, "missing responses"
  for i in range(n):
    for k, (c, resp) in enumerate(got[i]):
      if resp[1] != streams[i][k][1] or resp[0] != streams[i][k][0]:
        return False, f"port {i} response {k} has type/opaque {resp[:2]}, request was {streams[i][k][:2]} (per-port order broken)"
  def rec(pos, mem):
    if all(pos[i] == lens[i] for i in range(n)):
      return mem.image(BASE, BASE + 8) == image
    for i in range(n):
      k = pos[i]
      if k == lens[i]: continue
      # real time: every request of another port whose response was observed before this one was issued must already be applied
      ok = True
      for j in range(n):
        if j == i: continue
        for kk in range(pos[j], lens[j]):
          if got[j][kk][0] < issued[i][k][0]: ok = False
      if not ok: continue
      m2 = mem.copy()
      resp = m2.apply(streams[i][k])
      if resp != got[i][k][1]: continue
      np = list(pos); np[i] += 1
      if rec(np, m2): return True
    return False
  ok = rec([0] * n, MR.Mem(INIT_IMAGE))
  return ok, "" if ok else "no interleaving of the request streams explains the responses and the final image"


def check_run(model, letters_by_port, cfg, bound, acc):
  """Explore the stall oracle for one (request set, timing config)."""
  opq = itertools.count(1)
  streams = [[mkreq(l, next(opq)) for l in port] for port in letters_by_port]
  lat, si, sp = cfg
  runner = run_cl if model == "cl" else run_stream
  def run(cr):
    try:
      return runner(streams, lat, si, sp, cr)
    except Exception as ex:
      return ex
  outcomes = set()
  for choices, res in choice_dfs(run, bound=bound, cap=400):
    acc.count("executions")
    case = dict(model=model, letters=[list(p) for p in letters_by_port], cfg=list(cfg), stalls=choices)
    kinds = "+".join(sorted({l for p in letters_by_port for l in p}))
    if isinstance(res, Exception):
      acc.violation(f"{model}:raised:{type(res).__name__}:{kinds}", case, "runs", f"{type(res).__name__}: {str(res)[:160]}")
      continue
    issued, got, image, done = res
    if not done:
      acc.violation(f"{model}:not-finished:{kinds}", case, "all responses within the horizon", [len(g) for g in got])
      continue
    ok, why = linearizable(streams, issued, got, image)
    outcomes.add((tuple(tuple(r for c, r in g) for g in got), image))
    if not ok:
      acc.violation(f"{model}:not-linearizable:{kinds}", case, "sequential memory semantics", dict(responses=[[r for c, r in g] for g in got], image=list(image)), why)
  acc.add("outcomes", (model, tuple(map(tuple, letters_by_port)), frozenset(outcomes)) if len(outcomes) > 1 else (model, 0, 0))
  if len(letters_by_port) > 1: acc.count("two_port_sets")
  return outcomes


def request_sets(tier):
  names = [n for n, _ in ALPHA]
  one = [((a,),) for a in names] + [((a, b),) for a in names for b in names]
  if tier == "thorough": one += [((a, b, c),) for a in COLLIDE for b in COLLIDE for c in COLLIDE]
  else: one += [((a, b, c),) for a in COLLIDE[:4] for b in COLLIDE[:4] for c in COLLIDE[:4]]
  two = [((a,), (b,)) for a in COLLIDE for b in COLLIDE]
  two += [((a, b), (c,)) for a in COLLIDE[:5] for b in COLLIDE[:5] for c in COLLIDE[:5]]
  two += [((a,), (b, c)) for a in COLLIDE[:5] for b in COLLIDE[:5] for c in COLLIDE[:5]]
  return one, two


def configs(tier):
  if tier == "quick":
    return [(1, 0, 1), (0, 0, 1), (3, 0, 1), (1, 2, 3), (2, 1, 2), (0, 0, 5), (1, 0, 7)]
  return [(l, s, p) for l in (0, 1, 2, 3) for s in (0, 1, 2) for p in (1, 2, 3, 5, 7)]


def work(tier):
  one, two = request_sets(tier)
  W = []
  for model in ("cl", "stream"):
    for rs in one + two:
      W.append((model, rs))
  for rs in one: W.append(("fl", rs))
  return W


def check_edges(acc):
  """the last bytes of the memory: every (address, size) with address + size <= memory size is readable / writable through the image
  interface (read_mem / write_mem) and through read / write; one byte further is refused"""
  from pymtl3.stdlib.mem.MagicMemoryFL import MagicMemoryFL
  from pymtl3 import Bits32
  N = 16
  for addr in range(N - 5, N + 1):
    for size in (1, 2, 4):
      acc.count("executions"); acc.count("transitions")
      m = MagicMemoryFL(mem_nbytes=N); m.elaborate()
      case = dict(model="edge", addr=addr, size=size)
      data = bytes(range(1, size + 1))
      inside = addr + size <= N
      try:
        m.write_mem(addr, data); got = bytes(m.read_mem(addr, size)); exc = None
      except Exception as ex:
        got, exc = None, ex
      if inside and (exc is not None or got != data):
        acc.violation("edge:image-access-to-the-last-bytes-refused", case, "bytes written and read back", repr(exc) if exc else got, f"write_mem / read_mem({addr}, {size}) in a {N}-byte memory")
      if not inside and exc is None and got is not None and len(got) == size:
        acc.violation("edge:image-access-beyond-the-end-accepted", case, "refused", got, f"addr {addr} size {size} in a {N}-byte memory")
  acc.count("request_sets")


def shards(tier):
  k = 64
  return [(i, k) for i in range(k)] + [("edge",)]


def run_shard(shard, tier, seed):
  acc = Acc()
  if shard[0] == "edge":
    check_edges(acc)
    return acc
  W = work(tier)
  cfgs = configs(tier)
  for j in range(shard[0], len(W), shard[1]):
    model, rs = W[j]
    if model == "fl":
      check_fl(rs[0], acc); acc.count("request_sets"); continue
    per_cfg = []
    for ci, cfg in enumerate(cfgs):
      lat = cfg[0]
      if model == "stream" and lat == 0: cfg = (0, cfg[1], cfg[2])
      if tier == "quick": bound = 1 if ci == 0 else 0
      else: bound = 2 if ci % 5 == 0 else 1          # 12 of the 60 configurations with two stall deviations, the others with one
      per_cfg.append(check_run(model, rs, cfg, bound, acc))
    # timing independence for a single port: the response contents must be the same under every configuration
    if len(rs) == 1 and len({frozenset(o) for o in per_cfg if o}) > 1:
      acc.violation(f"{model}:timing-changes-contents", dict(model=model, letters=[list(p) for p in rs], cfg=None, stalls=[]), "one outcome", "several")
    acc.count("request_sets")
    if j % 300 == 0: acc.sample(dict(model=model, ports=[list(p) for p in rs], configs=[list(c) for c in cfgs], config_fields="(latency, source interval, sink period)"))
  return acc


def replay(case):
  acc = Acc()
  if case["model"] == "edge":
    check_edges(acc)
    return [(v["sig"], v["expected"], v["observed"], v["msg"]) for v in acc.violations if v["case"] == case][:3]
  if case["model"] == "fl":
    check_fl(tuple(case["letters"][0]), acc)
    return [(v["sig"], v["expected"], v["observed"], v["msg"]) for v in acc.violations][:3]
  if case.get("cfg") is None:
    for cfg in configs("quick"): check_run(case["model"], [tuple(p) for p in case["letters"]], tuple(cfg), 0, acc)
  else:
    opq = itertools.count(1)
    streams = [[mkreq(l, next(opq)) for l in port] for port in case["letters"]]
    from vt.explore import ChoiceRun
    cr = ChoiceRun(case["stalls"])
    runner = run_cl if case["model"] == "cl" else run_stream
    try:
      issued, got, image, done = runner(streams, *case["cfg"], cr)
    except Exception as ex:
      return [(f"{case['model']}:raised", "runs", repr(ex)[:160], "")]
    if not done: return [(f"{case['model']}:not-finished", "finishes", [len(g) for g in got], "")]
    ok, why = linearizable(streams, issued, got, image)
    if not ok: return [(f"{case['model']}:not-linearizable", "sequential memory semantics", dict(responses=[[r for c, r in g] for g in got], image=list(image)), why)]
  return [(v["sig"], v["expected"], v["observed"], v["msg"]) for v in acc.violations][:3]


def finish(acc, tier):
  if acc.n["two_port_sets"] < 50: raise MachineryError("too few two-port request sets")
  multi = len([o for o in acc.sets["outcomes"] if o[1] != 0])
  return dict(
    states=int(acc.n["executions"]), transitions=int(acc.n["executions"]),
    traces_validated_against_impl=int(acc.n["executions"]),
    evaluations=int(acc.n["executions"]), distinct_nontrivial=int(acc.n["two_port_sets"]),
    rule="one execution = one (model, request streams, timing config, stall schedule) run on a fresh memory and checked for linearizability; "
         "non-trivial = request sets split over two ports (overlapping addresses, so the interleaving matters)",
    exhaustive=True, request_sets=int(acc.n["request_sets"]), sets_with_timing_dependent_interleaving=multi,
    bounds=dict(alphabet=[n for n, _ in ALPHA], stall_deviation_bound="1 on the first configuration, 0 on the others" if tier == "quick" else "2 on every fifth configuration, 1 on the others", configs=[list(c) for c in configs(tier)]),
  )
