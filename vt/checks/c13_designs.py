"""Component catalogue for C13: instances built to collide on their translated module names.

Every leaf has in_ : InPort(Bits8), out : OutPort(Bits8) and computes out = f(in_) where f depends
on the class and on the construct() parameters, so that "different hardware" is observable.
"""
from pymtl3 import *


class Inc(Component):
  def construct(s, amount=1):
    s.in_ = InPort(Bits8)
    s.out = OutPort(Bits8)

    @update
    def up_inc():
      s.out @= s.in_ + amount


class Typed(Component):
  """behaviour depends on the TYPE of the parameter: int k adds k, Bits adds 2k+1, str adds 100+int, bool xors 0x55"""
  def construct(s, k):
    s.in_ = InPort(Bits8)
    s.out = OutPort(Bits8)
    if isinstance(k, bool): amount, mode = 0x55, 1
    elif isinstance(k, int): amount, mode = k, 0
    elif isinstance(k, Bits): amount, mode = 2 * int(k) + 1, 0
    else: amount, mode = 100 + (int(k) if str(k).lstrip("-").isdigit() else 7), 0

    # (blocks built under a condition carry different names: ComponentLevel2._cache_func_meta caches block sources per class and name)
    if mode:
      @update
      def up_typed_xor():
        s.out @= s.in_ ^ amount
    else:
      @update
      def up_typed_add():
        s.out @= s.in_ + amount


class TwoKw(Component):
  def construct(s, a=1, b=2):
    s.in_ = InPort(Bits8)
    s.out = OutPort(Bits8)

    @update
    def up_kw():
      s.out @= (s.in_ << a) + b


class Defaults(Component):
  def construct(s, nbits, offset=1, shift=2):
    s.in_ = InPort(Bits8)
    s.out = OutPort(Bits8)
    s.t = Wire(mk_bits(nbits))

    @update
    def up_def():
      s.out @= (s.in_ + offset) << shift


class ListParam(Component):
  def construct(s, coeffs):
    s.in_ = InPort(Bits8)
    s.out = OutPort(Bits8)
    c0, c1 = coeffs[0], coeffs[1]

    @update
    def up_lp():
      s.out @= (s.in_ & c0) + c1


class TypeParam(Component):
  def construct(s, T):
    s.in_ = InPort(Bits8)
    s.out = OutPort(Bits8)
    n = T.nbits

    @update
    def up_tp():
      s.out @= s.in_ + n


def mk_struct(fields):
  return mk_bitstruct("Cfg", fields)


class StructParam(Component):
  """parameter is a bitstruct TYPE; two different struct types share the class name 'Cfg'"""
  def construct(s, T):
    s.in_ = InPort(Bits8)
    s.out = OutPort(Bits8)
    n = T.nbits

    @update
    def up_sp():
      s.out @= s.in_ + n


class LongParams(Component):
  def construct(s, p0=0, p1=0, p2=0, p3=0, p4=0, p5=0, p6=0, p7=0, p8=0, p9=0):
    s.in_ = InPort(Bits8)
    s.out = OutPort(Bits8)
    total = (p0 + 2 * p1 + 3 * p2 + 4 * p3 + 5 * p4 + 6 * p5 + 7 * p6 + 8 * p7 + 9 * p8 + 10 * p9) & 0xFF

    @update
    def up_long():
      s.out @= s.in_ + total


class StrParam(Component):
  def construct(s, tag):
    s.in_ = InPort(Bits8)
    s.out = OutPort(Bits8)
    amount = sum(ord(ch) for ch in tag) & 0xFF

    @update
    def up_str():
      s.out @= s.in_ ^ amount


class TupleParam(Component):
  def construct(s, c):
    s.in_ = InPort(Bits8)
    s.out = OutPort(Bits8)
    c0 = c[0]

    @update
    def up_tup():
      s.out @= s.in_ + c0


class NegParam(Component):
  def construct(s, k, x=None):
    s.in_ = InPort(Bits8)
    s.out = OutPort(Bits8)
    amount = -k if x is None else 2 * abs(k) + 1

    @update
    def up_neg():
      s.out @= s.in_ + amount


def make_same_name(amount):
  """two different classes that share __name__ == 'Twin'"""
  class Twin(Component):
    def construct(s):
      s.in_ = InPort(Bits8)
      s.out = OutPort(Bits8)

      @update
      def up_twin():
        s.out @= s.in_ + amount
  return Twin


TwinA = make_same_name(3)
TwinB = make_same_name(9)

GLOBAL_K = [4]


class UsesGlobal(Component):
  """body depends on module-level state at construction time, not on a parameter"""
  def construct(s):
    s.in_ = InPort(Bits8)
    s.out = OutPort(Bits8)
    k = GLOBAL_K[0]

    @update
    def up_glob():
      s.out @= s.in_ + k


class PlainCfg:
  """a parameter object with the default object repr (which contains its memory address)"""
  def __init__(s, k): s.k = k


class ObjParam(Component):
  def construct(s, cfg):
    s.in_ = InPort(Bits8)
    s.out = OutPort(Bits8)
    k = cfg.k

    @update
    def up_obj():
      s.out @= s.in_ + k


def double(x): return 2 * x
def triple(x): return 3 * x


class FnParam(Component):
  def construct(s, fn):
    s.in_ = InPort(Bits8)
    s.out = OutPort(Bits8)
    k = fn(3)

    @update
    def up_fn():
      s.out @= s.in_ + k


class SetParam(Component):
  """a set-valued construct argument (iteration order of a set of strings depends on the hash seed)"""
  def construct(s, ops):
    s.in_ = InPort(Bits8)
    s.out = OutPort(Bits8)
    k = (1 if "add" in ops else 0) + (2 if "mul" in ops else 0) + (4 if "very_long_operation_name" in ops else 0)

    @update
    def up_set():
      s.out @= s.in_ + k


import collections as _collections
import dataclasses as _dataclasses

OpsTuple = _collections.namedtuple("OpsTuple", ["ops", "n"])


@_dataclasses.dataclass(frozen=True)
class OpsData:
  ops: frozenset
  n: int = 2


class RecordParam(Component):
  """a named tuple / a dataclass instance that holds a set (the set inside is printed in hash order by str())"""
  def construct(s, cfg):
    s.in_ = InPort(Bits8)
    s.out = OutPort(Bits8)
    k = (1 if "add" in cfg.ops else 0) + (2 if "mul" in cfg.ops else 0) + cfg.n

    @update
    def up_rec():
      s.out @= s.in_ + k


class FnListParam(Component):
  """functions inside a list / tuple / dict argument"""
  def construct(s, fns, more=None):
    s.in_ = InPort(Bits8)
    s.out = OutPort(Bits8)
    k = sum(f(3) for f in fns) + (more["f"](1) if more else 0)

    @update
    def up_fnl():
      s.out @= s.in_ + k


KCfg = mk_bitstruct("KCfg", {"x": Bits4, "y": Bits4})


class ConstStructs(Component):
  """several bitstruct-valued member constants read whole in update blocks: each becomes a declared constant of the module"""
  def construct(s):
    s.sel = InPort(Bits2)
    s.out = OutPort(KCfg)
    s.k_first = KCfg(1, 2)
    s.k_second = KCfg(3, 4)
    s.k_third = KCfg(5, 6)
    s.zz_last = KCfg(7, 8)
    s.a_early = KCfg(9, 10)

    @update
    def up_cs():
      if s.sel == 0: s.out @= s.k_first
      elif s.sel == 1: s.out @= s.k_second
      elif s.sel == 2: s.out @= s.k_third
      else: s.out @= s.zz_last

    s.o2 = OutPort(KCfg)

    @update
    def up_cs2():
      s.o2 @= s.a_early


class ConstLists(Component):
  """several closure lists of Bits constants, each indexed in an update block"""
  def construct(s):
    s.sel = InPort(Bits1)
    s.out = OutPort(Bits8)
    s.tbl_b = [Bits8(3), Bits8(5)]
    s.tbl_a = [Bits8(7), Bits8(11)]
    s.tbl_c = [Bits8(13), Bits8(17)]

    @update
    def up_cl():
      s.out @= s.tbl_b[s.sel] + s.tbl_a[s.sel] + s.tbl_c[0]


class LamInc(Component):
  """the block comes from a lambda connection: its generated name contains the full path of the driven signal"""
  def construct(s, amount=1):
    s.in_ = InPort(Bits8)
    s.out = OutPort(Bits8)
    s.out //= lambda: s.in_ + amount


class LamCond(Component):
  """two different lambdas for one signal, chosen by a parameter (the documented reason why lambda blocks are not cached per class)"""
  def construct(s, amount=1):
    s.in_ = InPort(Bits8)
    s.out = OutPort(Bits8)
    s.w = Wire(Bits8)
    if amount == 1: s.w //= lambda: s.in_ + 1
    else:           s.w //= lambda: s.in_ ^ 0x33
    s.out //= lambda: s.w & 0x7F


# (label, factory) ; a factory returns a fresh component instance
def catalogue():
  S1 = mk_struct({"a": Bits4, "b": Bits4})
  S2 = mk_struct({"a": Bits4, "b": Bits8})
  def glob(k):
    def f():
      GLOBAL_K[0] = k
      return UsesGlobal()
    return f
  return [
    ("Inc(1)", lambda: Inc(1)), ("Inc(2)", lambda: Inc(2)), ("Inc()", lambda: Inc()), ("Inc(amount=1)", lambda: Inc(amount=1)),
    ("Typed(1)", lambda: Typed(1)), ("Typed(Bits4(1))", lambda: Typed(Bits4(1))), ("Typed('1')", lambda: Typed("1")), ("Typed(True)", lambda: Typed(True)),
    ("Typed('True')", lambda: Typed("True")), ("Typed(Bits1(1))", lambda: Typed(Bits1(1))),
    ("TwoKw(a=1,b=2)", lambda: TwoKw(a=1, b=2)), ("TwoKw(b=2,a=1)", lambda: TwoKw(b=2, a=1)), ("TwoKw(a=2,b=1)", lambda: TwoKw(a=2, b=1)), ("TwoKw(1,2)", lambda: TwoKw(1, 2)),
    ("Defaults(8,5)", lambda: Defaults(8, 5)), ("Defaults(8,5,1)", lambda: Defaults(8, 5, 1)), ("Defaults(8,shift=3)", lambda: Defaults(8, shift=3)),
    ("Defaults(8,2,3)", lambda: Defaults(8, 2, 3)), ("Defaults(8)", lambda: Defaults(8)), ("Defaults(8,1,2)", lambda: Defaults(8, 1, 2)),
    ("ListParam([15,1])", lambda: ListParam([15, 1])), ("ListParam([15,2])", lambda: ListParam([15, 2])), ("ListParam((15,1))", lambda: ListParam((15, 1))),
    ("TypeParam(Bits4)", lambda: TypeParam(Bits4)), ("TypeParam(Bits8)", lambda: TypeParam(Bits8)),
    ("StructParam(Cfg{a4,b4})", lambda: StructParam(S1)), ("StructParam(Cfg{a4,b8})", lambda: StructParam(S2)),
    ("LongParams(p9=1)", lambda: LongParams(p9=1)), ("LongParams(p8=1)", lambda: LongParams(p8=1)),
    ("LongParams(1,2,3,4,5,6,7,8,9,10)", lambda: LongParams(1, 2, 3, 4, 5, 6, 7, 8, 9, 10)), ("LongParams(1,2,3,4,5,6,7,8,9,11)", lambda: LongParams(1, 2, 3, 4, 5, 6, 7, 8, 9, 11)),
    ("StrParam('a b')", lambda: StrParam("a b")), ("StrParam('a.b')", lambda: StrParam("a.b")), ("StrParam('a_b')", lambda: StrParam("a_b")), ("StrParam('a<b>')", lambda: StrParam("a<b>")),
    ("TupleParam((3,))", lambda: TupleParam((3,))), ("TupleParam((5,))", lambda: TupleParam((5,))), ("TupleParam([3])", lambda: TupleParam([3])),
    ("NegParam(-1)", lambda: NegParam(-1)), ("NegParam(-2)", lambda: NegParam(-2)), ("NegParam(-1,0)", lambda: NegParam(-1, 0)), ("NegParam(-1,'None')", lambda: NegParam(-1, "None")),
    ("Typed(Bits8(16))", lambda: Typed(Bits8(16))), ("Typed(10)", lambda: Typed(10)), ("Typed('é')", lambda: Typed("é")),
    ("FnParam(double)", lambda: FnParam(double)), ("FnParam(triple)", lambda: FnParam(triple)),
    ("TwinA()", lambda: TwinA()), ("TwinB()", lambda: TwinB()),
    ("UsesGlobal[k=4]", glob(4)), ("UsesGlobal[k=6]", glob(6)),
    ("LamInc(1)", lambda: LamInc(1)), ("LamInc(2)", lambda: LamInc(2)), ("LamCond(1)", lambda: LamCond(1)), ("LamCond(2)", lambda: LamCond(2)),
  ]


class Pair(Component):
  def construct(s, fa, fb):
    s.in_ = InPort(Bits8)
    s.oa = OutPort(Bits8)
    s.ob = OutPort(Bits8)
    s.a = fa()
    s.b = fb()
    s.a.in_ //= s.in_
    s.b.in_ //= s.in_
    s.oa //= s.a.out
    s.ob //= s.b.out


class SetParamPair(Component):
  """two instances of the same class; one is re-parameterised through set_param"""
  def construct(s):
    s.in_ = InPort(Bits8)
    s.oa = OutPort(Bits8)
    s.ob = OutPort(Bits8)
    s.a = Inc()
    s.b = Inc()
    s.a.in_ //= s.in_
    s.b.in_ //= s.in_
    s.oa //= s.a.out
    s.ob //= s.b.out


# ------------------------------------------------------------------ name-mangling collisions inside one module

class EnIfc(Interface):
  def construct(s):
    s.en = InPort(Bits8)


class MangleIfc(Component):
  """interface member s.x.en next to a port called s.x__en"""
  def construct(s):
    s.x = EnIfc()
    s.x__en = InPort(Bits8)
    s.out = OutPort(Bits8)

    @update
    def up_m1():
      s.out @= s.x.en + (s.x__en << 1)


class MangleList(Component):
  """port list s.a[0] next to a port called s.a__0 (Yosys flattening)"""
  def construct(s):
    s.a = [InPort(Bits8) for _ in range(2)]
    s.a__0 = InPort(Bits8)
    s.out = OutPort(Bits8)

    @update
    def up_m2():
      s.out @= s.a[0] + (s.a__0 << 1) + (s.a[1] << 2)


class MangleChild(Component):
  """child s.c with port in_ next to a wire called s.c__in_"""
  def construct(s):
    s.in_ = InPort(Bits8)
    s.out = OutPort(Bits8)
    s.c = Inc(3)
    s.c__in_ = Wire(Bits8)
    s.c.in_ //= s.in_

    @update
    def up_m3a():
      s.c__in_ @= s.in_ ^ 0x0F

    @update
    def up_m3b():
      s.out @= s.c.out + s.c__in_


Sab = mk_bitstruct("SabC13", {"a": Bits4, "b": Bits4})


class MangleStruct(Component):
  """struct wire s.p with field a next to a wire called s.p__a (Yosys struct flattening)"""
  def construct(s):
    s.in_ = InPort(Bits8)
    s.p = Wire(Sab)
    s.p__a = Wire(Bits4)
    s.out = OutPort(Bits8)

    @update
    def up_m4a():
      s.p.a @= s.in_[0:4]
      s.p.b @= s.in_[4:8]
      s.p__a @= s.in_[2:6]

    @update
    def up_m4b():
      s.out @= concat(s.p.a, s.p.b) + zext(s.p__a, 8)


class MangleChildList(Component):
  """child list s.c[0] next to a wire called s.c__0__out (Yosys flattening of component arrays)"""
  def construct(s):
    s.in_ = InPort(Bits8)
    s.out = OutPort(Bits8)
    s.c = [Inc(3) for _ in range(2)]
    s.c__0__out = Wire(Bits8)
    s.c[0].in_ //= s.in_
    s.c[1].in_ //= s.c[0].out

    @update
    def up_m5a():
      s.c__0__out @= s.in_ ^ 0x0F

    @update
    def up_m5b():
      s.out @= s.c[1].out + s.c__0__out


class MangleWireIfc(Component):
  """interface member s.y.en driven inside next to a wire called s.y__en"""
  def construct(s):
    s.y = EnIfc()
    s.y__en = Wire(Bits8)
    s.out = OutPort(Bits8)

    @update
    def up_m6a():
      s.y__en @= s.y.en + 1

    @update
    def up_m6b():
      s.out @= s.y.en ^ s.y__en


KwS = mk_bitstruct("KwS", {"reg": Bits4, "y": Bits4})


class KeywordField(Component):
  """a bitstruct field named like a Verilog keyword, never accessed by name in a block (built positionally, moved whole)"""
  def construct(s):
    s.in_ = InPort(Bits8)
    s.out = OutPort(Bits8)
    s.w = Wire(KwS)

    @update
    def up_kw1():
      s.w @= KwS(s.in_[0:4], s.in_[4:8])

    @update
    def up_kw2():
      s.out @= s.w


class TmpCollide(Component):
  """temporaries of two blocks whose flattened names coincide: block a_b / temporary c and block a / temporary b_c"""
  def construct(s):
    s.in_ = InPort(Bits8)
    s.out = OutPort(Bits8)
    s.o2 = OutPort(Bits8)

    @update
    def a_b():
      c = s.in_ + 1
      s.out @= c

    @update
    def a():
      b_c = s.in_[0:4]
      s.o2 @= zext(b_c, 8)


class LoopVarCollide(Component):
  """loop variables of two blocks whose flattened names coincide: block up / variable rd_i and block up_rd / variable i"""
  def construct(s):
    s.in_ = InPort(Bits8)
    s.out = OutPort(Bits8)
    s.o2 = OutPort(Bits8)

    @update
    def up():
      s.out @= 0
      for rd_i in range(4):
        s.out[rd_i] @= s.in_[rd_i + 4]

    @update
    def up_rd():
      s.o2 @= 0
      for i in range(8):
        s.o2[i] @= s.in_[7 - i]


class UnicodeName(Component):
  """a port and a wire whose (legal Python) names are not legal Verilog identifiers"""
  def construct(s):
    s.in_ = InPort(Bits8)
    s.größe = InPort(Bits8)
    s.out = OutPort(Bits8)
    s.zähler = Wire(Bits8)

    @update
    def up_uni():
      s.zähler @= s.in_ + s.größe

    @update
    def up_uni2():
      s.out @= s.zähler


Größe = mk_bitstruct("Größe", {"a": Bits4, "b": Bits4})


class UnicodeStruct(Component):
  """a bitstruct type whose (legal Python) name is not a legal Verilog identifier"""
  def construct(s):
    s.in_ = InPort(Größe)
    s.out = OutPort(Bits4)

    @update
    def up_us():
      s.out @= s.in_.a ^ s.in_.b


class _UIfc(Interface):
  def construct(s):
    s.zähler = InPort(Bits8)
    s.en = InPort(Bits1)


class UnicodeIfcMember(Component):
  """an interface member with such a name"""
  def construct(s):
    s.x = _UIfc()
    s.out = OutPort(Bits8)

    @update
    def up_uim():
      s.out @= s.x.zähler & sext(s.x.en, 8)


class _Inner(Component):
  def construct(s):
    s.in_ = InPort(Bits8)
    s.out = OutPort(Bits8)

    @update
    def up_inner():
      s.out @= s.in_ + 1


Zähler = type("Zähler", (_Inner,), {})


class UnicodeClass(Component):
  """a sub-component whose class has such a name"""
  def construct(s):
    s.in_ = InPort(Bits8)
    s.out = OutPort(Bits8)
    s.c = Zähler()
    s.c.in_ //= s.in_
    s.out //= s.c.out


class BlockNamedLikeSignal(Component):
  """update blocks that have the name of a port, of a wire and of a sub-component (named blocks live in the module name space)"""
  def construct(s):
    s.in_ = InPort(Bits8)
    s.out = OutPort(Bits8)
    s.o2 = OutPort(Bits8)
    s.cnt = Wire(Bits8)
    s.inc = Inc(2)
    s.inc.in_ //= s.in_

    @update
    def out():
      s.out @= s.cnt + 1

    @update_ff
    def cnt():
      s.cnt <<= s.in_

    @update
    def inc():
      s.o2 @= s.inc.out


SN8 = mk_bitstruct("SN", {"a": Bits4, "b": Bits4})
SN4 = mk_bitstruct("SN__a_4", {"b": Bits4})


class StructNameCollide(Component):
  """two bitstruct classes whose generated type names coincide: SN{a:4,b:4} and SN__a_4{b:4} are both SN__a_4__b_4"""
  def construct(s):
    s.in_ = InPort(SN8)
    s.i4 = InPort(SN4)
    s.out = OutPort(Bits8)
    s.o4 = OutPort(Bits4)

    @update
    def up_snc():
      s.out @= concat(s.in_.a, s.in_.b)
      s.o4 @= s.i4.b


MANGLE = {"MangleIfc": MangleIfc, "MangleList": MangleList, "MangleChild": MangleChild, "MangleStruct": MangleStruct,
          "MangleChildList": MangleChildList, "MangleWireIfc": MangleWireIfc, "KeywordField": KeywordField, "TmpCollide": TmpCollide, "LoopVarCollide": LoopVarCollide, "UnicodeName": UnicodeName, "UnicodeStruct": UnicodeStruct, "UnicodeIfcMember": UnicodeIfcMember, "UnicodeClass": UnicodeClass, "BlockNamedLikeSignal": BlockNamedLikeSignal, "StructNameCollide": StructNameCollide}
