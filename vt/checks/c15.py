"""C15 -- replacing a component yields the same design as building it directly.

Explicit-state exploration over histories of replace_component /
replace_component_with_obj calls (every position x every class of a
catalogue). Oracle is differential: canonical name-keyed metadata of the
mutated design vs the same design constructed from scratch, identical
simulation traces, and an object-graph reachability sweep from top that must
meet no object of a removed component.
"""
import itertools

from vt.acc import Acc, MachineryError
from vt.checks import c15_designs as D

PROPERTY = "C15"
LEVEL = "model_checking"
ASSUMPTIONS = [
  "hierarchy: top{a, l[0], l[1], mid{b, bl[0]}} with parent blocks reading/writing child ports, slice, constant and whole connections across the boundary "
  "(vt/checks/c15_designs.py); class catalogue Pass/Reg/Nest/Con/Lam/Sl/CL/MNet",
  "oracle: meta(apply(H, r1..rk)) == meta(build(H[r1..rk])) on names only (object identity ignored); both simulated with DefaultPassGroup over all input sequences of length 2",
  "reachability: from top through __dict__, _dsl metadata, containers and closure cells; objects of the removed subtree are recognised by identity",
  "state = the configuration (class at each position); histories reaching a known configuration are still executed (the mutated design depends on the path)",
]


def blkkey(top, blk):
  try: host = repr(top.get_update_block_host_component(blk))
  except Exception: host = "?"
  return f"{host}:{blk.__name__}"


def names(xs):
  # functions (@s.func) have no hierarchical name: their plain name
  return sorted(repr(x) if hasattr(x, "_dsl") else f"func {getattr(x, '__name__', repr(x))}" for x in xs)


def meta(top):
  """Canonical, name-keyed form of all queryable design metadata."""
  from pymtl3.dsl.Connectable import Signal, MethodPort
  m = {}
  m["components"] = sorted((repr(c), type(c).__name__, c.get_component_level()) for c in top.get_all_components())
  m["signals"] = names(top.get_all_object_filter(lambda x: isinstance(x, Signal)))
  m["method_ports"] = names(top.get_all_object_filter(lambda x: isinstance(x, MethodPort)))
  m["named_objects"] = names(top.get_all_object_filter(lambda x: True))
  m["value_nets"] = sorted((repr(w), tuple(names(ms))) for w, ms in top.get_all_value_nets())
  m["method_nets"] = sorted((repr(w), tuple(names(ms))) for w, ms in top.get_all_method_nets())
  m["adjacency"] = sorted((repr(k), tuple(names(v))) for k, v in top.get_signal_adjacency_dict().items() if v)
  from pymtl3.dsl.Connectable import Const
  import collections
  cnt = collections.Counter(repr(k) for k in top.get_signal_adjacency_dict() if isinstance(k, Const))
  m["adjacency_const_keys"] = sorted(f"{k} x{n}" for k, n in cnt.items())      # left-over constant nodes show as a higher multiplicity
  m["update_blocks"] = sorted(blkkey(top, b) for b in top.get_all_update_blocks())
  m["update_ff"] = sorted(blkkey(top, b) for b in top.get_all_update_ff())
  m["update_once"] = sorted(blkkey(top, b) for b in top.get_all_update_once())
  rd, wr, ca = top.get_all_upblk_metadata()
  m["upblk_reads"] = sorted((blkkey(top, b), tuple(names(v))) for b, v in rd.items())
  m["upblk_writes"] = sorted((blkkey(top, b), tuple(names(v))) for b, v in wr.items())
  m["upblk_calls"] = sorted((blkkey(top, b), tuple(names(v))) for b, v in ca.items())
  uu, rdu, wru, mm = top.get_all_explicit_constraints()
  m["U_U"] = sorted((blkkey(top, a), blkkey(top, b)) for a, b in uu)
  m["RD_U"] = sorted((repr(k), tuple(sorted((s, blkkey(top, b)) for s, b in v))) for k, v in rdu.items() if v)
  m["WR_U"] = sorted((repr(k), tuple(sorted((s, blkkey(top, b)) for s, b in v))) for k, v in wru.items() if v)
  m["M"] = sorted((_mname(top, a), _mname(top, b), bool(eq)) for a, b, eq in mm)
  # function tables of every component (not exposed through a query API)
  for tab in ("func_reads", "func_writes", "func_calls"):
    rows = []
    for c in top.get_all_components():
      for f, objs in getattr(c._dsl, tab, {}).items():
        rows.append((repr(c), f.__name__, tuple(sorted(getattr(o, "__name__", None) or repr(o) for o in objs))))
    m[tab] = sorted(rows)
  return m


def _mname(top, x):
  if hasattr(x, "__name__") and not hasattr(x, "_dsl"): return blkkey(top, x)
  return repr(x)


def removed_objects(foo):
  """Identity set of everything that belongs to the subtree about to be removed."""
  from pymtl3.dsl.NamedObject import NamedObject
  objs = foo._collect_all_single(lambda x: True)
  ids = {id(o): repr(o) for o in objs}
  # update blocks and constants owned by removed components
  for o in objs:
    d = getattr(o, "_dsl", None)
    for attr in ("upblks", "update_ff", "update_once", "consts"):
      for b in getattr(d, attr, ()) or ():
        ids[id(b)] = f"{attr} {getattr(b, '__name__', repr(b))} of {o!r}"
  return ids, objs


def sweep(top, removed_ids):
  """Walk the object graph from top; return a path to a removed object if one is reachable."""
  import types
  from pymtl3.dsl.NamedObject import NamedObject
  seen = set()
  stack = [(top, "top")]
  while stack:
    x, path = stack.pop()
    if id(x) in seen: continue
    seen.add(id(x))
    if id(x) in removed_ids:
      return f"{path} -> {removed_ids[id(x)]}"
    if isinstance(x, NamedObject):
      for k, v in x.__dict__.items():
        if k == "_dsl":
          for kk, vv in v.__dict__.items(): stack.append((vv, f"{path}._dsl.{kk}"))
        else: stack.append((v, f"{path}.{k}"))
    elif isinstance(x, dict):
      for k, v in x.items():
        stack.append((k, f"{path}<key>")); stack.append((v, f"{path}[{_short(k)}]"))
    elif isinstance(x, (list, tuple, set, frozenset)):
      for i, v in enumerate(x): stack.append((v, f"{path}[{i}]" if isinstance(x, (list, tuple)) else f"{path}{{..}}"))
    elif isinstance(x, types.FunctionType):
      for c in (x.__closure__ or ()):
        try: stack.append((c.cell_contents, f"{path}<closure of {x.__name__}>"))
        except ValueError: pass
    elif isinstance(x, types.MethodType):
      stack.append((x.__self__, f"{path}<bound self>"))
  return None


def _short(k):
  r = repr(k)
  return r if len(r) < 40 else r[:37] + "..."


def simulate(top, seqs):
  """Apply DefaultPassGroup and return the trace of all value signals over the input sequences."""
  from pymtl3 import DefaultPassGroup
  from vt.simutil import make_reader
  top.apply(DefaultPassGroup())
  names_, rd = make_reader(top)
  out = []
  top.sim_reset()
  for seq in seqs:
    for v in seq:
      top.in_ @= v
      top.sim_tick()
      out.append(rd(top))
  return names_, out


BASE = {"a": "Pass", "l0": "Pass", "l1": "Reg", "b": "Pass", "m0": "Pass"}
SEQS = [list(s) for s in itertools.product((0, 5, 10, 15, 3), repeat=2)]


def run_history(hist, acc, do_sim=True):
  """hist: list of (how, pos, clsname). Returns failures [(sig, exp, got, msg)]."""
  fails = []
  cfg = dict(BASE)
  top = D.build(cfg)
  top.elaborate()
  removed_ids = {}
  for how, pos, cname in hist:
    foo = D.locate(top, pos)
    ids, keep = removed_objects(foo)
    removed_ids.update(ids)
    try:
      if how == "cls": top.replace_component(foo, D.CATALOG[cname])
      else: top.replace_component_with_obj(foo, D.CATALOG[cname]())
    except Exception as ex:
      return [(f"replace-raised:{cfg[pos]}->{cname}@{pos}", "replacement succeeds", f"{type(ex).__name__}: {str(ex)[:160]}", "")], cfg
    cfg[pos] = cname
    # objects of the *new* subtree may legitimately reuse ids only if the old ones were freed; we hold `keep` so they are not
    removed_ids["_keep_%d" % len(removed_ids)] = keep
  removed_ids = {k: v for k, v in removed_ids.items() if isinstance(k, int)}
  fresh = D.build(cfg)
  fresh.elaborate()
  last = hist[-1] if hist else None
  tag = f"{last[2]}@{last[1]}" if last else "none"
  try:
    ma, mb = meta(top), meta(fresh)
  except Exception as ex:
    return [(f"metadata-query-raised:{tag}", "queries work", f"{type(ex).__name__}: {str(ex)[:160]}", "")], cfg
  for k in mb:
    if ma[k] != mb[k]:
      a, b = set(map(repr, ma[k])), set(map(repr, mb[k]))
      fails.append((f"meta:{k}:{_diffkind(a, b)}:{tag}", sorted(b - a)[:3], sorted(a - b)[:3],
                    f"{k}: only in from-scratch build = expected side, only in mutated design = observed side"))
  path = sweep(top, removed_ids)
  if path:
    fails.append((f"stale-reference:{_pathkind(path)}:{tag}", "removed objects unreachable", path[:300], ""))
  if do_sim and not any(f[0].startswith("meta:components") for f in fails):
    try:
      na, ta = simulate(top, SEQS)
    except Exception as ex:
      na, ta = None, f"{type(ex).__name__}: {str(ex)[:160]}"
    nb, tb = simulate(fresh, SEQS)
    if na != nb or ta != tb:
      if isinstance(ta, str): fails.append((f"sim:mutated-design-raised:{tag}", "simulates like the from-scratch design", ta, ""))
      elif na != nb: fails.append((f"sim:signal-sets-differ:{tag}", len(nb), len(na), ""))
      else:
        i = next(i for i, (x, y) in enumerate(zip(ta, tb)) if x != y)
        d = [(n, y, x) for n, x, y in zip(na, ta[i], tb[i]) if x != y][:4]
        fails.append((f"sim:trace-differs:{tag}", {n: e for n, e, o in d}, {n: o for n, e, o in d}, f"cycle {i}"))
  return fails, cfg


def _diffkind(a, b):
  if a - b and b - a: return "differs"
  return "extra-in-mutated" if a - b else "missing-in-mutated"


def _pathkind(path):
  import re
  m = re.search(r"_dsl\.(\w+)", path)
  return m.group(1) if m else "attr"


def letters():
  return [(how, pos, c) for how in ("cls", "obj") for pos in D.POSITIONS for c in D.CATALOG if pos in D.ONLY_AT.get(c, D.POSITIONS)]


def histories(tier):
  L = letters()
  H = [[l] for l in L]
  L1 = [l for l in L if l[0] == "cls"]
  H += [[a, b] for a in L1 for b in L1]
  if tier == "thorough":
    H += [[a, b] for a in L for b in L if a[0] == "obj" or b[0] == "obj"]
    H += [[a, b, c] for a in L1 for b in L1 for c in L1]
  return H


def check_foreign_reference(acc):
  """a component that keeps a reference to a SIBLING's port (handed to its constructor) is replaced: the sibling's port stays what it
  is, and the design simulates like the one built directly, for every input value"""
  from pymtl3 import Component, InPort, OutPort, Bits4, update, DefaultPassGroup
  from pymtl3.dsl.Connectable import Signal

  class FA(Component):
    def construct(s):
      s.in_ = InPort(Bits4); s.out = OutPort(Bits4)
      @update
      def up_a(): s.out @= s.in_ + 1

  def mk(inc):
    class FB(Component):
      def construct(s, ext):
        s.in_ = InPort(Bits4); s.out = OutPort(Bits4)
        s.ext = ext                       # just another reference to the sibling's out port
        @update
        def up_b(): s.out @= s.in_ + s.ext + inc
    FB.__name__ = f"FB{inc}"
    return FB
  B1, B2 = mk(1), mk(2)

  class FTop(Component):
    def construct(s, X):
      s.in_ = InPort(Bits4); s.out = OutPort(Bits4); s.o2 = OutPort(Bits4)
      s.a = FA(); s.a.in_ //= s.in_
      s.b = X(s.a.out); s.b.in_ //= s.in_
      s.out //= s.b.out; s.o2 //= s.a.out

  def sim(top):
    top.apply(DefaultPassGroup()); top.sim_reset()
    res = []
    for v in range(16):
      top.in_ @= v; top.sim_tick(); res.append((int(top.out), int(top.o2)))
    return res

  case = dict(hand="foreign-reference")
  want = [((v + (v + 1) + 2) & 15, (v + 1) & 15) for v in range(16)]
  direct = FTop(B2); direct.elaborate()
  if sim(direct) != want: raise MachineryError("the directly built design does not follow the hand-computed values")
  top = FTop(B1); top.elaborate()
  acc.count("executions"); acc.count("transitions")
  try:
    top.replace_component(top.b, B2)
  except Exception as ex:
    acc.violation("foreign-reference:replace-raised", case, "replacement succeeds", f"{type(ex).__name__}: {str(ex)[:120]}"); return
  sigs = {repr(x) for x in top.get_all_object_filter(lambda x: isinstance(x, Signal))}
  if repr(top.a.out) != "s.a.out" or "s.a.out" not in sigs:
    acc.violation("foreign-reference:sibling-port-deleted", case, "s.a.out untouched", repr(top.a.out)); return
  got = sim(top)
  if got != want: acc.violation("foreign-reference:sim-differs", case, want[:4], got[:4])


def shards(tier):
  n = len(histories(tier))
  k = 32
  return [(i, k) for i in range(k)] + [("hand", 0)]


def run_shard(shard, tier, seed):
  acc = Acc()
  if shard[0] == "hand":
    check_foreign_reference(acc)
    return acc
  H = histories(tier)
  for j in range(shard[0], len(H), shard[1]):
    hist = H[j]
    fails, cfg = run_history(hist, acc)
    acc.count("executions"); acc.count("transitions", len(hist))
    acc.add("configs", tuple(sorted(cfg.items())))
    if any(BASE[p] != c for h, p, c in hist): acc.add("nontrivial", tuple(map(tuple, hist)))
    for f in fails:
      acc.violation(f[0], dict(hist=[list(h) for h in hist]), f[1], f[2], f[3])
    if j % 300 == 0: acc.sample(dict(history=[list(h) for h in hist], resulting_config=cfg))
  return acc


def replay(case):
  if case.get("hand"):
    acc = Acc(); check_foreign_reference(acc)
    return [(v["sig"], v["expected"], v["observed"], v["msg"]) for v in acc.violations]
  fails, _ = run_history([tuple(h) for h in case["hist"]], Acc())
  return fails


def finish(acc, tier):
  if acc.size("configs") < 20: raise MachineryError("too few configurations reached")
  return dict(
    states=acc.size("configs"), transitions=int(acc.n["transitions"]),
    traces_validated_against_impl=int(acc.n["executions"]),
    evaluations=int(acc.n["executions"]), distinct_nontrivial=acc.size("nontrivial"),
    rule="states = distinct configurations (class at each of 4 positions) reached; one execution = one history of replacements applied to a real elaborated design, "
         "compared with the from-scratch build (metadata, simulation, reachability); non-trivial = histories that change at least one class",
    exhaustive=True, bounds=dict(history_length=2 if tier == "quick" else 3, positions=list(D.POSITIONS), classes=sorted(D.CATALOG)),
  )
