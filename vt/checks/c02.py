"""C02 -- within a cycle every reader runs after its writer, in every scheduler.

The executed order of update blocks / net blocks inside one
sim_eval_combinational() and one sim_tick() is recorded with sys.setprofile on
the blocks' code objects (for CL/FL designs the blocks log themselves) and
checked against bit-level read/write sets computed from the IR alone.
"""
import itertools
import sys

from pymtl3 import Component, update, update_once, U, M, WR, RD, bitstruct, Wire, OutPort, InPort, Bits4, blocking, non_blocking, method_port

from vt import ir, irgen, irref
from vt.acc import Acc, MachineryError
from vt.dut import Dut, GROUPS
from vt.explore import choice_dfs

PROPERTY = "C02"
LEVEL = "model_checking"
ASSUMPTIONS = [
  "read/write bit sets of user blocks and nets are computed from the design IR (vt/ir.py), not from pymtl3 metadata; "
  "net blocks are only *identified* through top._dag.genblk_writes (reader name set)",
  "a variable index counts as reading/writing every element it may select",
  "execution order is observed with sys.setprofile on the code objects of the scheduled blocks; CL/FL blocks log themselves",
  "a design with signal-free cyclic constraints counts as rejected when scheduling raises any exception (in this sandbox the "
  "acyclic-only passes raise FileNotFoundError from graphviz' dump_dag before reaching their UpblkCyclicError)",
  "designs: all E2 families of C01 + explicit-constraint designs + CL queue callers + FL (blocking, greenlet-wrapped) designs",
]


# ------------------------------------------------------------------ IR side: blocks, nets, required order

def abs_name(cpath, r):
  return ir.e_ref(("ref", tuple(cpath) + tuple(r[1]), r[2], r[3]))


def ir_model(d):
  """-> (blocks: {key: (R bits, W bits, kind)}, nets: [(writer name|None, frozenset(reader names), R bits, W bits)])"""
  blocks = {}
  for path, cmp in ir.walk_comps(d):
    host = "s" + "".join("." + p for p in path)
    for blk in cmp.get("blocks", []):
      R, W = ir.block_bits(d, path, blk)
      blocks[f"{host}:{blk[0]}"] = (R, W, blk[1])
  rs = irref.RefSim(d, check_unique=False)
  # group oriented connections into nets (connected components over absolute names)
  parent = {}
  def find(x):
    while parent.setdefault(x, x) != x:
      parent[x] = parent[parent[x]]; x = parent[x]
    return x
  info = {}
  consts = {}
  for path, dst, src in rs.conns:
    dn = abs_name(path, dst)
    info[dn] = ir.ref_bits(d, path, dst)
    if src[0] == "ref":
      sn = abs_name(path, src)
      info[sn] = ir.ref_bits(d, path, src)
      parent[find(dn)] = find(sn)
    else:
      consts[find(dn)] = True
      find(dn)
  dsts = {abs_name(p, dd) for p, dd, s in rs.conns}
  groups = {}
  for n in info: groups.setdefault(find(n), []).append(n)
  nets = []
  for root, members in groups.items():
    writers = [m for m in members if m not in dsts]
    isconst = any(find(m) in consts for m in members) and not writers
    if isconst:
      nets.append((None, frozenset(members), set(), set().union(*[info[m] for m in members])))
      continue
    if len(writers) != 1: raise MachineryError(f"net without unique writer: {members}")
    w = writers[0]
    readers = frozenset(m for m in members if m != w)
    nets.append((w, readers, set(info[w]), set().union(*[info[m] for m in readers])))
  # implicit clk / reset distribution nets (one each, all descendants are readers); they carry no ordering
  # obligation in this model (reset is a single global input in the IR) but must run exactly once
  desc = ["s" + "".join("." + p for p in path) for path, _ in ir.walk_comps(d) if path]
  if desc:
    for sig in ("clk", "reset"):
      nets.append((f"s.{sig}", frozenset(f"{h}.{sig}" for h in desc), set(), set()))
  return blocks, nets


def netkey(readers):
  return "net->" + "|".join(sorted(readers))


def required_pairs(blocks, nets, inversions=()):
  """All (A, B) with W(A) & R(B) nonempty among comb blocks and nets -> A before B."""
  nodes = {k: (R, W) for k, (R, W, kind) in blocks.items() if kind == "comb"}
  for i, (w, readers, R, W) in enumerate(nets):
    nodes[netkey(readers)] = (R, W)
  req = []
  for a, (Ra, Wa) in nodes.items():
    for b, (Rb, Wb) in nodes.items():
      if a != b and Wa & Rb and (b, a) not in inversions and (a, b) not in inversions:
        req.append((a, b))
  for a, b in inversions: req.append((a, b))
  return nodes, req


# ------------------------------------------------------------------ observing the real order

class Recorder:
  def __init__(self, dut):
    top = dut.top
    self.codes = {}
    self.seq = []
    self.names = {}
    ffs = top.get_all_update_ff()
    for blk in top._dag.final_upblks:
      base = blk
      code = getattr(base, "__code__", None)
      if code is None: continue
      if blk in top._dag.genblks:
        readers = frozenset(repr(x) for x in top._dag.genblk_writes[blk])
        self.codes.setdefault(code, []).append((None, netkey(readers)))
      else:
        host = top.get_update_block_host_component(blk)
        self.codes.setdefault(code, []).append((id(host), f"{host!r}:{blk.__name__}"))

  def _prof(self, frame, event, arg):
    if event == "call":
      ent = self.codes.get(frame.f_code)
      if ent:
        if len(ent) == 1: self.seq.append(ent[0][1])
        else:
          s = frame.f_locals.get("s")
          for hid, key in ent:
            if hid == id(s): self.seq.append(key); break

  def record(self, fn):
    self.seq = []
    sys.setprofile(self._prof)
    try: fn()
    finally: sys.setprofile(None)
    return self.seq


def check_order(seq, nodes, req, ffkeys, what, passes_expected):
  """seq: executed keys. Splits at ff blocks into comb passes and checks each."""
  fails = []
  passes, cur = [], []
  seen_ff = []
  for k in seq:
    if k in ffkeys:
      if cur or not passes: passes.append(cur); cur = []
      seen_ff.append(k)
    else: cur.append(k)
  passes.append(cur)
  if not ffkeys:
    n = len(nodes)
    passes = [seq[i:i + n] for i in range(0, len(seq), n)] if n else [[]] * passes_expected
  if ffkeys and sorted(seen_ff) != sorted(ffkeys):
    fails.append((f"{what}:ff-blocks-not-once", sorted(ffkeys), seen_ff, ""))
  if len(passes) != passes_expected:
    fails.append((f"{what}:pass-count", passes_expected, len(passes), str(seq)[:300]))
  for p in passes:
    if sorted(p) != sorted(nodes):
      fails.append((f"{what}:not-exactly-once", len(nodes), len(p), f"missing={[str(x)[:40] for x in set(nodes) - set(p)][:3]} pass={[str(x)[:30] for x in p]}"))
      continue
    pos = {k: i for i, k in enumerate(p)}
    for a, b in req:
      if pos[a] > pos[b]:
        fails.append((f"{what}:reader-before-writer", f"{_s(a)} before {_s(b)}", f"{_s(b)} ran first", f"order={[_s(x) for x in p]}"))
        break
  return fails


def _s(k):
  return k


HASH_PERMS = (None, (7919, 1), (104729, 2), (999983, 5))


def check_ir_design(name, d, acc, groups=GROUPS, inversions=(), seam=True, perms=(0,), seam_cap=40):
  blocks, nets = ir_model(d)
  nodes, req = required_pairs(blocks, nets, inversions)
  ffkeys = {k for k, v in blocks.items() if v[2] == "ff"}
  names, vecs = (lambda ns: (ns[0], ns[1]))(_inputs(d))
  sensitive = len(req) > 0
  base = dict(design=name, ir=d, inversions=[list(map(_enc, p)) for p in inversions])

  def one(dut, what, extra):
    rec = Recorder(dut)
    dut.set_inputs(dict(zip(names, vecs[len(vecs) // 3])))
    seq1 = rec.record(dut.eval_comb)
    fails = check_order(seq1, nodes, req, set(), what + ":eval", 1)
    dut.set_inputs(dict(zip(names, vecs[-1])))
    seq2 = rec.record(dut.tick)
    fails += check_order(seq2, nodes, req, ffkeys, what + ":tick", 2)
    for f in fails:
      # explicit-constraint designs carry their name in the signature (known findings are keyed by it); families by their first word
      acc.violation(f[0] + (":" + name if name.startswith("explicit:") else ""), dict(base, **extra), f[1], f[2], f[3])
    acc.count("executions"); acc.count("order_checks", 3)
    acc.add("orders", (name, tuple(map(str, seq1))))
    return seq1

  import contextlib
  from vt import seams
  for hp in perms:
    # the order in which GenDAGPass and the schedulers meet blocks, signals and constraints follows set iteration order:
    # object-hash permutations reach tie-breaks that one process never shows
    mkctx = (lambda: contextlib.nullcontext()) if HASH_PERMS[hp] is None else (lambda m=HASH_PERMS[hp]: seams.hash_seam(lambda o, i: (i * m[0] + m[1]) % 1000003))
    for g in groups:
      dut = None
      try:
        with mkctx():
          dut = Dut(d, g, shuffle=(lambda n: 0))
        one(dut, f"group:{g}", dict(mode="group", group=g, hp=hp))
      except Exception as ex:
        acc.violation(f"group:{g}:raised", dict(base, mode="group", group=g, hp=hp), "schedulable", repr(ex)[:200])
      finally:
        if dut: dut.close()
  if seam:
    def run(cr):
      dd = Dut(d, "simple", shuffle=lambda n: cr.choose(n, 0))
      try: return tuple(map(str, one(dd, "simple-seam", dict(mode="seam", choices=[p[1] for p in cr.points]))))
      finally: dd.close()
    n = 0
    for choices, order in choice_dfs(run, bound=None, cap=seam_cap):
      n += 1
    acc.count("seam_schedules", n)
  acc.count("designs")
  if sensitive: acc.add("designs_with_required_pairs", name)
  acc.count("required_pairs", len(req))


def _enc(k): return k
def _dec(k): return k


def _inputs(d):
  ins = [(n, ir.width(t)) for n, k, t, dims in d["sigs"] if k == "in" and not dims]
  names = [n for n, _ in ins]
  vecs = list(itertools.product(*[range(1 << w) for _, w in ins])) or [()]
  return names, vecs


# ------------------------------------------------------------------ explicit-constraint designs (IR)

def f_explicit():
  from vt.ir import B, ref, c
  base = lambda: [("in_", "in", B(4), ()), ("X", "wire", B(4), ()), ("Y", "wire", B(4), ()), ("out", "out", B(4), ())]
  wr = ("up_w", "comb", [("=", ref("X"), ("bin", "+", ref("in_"), c(4, 1)))])
  rd = ("up_r", "comb", [("=", ref("Y"), ("un", "~", ref("X")))])
  o = ("up_o", "comb", [("=", ref("out"), ref("Y"))])
  ind = ("up_i", "comb", [("=", ref("out"), ref("in_"))])
  # 1. plain
  yield "explicit:none", irgen.comp("Ex0", base(), blocks=[o, rd, wr]), ()
  # 2. redundant explicit constraint
  yield "explicit:same-direction", irgen.comp("Ex1", base(), blocks=[o, rd, wr], constraints=[(("U", "up_w"), ("U", "up_r"))]), ()
  # 3. explicit inversion of an implicit edge: reader deliberately first
  yield "explicit:inverted-UU", irgen.comp("Ex2", base(), blocks=[o, rd, wr], constraints=[(("U", "up_r"), ("U", "up_w"))]), (("s:up_r", "s:up_w"),)
  # 4. inversion through RD(x) < U(writer)
  yield "explicit:inverted-RD", irgen.comp("Ex3", base(), blocks=[o, rd, wr], constraints=[(("RD", ref("X")), ("U", "up_w"))]), (("s:up_r", "s:up_w"),)
  # 5. inversion through U(reader) < WR(x)
  yield "explicit:inverted-WR", irgen.comp("Ex4", base(), blocks=[o, rd, wr], constraints=[(("U", "up_r"), ("WR", ref("X")))]), (("s:up_r", "s:up_w"),)
  # 5b. the same inversions when the writer writes the signal slice by slice / the reader reads a slice of it
  wr_s = ("up_w", "comb", [("=", ref("X", ("s", 0, 2)), ref("in_", ("s", 0, 2))), ("=", ref("X", ("s", 2, 4)), ref("in_", ("s", 2, 4)))])
  rd_s = ("up_r", "comb", [("=", ref("Y"), ("call", "zext", ref("X", ("s", 1, 3)), ("n", 4)))])
  yield "explicit:inverted-WR:sliced-writer", irgen.comp("Ex4s", base(), blocks=[o, rd, wr_s], constraints=[(("U", "up_r"), ("WR", ref("X")))]), (("s:up_r", "s:up_w"),)
  yield "explicit:inverted-RD:sliced-reader", irgen.comp("Ex3s", base(), blocks=[o, rd_s, wr], constraints=[(("RD", ref("X")), ("U", "up_w"))]), (("s:up_r", "s:up_w"),)
  # 6. ordering of two otherwise independent blocks
  sig2 = [("in_", "in", B(4), ()), ("A", "wire", B(4), ()), ("Bw", "wire", B(4), ()), ("out", "out", B(4), ())]
  a = ("up_a", "comb", [("=", ref("A"), ref("in_"))])
  b = ("up_b", "comb", [("=", ref("Bw"), ("un", "~", ref("in_")))])
  for x, y in (("up_a", "up_b"), ("up_b", "up_a"), ("up_i", "up_a"), ("up_b", "up_i")):
    yield f"explicit:independent:{x}<{y}", irgen.comp("Ex5", sig2, blocks=[ind, b, a], constraints=[(("U", x), ("U", y))]), ((f"s:{x}", f"s:{y}"),)
  # 7. chain of three explicit constraints on independent blocks
  yield "explicit:chain3", irgen.comp("Ex6", sig2, blocks=[a, ind, b], constraints=[(("U", "up_b"), ("U", "up_i")), (("U", "up_i"), ("U", "up_a"))]), (("s:up_b", "s:up_i"), ("s:up_i", "s:up_a"))


def f_cyclic_constraints():
  """Cyclic constraints that carry no signal: must be rejected by every pass."""
  from vt.ir import B, ref, c
  sig2 = [("in_", "in", B(4), ()), ("A", "wire", B(4), ()), ("Bw", "wire", B(4), ()), ("out", "out", B(4), ())]
  a = ("up_a", "comb", [("=", ref("A"), ref("in_"))])
  b = ("up_b", "comb", [("=", ref("Bw"), ("un", "~", ref("in_")))])
  ind = ("up_i", "comb", [("=", ref("out"), ref("in_"))])
  yield "cyclic:2", irgen.comp("Cy2", sig2, blocks=[a, b, ind], constraints=[(("U", "up_a"), ("U", "up_b")), (("U", "up_b"), ("U", "up_a"))])
  yield "cyclic:3", irgen.comp("Cy3", sig2, blocks=[a, b, ind], constraints=[(("U", "up_a"), ("U", "up_b")), (("U", "up_b"), ("U", "up_i")), (("U", "up_i"), ("U", "up_a"))])
  # contradictory ORDERING constraints in which one edge mentions a signal: no value flows round the cycle, iterating cannot help
  yield "cyclic:WR-U+U-U", irgen.comp("Cy4", sig2, blocks=[a, b, ind], constraints=[(("WR", ref("A")), ("U", "up_b")), (("U", "up_b"), ("U", "up_a"))])
  r = ("up_r", "comb", [("=", ref("Bw"), ref("A"))])
  yield "cyclic:data+U-U+U-U", irgen.comp("Cy5", sig2, blocks=[a, r, ind], constraints=[(("U", "up_r"), ("U", "up_i")), (("U", "up_i"), ("U", "up_a"))])


def check_cyclic(name, d, acc):
  from pymtl3.dsl.errors import UpblkCyclicError
  for g in GROUPS:
    try:
      dut = Dut(d, g, shuffle=(lambda n: 0))
      dut.close()
      acc.violation(f"cyclic-constraints:{g}:accepted", dict(design=name, ir=d, mode="cyclic", group=g), "UpblkCyclicError", "scheduled")
    except UpblkCyclicError:
      acc.count("cyclic_rejected")
    except Exception as ex:
      # the statement asks for "an error". Simple/HeuristicTopo call dump_dag() (graphviz render) before raising
      # UpblkCyclicError; without a `dot` binary that raises FileNotFoundError first. Still a rejection.
      acc.count("cyclic_rejected"); acc.count("cyclic_rejected_with_" + type(ex).__name__)
    acc.count("executions")
  acc.count("designs")


# ------------------------------------------------------------------ CL / FL designs (real classes; blocks log themselves)

class _Src(Component):
  @blocking
  def nxt(s):
    s.n = (s.n * 7 + 3) % 13
    return s.n

  def construct(s):
    s.n = 1


class _Const(Component):
  @blocking
  def get(s):
    return s.k

  def construct(s, k):
    s.k = k


class FLDesign(Component):
  """Blocks that call blocking (FL) methods are wrapped in greenlets. variant selects which
  blocks of a writer/reader pair and of an explicitly ordered pair make a blocking call."""
  def construct(s, wb, rb, fb, sb):
    s.src = _Src()
    s.k = _Const(3)
    s.mid = Wire(Bits4)
    s.out = [OutPort(Bits4) for _ in range(2)]
    s.log = []

    if rb:
      @update_once
      def up_cons0():
        s.log.append("up_cons0"); s.out[0] @= s.mid + s.k.get()
      @update_once
      def up_cons1():
        s.log.append("up_cons1"); s.out[1] @= s.mid + s.k.get()
    else:
      @update_once
      def up_cons0():
        s.log.append("up_cons0"); s.out[0] @= s.mid + 1
      @update_once
      def up_cons1():
        s.log.append("up_cons1"); s.out[1] @= s.mid + 2
    if wb:
      @update_once
      def up_prod():
        s.log.append("up_prod"); s.mid @= s.src.nxt()
    else:
      @update_once
      def up_prod():
        s.log.append("up_prod"); s.mid @= s.mid + 1
    if sb:
      @update_once
      def up_second():
        s.log.append("up_second"); s.k.get()
    else:
      @update_once
      def up_second():
        s.log.append("up_second")
    if fb:
      @update_once
      def up_first():
        s.log.append("up_first"); s.k.get()
    else:
      @update_once
      def up_first():
        s.log.append("up_first")
    s.add_constraints(U(up_first) < U(up_second))


class CLCallers(Component):
  """Two update_once callers around a CL queue: method constraints must order the callers."""
  def construct(s, Q, n):
    s.dut = Q(n)
    s.log = []

    @update_once
    def up_enq():
      s.log.append("up_enq")
      if s.dut.enq.rdy(): s.dut.enq(1)

    @update_once
    def up_deq():
      s.log.append("up_deq")
      if s.dut.deq.rdy(): s.dut.deq()


class OnceNoMethods(Component):
  """update_once blocks in a design WITHOUT method ports: every simulator must run them once per sim_tick"""
  def construct(s, n):
    s.in_ = InPort(Bits4)
    s.mid = Wire(Bits4)
    s.out = OutPort(Bits4)
    s.log = []

    @update_once
    def up_once_a():
      s.log.append("up_once_a"); s.mid @= s.in_ + 1

    if n == 2:
      @update_once
      def up_once_b():
        s.log.append("up_once_b"); s.out @= s.mid + 1
    else:
      @update
      def up_plain():
        s.log.append("up_plain"); s.out @= s.mid + 1


class _MReg(Component):
  def construct(s):
    s.v = 0
    s.add_constraints(M(s.wr) < M(s.rd))

  @method_port
  def wr(s, v):
    s.v = v

  @method_port
  def rd(s):
    return s.v


class FuncMethodCall(Component):
  """a method port called inside an @s.func function: the ordering constraint between the methods must reach the block that
  calls the function (direct=1: the same call written in the block itself)"""
  def construct(s, direct):
    s.r = _MReg()
    s.cnt = 0
    s.got = 0
    s.log = []

    @s.func
    def do_write(v):
      s.r.wr(v)

    if direct:
      @update_once
      def up_wr():
        s.log.append("up_wr"); s.cnt += 1; s.r.wr(s.cnt)
    else:
      @update_once
      def up_wr():
        s.log.append("up_wr"); s.cnt += 1; do_write(s.cnt)

    @update_once
    def up_rd():
      s.log.append("up_rd"); s.got = s.r.rd()


@bitstruct
class _WSt:
  x: Bits4
  y: Bits4


class _WProd(Component):
  def construct(s, log, variant="whole"):
    s.in_ = InPort(Bits4)
    s.out = OutPort(_WSt if variant == "field" else Bits4)

    if variant == "field":
      @update
      def up_prod():
        log.append("up_prod"); s.out.x @= s.in_ + 1; s.out.y @= 0
    else:
      @update
      def up_prod():
        log.append("up_prod"); s.out @= s.in_ + 1

    if variant == "rdnet":
      s.add_constraints(RD(s.out) < U(up_prod))        # whoever reads the port (through the connection) runs BEFORE it is written


class _WCons(Component):
  def construct(s, log, variant="whole"):
    s.in_ = InPort(_WSt if variant == "field" else Bits4)
    s.seen = OutPort(Bits4)

    if variant == "field":
      @update
      def up_sample():
        log.append("up_sample"); s.seen @= s.in_.x
      s.add_constraints(U(up_sample) < WR(s.in_.x))    # ... a FIELD of the port that is connected as a whole
    else:
      @update
      def up_sample():
        log.append("up_sample"); s.seen @= s.in_
      if variant == "whole":
        s.add_constraints(U(up_sample) < WR(s.in_))      # sample the port BEFORE it is written in this evaluation


class WrPortThroughNet(Component):
  """an explicit inversion U(blk) < WR(port) on a port that is driven through a connection: the value reaches the port when the
  block that writes the other end of the net runs, so that block has to come after blk"""
  def construct(s, variant="whole"):
    s.log = []
    s.in_ = InPort(Bits4)
    s.seen = OutPort(Bits4)
    s.p = _WProd(s.log, variant)
    s.c = _WCons(s.log, variant)
    s.p.in_ //= s.in_
    s.c.in_ //= s.p.out
    s.seen //= s.c.seen


class _EqQ(Component):
  def construct(s):
    s.v = None
    s.add_constraints(M(s.enq) < M(s.deq))
  @method_port
  def enq(s, x): s.v = x
  @method_port
  def deq(s):
    x = s.v
    s.v = None
    return x


class _EqIn(Component):
  def construct(s):
    from pymtl3 import CallerPort
    s.send = CallerPort()
    s.add_constraints(M(s.recv) == M(s.send))
  @method_port
  def recv(s, x): s.send(x)


class _EqOut(Component):
  def construct(s):
    from pymtl3 import CallerPort
    s.src = CallerPort()
    s.add_constraints(M(s.get) == M(s.src))
  @method_port
  def get(s): return s.src()


def _mk_equiv(pin, pout):
  """recv == enq < deq == get: a method ordering whose ends are reached through M(x) == M(y) pass-throughs on the producer side, the
  consumer side or both (one class per variant: block sources are cached per class and block name)"""
  class EquivChain(Component):
    def construct(s):
      s.log = []
      s.q = _EqQ()
      s.got = None
      if pin:
        s.pi = _EqIn(); s.pi.send //= s.q.enq
      if pout:
        s.po = _EqOut(); s.po.src //= s.q.deq

      if pout:
        @update_once
        def up_cons():
          s.log.append("up_cons"); s.got = s.po.get()
      else:
        @update_once
        def up_cons():
          s.log.append("up_cons"); s.got = s.q.deq()

      if pin:
        @update_once
        def up_prod():
          s.log.append("up_prod"); s.pi.recv(5)
      else:
        @update_once
        def up_prod():
          s.log.append("up_prod"); s.q.enq(5)
  return EquivChain


_EQUIV = {}


def EquivChain(pin, pout):
  if (pin, pout) not in _EQUIV: _EQUIV[(pin, pout)] = _mk_equiv(pin, pout)
  return _EQUIV[(pin, pout)]()


def handwritten_cases():
  for pin, pout in ((1, 0), (0, 1), (1, 1)):
    yield ("equiv", (pin, pout))
  for variant in ("whole", "field", "rdnet"):
    yield ("wrport", (variant,))
  for n in (1, 2):
    yield ("once", (n,))
  for direct in (1, 0):
    yield ("funcm", (direct,))
  for wb, rb, fb, sb in itertools.product((0, 1), repeat=4):
    yield ("fl", (wb, rb, fb, sb))
  for q in ("PipeQueueCL", "BypassQueueCL", "NormalQueueCL"):
    for n in (1, 2):
      yield ("cl", (q, n))


HW_GROUPS = ("default", "simple", "unroll", "heutopo", "mamba")


def build_hw(kind, args, group, chooser=None):
  from pymtl3.passes.PassGroups import DefaultPassGroup, SimpleSimPass
  from pymtl3.passes.mamba.PassGroups import UnrollSim, HeuTopoUnrollSim, Mamba2020
  from vt import seams
  import pymtl3.stdlib.queues.cl_queues as clq
  top = EquivChain(*args) if kind == "equiv" else WrPortThroughNet(*args) if kind == "wrport" else FLDesign(*args) if kind == "fl" else (OnceNoMethods(*args) if kind == "once" else (FuncMethodCall(*args) if kind == "funcm" else CLCallers(getattr(clq, args[0]), args[1])))
  top.elaborate()
  with seams.shuffle_seam(chooser):
    if group == "default": top.apply(DefaultPassGroup())
    elif group == "simple": top.apply(SimpleSimPass())
    elif group == "heutopo": top.apply(HeuTopoUnrollSim(print_line_trace=False))
    elif group == "mamba": top.apply(Mamba2020(print_line_trace=False))
    else: top.apply(UnrollSim(print_line_trace=False))
  return top


def hw_required(kind, args):
  if kind == "fl":
    return [("up_prod", "up_cons0"), ("up_prod", "up_cons1"), ("up_first", "up_second")], 5
  if kind == "funcm":
    return [("up_wr", "up_rd")], 2
  if kind == "wrport":
    return [("up_sample", "up_prod")], 2
  if kind == "equiv":
    return [("up_prod", "up_cons")], 2
  if kind == "once":
    return [("up_once_a", "up_once_b" if args[0] == 2 else "up_plain")], 2
  q = args[0]
  if q == "PipeQueueCL": return [("up_deq", "up_enq")], 2
  if q == "BypassQueueCL": return [("up_enq", "up_deq")], 2
  return [], 2


def check_hw(kind, args, acc, only_group=None, choices=None):
  req, nblk = hw_required(kind, args)
  case = dict(mode="hw", kind=kind, args=list(args))
  for g in HW_GROUPS:
    if only_group and g != only_group: continue
    def run(cr):
      try:
        top = build_hw(kind, args, g, (lambda n: cr.choose(n, 0)) if g in ("simple", "unroll") else None)
      except Exception as ex:
        acc.violation(f"{kind}:{g}:pass-raised:{args if kind != 'fl' else 'blocking=' + ''.join(map(str, args))}", dict(case, group=g, choices=[p[1] for p in cr.points]),
                      "the design is scheduled", f"{type(ex).__name__}: {str(ex)[:120]}")
        acc.count("executions")
        return ()
      out = []
      top.sim_reset()
      for _ in range(3):
        top.log.clear()
        (top.sim_eval_combinational if kind == "wrport" else top.sim_tick)()      # wrport is pure RTL: sim_tick evaluates twice
        seq = list(top.log)
        out.append(tuple(seq))
        bad = None
        if len(seq) != nblk or len(set(seq)) != nblk: bad = ("not-exactly-once", nblk, seq)
        else:
          pos = {k: i for i, k in enumerate(seq)}
          for a, b in req:
            if pos[a] > pos[b]: bad = ("constraint-violated", f"{a} before {b}", seq); break
        if bad:
          acc.violation(f"{kind}:{g}:{bad[0]}:{args if kind != 'fl' else 'blocking=' + ''.join(map(str, args))}",
                        dict(case, group=g, choices=[p[1] for p in cr.points]), bad[1], bad[2])
          break
      acc.count("executions"); acc.count("order_checks", 3)
      return tuple(out)
    n = 0
    for ch, orders in choice_dfs(run, bound=None, cap=(30 if g in ("simple", "unroll") else 1)):
      if orders: acc.add("orders", (kind, tuple(args), orders[0]))
      n += 1
    acc.count("seam_schedules", n)
  acc.count("designs")
  if req: acc.add("designs_with_required_pairs", f"{kind}:{args}")
  acc.count("required_pairs", len(req))


# ------------------------------------------------------------------ runner API

def work_items(tier):
  items = []
  for name, d in irgen.all_designs():
    items.append(("ir", name))
  for name, d, inv in f_explicit(): items.append(("explicit", name))
  for name, d in f_cyclic_constraints(): items.append(("cyclic", name))
  for kind, args in handwritten_cases(): items.append(("hw", (kind, args)))
  return items


def shards(tier):
  n = len(work_items(tier))
  k = 48
  from vt.checks import c02_openloop
  return [(i, k) for i in range(min(k, n))] + [("openloop", name) for name, *_ in c02_openloop.designs()] + [("openloop", "cyclic")]


def run_shard(shard, tier, seed):
  i, k = shard
  acc = Acc()
  if i == "openloop":
    from vt.checks import c02_openloop
    if k == "cyclic": c02_openloop.check_cyclic(acc)
    else: c02_openloop.explore(tier, acc, only=k)
    return acc
  items = work_items(tier)
  irs = dict(irgen.all_designs())
  expl = {n: (d, inv) for n, d, inv in f_explicit()}
  cyc = dict(f_cyclic_constraints())
  for j in range(i, len(items), k):
    kind, name = items[j]
    if kind == "ir":
      check_ir_design(name, irs[name], acc, seam=(tier == "thorough" or j % 4 == 0), perms=(0,) if tier == "quick" else (0, 1, 2, 3), seam_cap=40 if tier == "quick" else 400)
      if j % 60 == 0: acc.sample(dict(design=name, kind="ir"))
    elif kind == "explicit":
      d, inv = expl[name]
      check_ir_design(name, d, acc, inversions=inv)
      acc.sample(dict(design=name, constraints=[list(map(str, x)) for x in d["constraints"]]))
    elif kind == "cyclic": check_cyclic(name, cyc[name], acc)
    else: check_hw(name[0], name[1], acc)
  return acc


def replay(case):
  acc = Acc()
  mode = case.get("mode")
  if mode in ("openloop", "openloop-cyclic"):
    from vt.checks import c02_openloop
    return c02_openloop.replay(case)
  if mode == "hw":
    check_hw(case["kind"], tuple(case["args"]), acc, only_group=case.get("group"))
  elif mode == "cyclic":
    check_cyclic(case["design"], ir.norm_comp(case["ir"]), acc)
  else:
    d = ir.norm_comp(case["ir"])
    inv = tuple(tuple(p) for p in case.get("inversions", []))
    groups = (case["group"],) if mode == "group" else ()
    check_ir_design(case["design"], d, acc, groups=groups, inversions=inv, seam=(mode == "seam"), perms=(case.get("hp", 0),), seam_cap=400)
  return [(v["sig"], v["expected"], v["observed"], v["msg"]) for v in acc.violations]


def finish(acc, tier):
  nd = acc.size("designs_with_required_pairs")
  if nd < 20: raise MachineryError(f"only {nd} designs with ordering obligations: vacuous")
  if acc.n["cyclic_rejected"] == 0: raise MachineryError("cyclic-constraint designs never exercised")
  return dict(
    states=acc.size("orders"), transitions=int(acc.n["order_checks"]),
    traces_validated_against_impl=int(acc.n["executions"]),
    evaluations=int(acc.n["executions"]), distinct_nontrivial=nd,
    rule="one execution = one (design, pass group or seam schedule) whose eval and tick call sequences were recorded and checked; "
         "states = distinct observed block orders; non-trivial = designs that carry at least one writer-before-reader or explicit obligation",
    exhaustive=True, designs=int(acc.n["designs"]), required_pairs=int(acc.n["required_pairs"]),
    seam_schedules=int(acc.n["seam_schedules"]), cyclic_rejections=int(acc.n["cyclic_rejected"]),
    openloop_call_sequences=int(acc.n["openloop_executions"]), openloop_distinct_event_orders=acc.size("openloop_outcomes"),
    bounds=dict(pass_groups=list(GROUPS), handwritten_groups=list(HW_GROUPS), seam_cap_per_design=40),
  )
