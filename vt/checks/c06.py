"""C06 -- bitstruct packing is a lossless, order-preserving bijection.

Bounded exhaustive enumeration of type shapes x values against vt/layout.py,
plus an explicit-state exploration of copy/assignment histories on two objects
(aliasing) against plain Python trees.
"""
import copy
import itertools

from vt import layout
from vt.acc import Acc, MachineryError

PROPERTY = "C06"
LEVEL = "exploration"
ASSUMPTIONS = [
  "oracle: vt/layout.py (first field most significant, list element 0 least significant, width = sum of leaves)",
  "shapes: <= 3 fields, nesting depth <= 2, leaf widths 1..3, list dims [1] [2] [3] [2,2] [1,2] of Bits or structs, total width <= 12; "
  "both @bitstruct-style (mk_bitstruct) classes; every packed value when width <= 8, boundary patterns above",
  "aliasing: histories of length <= 3 over {@=, <<=, _flip, clone, deepcopy, in-place leaf mutation} on two objects, compared with independent Python trees",
]

B = lambda n: ("B", n)
L = lambda t, n: ("L", t, n)


def dims(t, ds):
  for d in reversed(ds): t = L(t, d)
  return t


INNER = [
  ("S", "In1", (("x", B(1)),)),
  ("S", "In2", (("x", B(2)), ("y", B(1)))),
  ("S", "In3", (("x", B(1)), ("l", L(B(1), 2)))),
]
DIMS = [(1,), (2,), (3,), (2, 2), (1, 2)]


def field_types(full):
  F = [B(1), B(2), B(3)]
  for w in (1, 2):
    for ds in DIMS:
      F.append(dims(B(w), ds))
  F += INNER
  F += [L(INNER[1], 2), dims(INNER[1], (1, 2)), L(INNER[2], 2)]
  if full: return F
  return [B(1), B(3), L(B(2), 2), dims(B(1), (2, 2)), INNER[1], INNER[2], L(INNER[1], 2), dims(B(1), (1, 2))]


def shapes(tier):
  F = field_types(True)
  Fr = field_types(tier == "thorough")
  names = "abc"
  out = []
  for k in (1, 2, 3):
    pool = F if k < 3 else Fr
    for combo in itertools.product(pool, repeat=k):
      t = ("S", "T", tuple((names[i], ft) for i, ft in enumerate(combo)))
      if layout.width(t) <= (12 if tier == "quick" else 14): out.append(t)
  if tier == "thorough":      # four fields over the reduced pool, and a struct nested two levels deep
    for combo in itertools.product(field_types(False), repeat=4):
      t = ("S", "T", tuple(("abcd"[i], ft) for i, ft in enumerate(combo)))
      if layout.width(t) <= 14: out.append(t)
    deep = ("S", "Deep", (("u", INNER[2]), ("v", L(INNER[1], 2))))
    for ft in field_types(False):
      for order in (0, 1):
        fs = (("a", deep), ("b", ft)) if order == 0 else (("a", ft), ("b", deep))
        out.append(("S", "T", fs))
        out.append(("S", "T", fs + (("c", L(deep, 2)),)) if layout.width(("S", "T", fs)) + 2 * layout.width(deep) <= 40 else ("S", "T", fs))
  return out


# ------------------------------------------------------------------ building real classes

_cache = {}
_uid = itertools.count()


def mk_class(t):
  """Real pymtl3 class for a type description (memoised; unique class names per distinct shape)."""
  import pymtl3
  from pymtl3.datatypes import mk_bitstruct, mk_bits
  if t[0] == "B": return mk_bits(t[1])
  if t[0] == "L": return [mk_class(t[1]) for _ in range(t[2])]
  key = repr(t)
  if key not in _cache:
    fields = {fn: mk_class(ft) for fn, ft in t[2]}
    _cache[key] = mk_bitstruct(f"{t[1]}_{next(_uid)}", fields)
  return _cache[key]


def build(t, v):
  """Construct a real value of type t from a value tree through the public constructors."""
  if t[0] == "B": return mk_class(t)(v)
  if t[0] == "L": return [build(t[1], x) for x in v]
  return mk_class(t)(*[build(ft, v[fn]) for fn, ft in t[2]])


def build_ints(t, v):
  """The same value constructed from plain Python ints at the leaves (also inside list arguments)."""
  if t[0] == "B": return v
  if t[0] == "L": return [build_ints(t[1], x) for x in v]
  return mk_class(t)(*[build_ints(ft, v[fn]) for fn, ft in t[2]])


def read(t, obj):
  """Value tree of a real object (through public attributes)."""
  if t[0] == "B": return int(obj)
  if t[0] == "L": return [read(t[1], x) for x in obj]
  return {fn: read(ft, getattr(obj, fn)) for fn, ft in t[2]}


def leaf_obj(obj, path):
  for p in path:
    obj = obj[p] if isinstance(p, int) else getattr(obj, p)
  return obj


FULL_W = [8]        # all packed values are enumerated up to this width (thorough tier: 11)


def values_for(W):
  if W <= FULL_W[0]: return list(range(1 << W))
  M = (1 << W) - 1
  vals = {0, M, int("01" * W, 2) & M, int("10" * W, 2) & M}
  for i in range(W): vals.add(1 << i); vals.add(M ^ (1 << i))
  return sorted(vals)


def check_shape(t, acc):
  from pymtl3.datatypes import Bits
  W = layout.width(t)
  case0 = dict(kind="layout", type=t)
  def fail(sig, b, exp, got, msg=""):
    acc.violation(f"layout:{sig}", dict(case0, b=b), exp, got, msg)
  try:
    T = mk_class(t)
  except Exception as ex:
    fail("class-creation-raised", None, "class", repr(ex)); return
  if T.nbits != W: fail("nbits", None, W, T.nbits)
  leaves = list(layout.leaf_paths(t))
  vals = values_for(W)
  prev = None
  for b in vals:
    acc.count("evaluations")
    want = layout.unpack(t, b)
    try:
      v = T.from_bits(Bits(W, b))
      got = read(t, v)
      if got != want: fail("from_bits", b, want, got); continue
      tb = v.to_bits()
      if tb.nbits != W or int(tb) != b: fail("to_bits-of-from_bits", b, b, int(tb)); continue
      v2 = build(t, want)
      tb2 = v2.to_bits()
      if int(tb2) != b or tb2.nbits != W: fail("to_bits-of-constructed", b, b, int(tb2), f"tree={want}"); continue
      if read(t, T.from_bits(tb2)) != want: fail("roundtrip-value", b, want, read(t, T.from_bits(tb2)))
      try:
        v3 = build_ints(t, want)
        if int(v3.to_bits()) != b or not (v3 == v2) or hash(v3) != hash(v2): fail("constructed-from-ints" + (":list-field" if _has_list(t) else ""), b, b, int(v3.to_bits()))
      except TypeError as ex:
        if "unhashable" not in str(ex): fail("constructed-from-ints:raised", b, "a value", repr(ex)[:120])
      except Exception as ex:
        fail("constructed-from-ints:raised", b, "a value", repr(ex)[:120])
      if not (v == v2) or (v != v2): fail("eq-equal-values", b, True, False)
      try:
        h1, h2 = hash(v), hash(v2)
        if h1 != h2: fail("hash-equal-values-differ", b, h1, h2)
        elif {v: 1}.get(v2) != 1: fail("dict-lookup", b, 1, None)
      except TypeError as ex:
        fail("hash-raises" + (":list-field" if _has_list(t) else ""), b, "hashable", repr(ex))
      if prev is not None:
        if (v == prev) or not (v != prev): fail("eq-different-values", b, False, True)
      prev = v2
      # copies are equal and independent
      for how in ("clone", "deepcopy"):
        c = v.clone() if how == "clone" else copy.deepcopy(v)
        if int(c.to_bits()) != b or not (c == v): fail(f"{how}-value", b, b, int(c.to_bits()))
        for path, w in leaves:
          lo = leaf_obj(c, path)
          old = int(lo)
          lo @= (old + 1) % (1 << w)
          if int(v.to_bits()) != b: fail(f"{how}-aliases-source", b, b, int(v.to_bits()), f"leaf {path}"); break
          lo @= old
      # @= and <<= copy by value
      d = T()
      d @= v
      if int(d.to_bits()) != b: fail("imatmul-value", b, b, int(d.to_bits()))
      d2 = T()
      d2 @= Bits(W, b)
      if int(d2.to_bits()) != b: fail("imatmul-from-bits", b, b, int(d2.to_bits()))
      # a plain int is the packed value, like a Bits object of the struct's width ( reg <<= 0 in a reset branch )
      try:
        d3 = T(); d3 @= b
        if int(d3.to_bits()) != b: fail("imatmul-from-int", b, b, int(d3.to_bits()))
        e3 = T(); e3 <<= b; e3._flip()
        if int(e3.to_bits()) != b: fail("ilshift-from-int", b, b, int(e3.to_bits()))
      except Exception as ex:
        fail("assign-from-int-raised", b, "accepted", repr(ex)[:80])
      if b == 0:
        try:
          d4 = T(); d4 @= (1 << W)
          fail("int-too-wide-accepted", 1 << W, "ValueError", int(d4.to_bits()))
        except ValueError:
          pass
        except Exception as ex:
          fail("assign-from-int-raised", 1 << W, "ValueError", repr(ex)[:80])
      e = T()
      e <<= v
      if int(e.to_bits()) != 0: fail("ilshift-visible-before-flip", b, 0, int(e.to_bits()))
      e._flip()
      if int(e.to_bits()) != b: fail("ilshift-after-flip", b, b, int(e.to_bits()))
      for path, w in leaves:
        lo = leaf_obj(v, path)
        old = int(lo)
        lo @= (old + 1) % (1 << w)
        if int(d.to_bits()) != b or int(e.to_bits()) != b:
          fail("assignment-aliases-source", b, b, (int(d.to_bits()), int(e.to_bits())), f"leaf {path}"); break
        lo @= old
    except Exception as ex:
      fail("raised", b, "no exception", f"{type(ex).__name__}: {str(ex)[:120]}")
  # two type definitions with the SAME class name and the same (name, type) pairs in a different order are different types:
  # each must pack in its own declaration order (a class cache keyed without the order would hand back the first one)
  if len(t[2]) >= 2 and len({fn for fn, _ in t[2]}) == len(t[2]):
    try:
      from pymtl3.datatypes import mk_bitstruct
      nm = f"Perm_{next(_uid)}"
      order1 = list(t[2])
      order2 = list(reversed(t[2]))
      cls1 = mk_bitstruct(nm, {fn: mk_class(ft) for fn, ft in order1})
      cls2 = mk_bitstruct(nm, {fn: mk_class(ft) for fn, ft in order2})
      t2 = ("S", t[1], tuple(order2))
      for b in (vals[1 % len(vals)], vals[-1], vals[len(vals) // 2]):
        acc.count("evaluations")
        tree = layout.unpack(t2, b)
        got = read(t2, cls2.from_bits(Bits(W, b)))
        if got != tree: fail("same-name-permuted-fields:from_bits", b, tree, got, "second definition decoded in the order of the first"); break
        obj = cls2(**{fn: build(ft, tree[fn]) for fn, ft in order2})
        if int(obj.to_bits()) != b: fail("same-name-permuted-fields:to_bits", b, b, int(obj.to_bits()), "second definition packed in the order of the first"); break
        if int(cls1.from_bits(Bits(W, b)).to_bits()) != b: fail("same-name-permuted-fields:first-definition", b, b, int(cls1.from_bits(Bits(W, b)).to_bits())); break
    except Exception as ex:
      fail("same-name-permuted-fields:raised", None, "no exception", f"{type(ex).__name__}: {str(ex)[:120]}")
  acc.count("shapes")
  if len(leaves) >= 2: acc.count("nontrivial_shapes")
  if _has_list(t): acc.count("shapes_with_lists")


def _has_list(t):
  if t[0] == "L": return True
  if t[0] == "S": return any(_has_list(ft) for _, ft in t[2])
  return False


# ------------------------------------------------------------------ aliasing histories (two objects)

ALIAS_SHAPES = [
  ("S", "A1", (("a", B(2)), ("l", L(B(1), 2)))),
  ("S", "A2", (("p", INNER[1]), ("l", L(INNER[0], 2)))),
  ("S", "A3", (("m", dims(B(1), (2, 2))), ("c", B(1)))),
  ("S", "A4", (("q", L(INNER[2], 2)),)),
]


def alias_letters(t):
  leaves = list(layout.leaf_paths(t))
  L_ = [("A@=B",), ("B@=A",), ("A<<=B",), ("B<<=A",), ("Aflip",), ("Bflip",), ("A=cloneB",), ("B=deepcopyA",), ("A@=bits",), ("A=ctorB",)]
  for who in "AB":
    for path, w in leaves:
      L_.append(("mut", who, path))
  return L_


class AliasModel:
  """Reference: independent value trees for cur / next of A and B."""
  def __init__(self, t):
    self.t = t
    z = layout.unpack(t, 0)
    self.cur = {"A": copy.deepcopy(z), "B": layout.unpack(t, (1 << layout.width(t)) - 1)}
    self.nxt = {"A": None, "B": None}

  def apply(self, l):
    k = l[0]
    if k in ("A@=B", "B@=A"):
      d, s = k[0], k[-1]
      self.cur[d] = copy.deepcopy(self.cur[s])
    elif k in ("A<<=B", "B<<=A"):
      d, s = k[0], k[-1]
      self.nxt[d] = copy.deepcopy(self.cur[s])
    elif k in ("Aflip", "Bflip"):
      d = k[0]
      if self.nxt[d] is None: return False
      self.cur[d] = copy.deepcopy(self.nxt[d])
    elif k in ("A=cloneB", "A=ctorB"):
      self.cur["A"] = copy.deepcopy(self.cur["B"]); self.nxt["A"] = None
    elif k == "B=deepcopyA":
      self.cur["B"] = copy.deepcopy(self.cur["A"]); self.nxt["B"] = None
    elif k == "A@=bits":
      self.cur["A"] = layout.unpack(self.t, 5 % (1 << layout.width(self.t)))
    elif k == "mut":
      _, who, path = l
      w = dict(layout.leaf_paths(self.t))[tuple(path)]
      layout.put(self.cur[who], path, (layout.get(self.cur[who], path) + 1) % (1 << w))
    return True


def alias_run(t, hist):
  """Replay hist on fresh real objects; returns (real observation, model observation) or None if not enabled."""
  from pymtl3.datatypes import Bits
  T = mk_class(t)
  W = layout.width(t)
  o = {"A": T(), "B": T.from_bits(Bits(W, (1 << W) - 1))}
  m = AliasModel(t)
  for l in hist:
    l = tuple(tuple(x) if isinstance(x, list) else x for x in l)
    if not m.apply(l): return None
    k = l[0]
    if k in ("A@=B", "B@=A"): o[k[0]] @= o[k[-1]]
    elif k in ("A<<=B", "B<<=A"): o[k[0]] <<= o[k[-1]]
    elif k in ("Aflip", "Bflip"): o[k[0]]._flip()
    elif k == "A=cloneB": o["A"] = o["B"].clone()
    elif k == "A=ctorB": o["A"] = T(*[getattr(o["B"], f) for f in T.__bitstruct_fields__])      # a new value built from the field objects of B
    elif k == "B=deepcopyA": o["B"] = copy.deepcopy(o["A"])
    elif k == "A@=bits": o["A"] @= Bits(W, 5 % (1 << W))
    elif k == "mut":
      lo = leaf_obj(o[l[1]], l[2])
      w = dict(layout.leaf_paths(t))[tuple(l[2])]
      lo @= (int(lo) + 1) % (1 << w)
  real = (read(t, o["A"]), read(t, o["B"]))
  return real, (m.cur["A"], m.cur["B"]), (m.nxt["A"] is not None, m.nxt["B"] is not None)


def alias_explore(t, depth, acc):
  letters = alias_letters(t)
  frontier = [[]]
  seen = set()
  for d in range(depth + 1):
    nxt = []
    for hist in frontier:
      try:
        r = alias_run(t, hist)
      except Exception as ex:
        acc.violation("alias:raised", dict(kind="alias", type=t, hist=hist), "no exception", repr(ex)[:160]); continue
      if r is None: continue
      real, model, flags = r
      acc.count("evaluations"); acc.count("alias_histories")
      if real != model:
        acc.violation(f"alias:{hist[-1][0] if hist else 'init'}:diverged", dict(kind="alias", type=t, hist=hist), model, real,
                      "objects are not independent copies / assignment semantics differ")
        continue
      key = (repr(model), flags)
      if d < depth:
        # histories, not states, are extended: aliasing is hidden state that the value trees do not show
        for l in letters: nxt.append(hist + [list(l)])
      seen.add(key)
    frontier = nxt
  acc.count("alias_states", len(seen))
  acc.sample(dict(kind="alias", type=t, example_history=frontier[0] if frontier else []))


# ------------------------------------------------------------------ runner API

def check_malformed(acc):
  """list specifications that are not rectangular, or mix leaf types: refused, or (if accepted) packed with the sum of the leaf widths"""
  from pymtl3.datatypes import mk_bitstruct, Bits1, Bits2, Bits4
  specs = {
    "ragged-depth1": [[Bits4, Bits4], [Bits4]],
    "ragged-depth2": [[[Bits4] * 2] * 2, [[Bits4] * 3] * 2],
    "ragged-depth2-first-longer": [[[Bits4] * 3] * 2, [[Bits4] * 2] * 2],
    "ragged-depth3": [[[[Bits2] * 2] * 2] * 2, [[[Bits2] * 2] * 2, [[Bits2] * 3] * 2]],
    "mixed-leaf-types": [[Bits4, Bits4], [Bits4, Bits2]],
    "mixed-depth": [[Bits4, Bits4], Bits4],
  }
  def nleafbits(x): return sum(nleafbits(y) for y in x) if isinstance(x, list) else x.nbits
  for label, spec in specs.items():
    acc.count("evaluations"); acc.count("malformed_specs")
    try:
      T = mk_bitstruct(f"Mal_{next(_uid)}", {"a": Bits1, "l": spec})
    except Exception:
      acc.count("malformed_refused"); continue
    want = 1 + nleafbits(spec)
    if T.nbits != want:
      acc.violation(f"layout:malformed-list-accepted:{label}", dict(kind="malformed", label=label), f"refused, or {want} bits", f"accepted with nbits = {T.nbits}")


def check_derived(acc):
  """a @bitstruct class derived from another one: refused, or it has the inherited fields first (like a dataclass) and packs them"""
  from pymtl3.datatypes import bitstruct, Bits, Bits8, Bits4, Bits2
  acc.count("evaluations")
  try:
    @bitstruct
    class DBase:
      x: Bits8
      l: [Bits2, Bits2]

    @bitstruct
    class DDerived(DBase):
      y: Bits4
  except Exception:
    acc.count("derived_refused"); return
  case = dict(kind="derived")
  if DDerived.nbits != 16:
    acc.violation("layout:derived-class-drops-inherited-fields", case, "refused, or 16 bits (x, l, y)", f"nbits = {DDerived.nbits}, fields {list(DDerived.__bitstruct_fields__)}"); return
  for b in (0, 1, 0xA5C3, 0xFFFF, 0x8001):
    acc.count("evaluations")
    v = DDerived.from_bits(Bits(16, b))
    got = (int(v.x), int(v.l[0]), int(v.l[1]), int(v.y))
    want = (b >> 8, (b >> 4) & 3, (b >> 6) & 3, b & 15)
    if got != want or int(v.to_bits()) != b or not (v == DDerived(want[0], [want[1], want[2]], want[3])):
      acc.violation("layout:derived-class-layout", dict(case, b=b), want, got); return


def shards(tier):
  n = len(shapes(tier))
  k = 32
  S = [("layout", i, k) for i in range(k)]
  S += [("alias", i, 2 if tier == "quick" else 3) for i in range(len(ALIAS_SHAPES))]
  S += [("malformed",)]
  if tier == "thorough": S += [("alias", 0, 4)]
  return S


def run_shard(shard, tier, seed):
  acc = Acc()
  FULL_W[0] = 8 if tier == "quick" else 11
  if shard[0] == "layout":
    sh = shapes(tier)
    for j in range(shard[1], len(sh), shard[2]):
      check_shape(sh[j], acc)
      if j % 400 == 0: acc.sample(dict(kind="layout", type=sh[j], width=layout.width(sh[j])))
  elif shard[0] == "malformed":
    check_malformed(acc)
    check_derived(acc)
  else:
    alias_explore(ALIAS_SHAPES[shard[1]], shard[2], acc)
  return acc


def replay(case):
  from vt.ir import tup
  acc = Acc()
  if case["kind"] == "derived":
    check_derived(acc)
    return [(v["sig"], v["expected"], v["observed"], v["msg"]) for v in acc.violations]
  if case["kind"] == "malformed":
    check_malformed(acc)
    return [(v["sig"], v["expected"], v["observed"], v["msg"]) for v in acc.violations if v["case"]["label"] == case["label"]]
  t = tup(case["type"])
  if case["kind"] == "layout":
    check_shape(t, acc)
    return [(v["sig"], v["expected"], v["observed"], v["msg"]) for v in acc.violations if v["case"].get("b") == case.get("b")][:3]
  r = alias_run(t, case["hist"])
  if r is None: return []
  real, model, _ = r
  if real != model: return [("alias:diverged", model, real, "")]
  return []


def finish(acc, tier):
  if acc.n["shapes"] < 100: raise MachineryError("too few shapes")
  return dict(
    evaluations=int(acc.n["evaluations"]), distinct_nontrivial=int(acc.n["nontrivial_shapes"]),
    rule="each case = one (type shape, packed value) checked for layout, both round trips, eq/hash, clone/deepcopy/@=/<<= value and independence, "
         "or one copy/assignment history on two objects; non-trivial = distinct shapes with >= 2 leaves (where field order matters)",
    exhaustive=True, shapes=int(acc.n["shapes"]), shapes_with_lists=int(acc.n["shapes_with_lists"]),
    alias_histories=int(acc.n["alias_histories"]), alias_states=int(acc.n["alias_states"]),
    bounds=dict(max_width=12 if tier == "quick" else 40, all_values_up_to_width=8 if tier == "quick" else 11, max_fields=3 if tier == "quick" else 4, alias_depth=2 if tier == "quick" else "3 (4 on shape A1)"),
  )
