"""C14 -- hierarchical names are unique and evaluate back to their objects.

Bounded exhaustive enumeration of hierarchies (depth <= 2, <= 3 members per
level over a menu of components, lists and nested lists of components,
interfaces, lists of interfaces, method ports, Bits / struct / struct-with-list
/ nested-struct signals, lists of signals), with update blocks and connections
that touch fields, list fields, slices, slices of slices and bit indices.
"""
import itertools
import re

from vt import ir
from vt.acc import Acc, MachineryError

PROPERTY = "C14"
LEVEL = "exploration"
ASSUMPTIONS = [
  "objects examined: everything returned by top.get_all_object_filter(lambda x: True) plus every field / list-field / slice / "
  "slice-of-slice signal created on demand (in update blocks, by connections, and by the harness after elaboration through the public API)",
  "a name is split at its last '.' outside brackets (or at a trailing [a:b] for slices) to obtain the parent's name",
  "component level must equal the number of component ancestors; host component = nearest component on the parent chain",
]

HEADER = '''from pymtl3 import *

@bitstruct
class Sab:
  a: Bits2
  b: Bits2

@bitstruct
class SLal:
  a: Bits2
  l: [Bits1, Bits1]

@bitstruct
class Npc:
  p: Sab
  c: Bits2

@bitstruct
class SLS:
  q: [Sab, Sab]

@bitstruct
class Smf:
  inverse: Bits2                # the name of a method of every signal object
  data: Bits2
  get_type: Bits2               # another one, never accessed by a block

class Ifc( Interface ):
  def construct( s ):
    s.a = InPort( Bits4 )
    s.b = OutPort( Sab )
    s.v = [ Wire( Bits1 ) for _ in range(2) ]

class Ifc2( Interface ):
  def construct( s ):
    s.inner = Ifc()
    s.ps = [ InPort( Bits2 ) for _ in range(2) ]

class Ifc3( Interface ):
  def construct( s ):
    s.a = InPort( Bits4 )
    s.b = s.a                   # a second reference to the same port
    s.all = [ s.a ]
    s.c = OutPort( Bits2 )

class Leaf( Component ):
  def construct( s ):
    s.x = InPort( Bits4 )
    s.y = OutPort( SLal )
    s.i = Ifc()
    s.m = CallerPort()
    s.sink = Wire( Bits1 )
    @update
    def touch():
      s.sink @= s.x[0] ^ s.x[1:3][0:1] if False else s.x[3]
  @non_blocking( lambda s: True )
  def bar( s ):
    pass

class LeafD( Leaf ):            # inherits a method interface
  def construct( s ):
    super().construct()
    s.extra = Wire( Bits2 )
'''.replace(" ^ s.x[1:3][0:1] if False else s.x[3]", " ^ s.x[3]")

# menu: label -> (declaration with {n}, list of expressions touched inside an update block (1-bit each), struct kind)
MENU = {
  "bits": ("s.{n} = Wire( Bits4 )", ["s.{n}[0]", "s.{n}[1:3][0]" if False else "s.{n}[2]"]),
  "sab": ("s.{n} = Wire( Sab )", ["s.{n}.a[0]", "s.{n}.b[1]"]),
  "slal": ("s.{n} = Wire( SLal )", ["s.{n}.l[0]", "s.{n}.l[1]", "s.{n}.a[1]"]),
  "npc": ("s.{n} = Wire( Npc )", ["s.{n}.p.a[0]", "s.{n}.c[1]"]),
  "sls": ("s.{n} = Wire( SLS )", ["s.{n}.q[1].a[0]", "s.{n}.q[0].b[1]"]),
  "siglist": ("s.{n} = [ Wire( Bits2 ) for _ in range(2) ]", ["s.{n}[1][0]"]),
  "siglist2": ("s.{n} = [ [ Wire( Sab ) for _ in range(2) ] for _ in range(2) ]", ["s.{n}[1][0].a[1]"]),
  "ifc": ("s.{n} = Ifc()", ["s.{n}.a[2]", "s.{n}.b.a[0]", "s.{n}.v[1]"]),
  "ifclist": ("s.{n} = [ Ifc() for _ in range(2) ]", ["s.{n}[1].a[0]", "s.{n}[0].v[0]"]),
  "comp": ("s.{n} = Leaf()", ["s.{n}.y.l[1]", "s.{n}.i.b.b[0]"]),
  "complist": ("s.{n} = [ Leaf() for _ in range(2) ]", ["s.{n}[1].y.a[0]"]),
  "complist2": ("s.{n} = [ [ Leaf() for _ in range(2) ] for _ in range(2) ]", ["s.{n}[1][0].i.b.a[1]", "s.{n}[0][1].y.l[0]"]),
  "method": ("s.{n} = CallerPort()", []),
  "ifcinv": ("s.{n} = Ifc().inverse()", ["s.{n}.a[2]", "s.{n}.b.a[0]", "s.{n}.v[1]"]),
  "ifc2inv": ("s.{n} = Ifc2().inverse()", ["s.{n}.inner.a[1]", "s.{n}.ps[1][0]", "s.{n}.inner.v[0]"]),
  # plain Python bookkeeping: a second reference to objects that already have their place (an alias and a list of aliases)
  "alias": ("s.{n} = [ Leaf() for _ in range(2) ]; s.{n}_ys = [ c.y for c in s.{n} ]; s.{n}_first = s.{n}[0].i", ["s.{n}[1].y.a[0]", "s.{n}[0].i.a[1]"]),
  # a list that grows after it has been assigned
  "growlist": ("s.{n} = []; s.{n} += [ Wire( Bits2 ) ]; s.{n} += [ Wire( Bits2 ), Wire( Bits2 ) ]", ["s.{n}[0][1]", "s.{n}[2][0]"]),
  # elements that are put into a list after the list was assigned; lists with holes
  "appendlist": ("s.{n} = []; s.{n}.append( Wire( Bits2 ) ); s.{n}.append( Wire( Bits2 ) )", ["s.{n}[1][0]"]),
  "grow2d": ("s.{n} = [ [], [] ]; s.{n}[0] += [ Wire( Bits2 ) ]; s.{n}[1] += [ Wire( Bits2 ), Wire( Sab ) ]", ["s.{n}[1][0][1]", "s.{n}[1][1].b[0]"]),
  "holelist": ("s.{n} = [ None, Leaf(), None, Leaf() ]", ["s.{n}[1].y.a[0]", "s.{n}[3].i.a[1]"]),
  "latecomp": ("s.{n} = [ None, None ]; s.{n}[1] = Leaf()", ["s.{n}[1].y.a[1]"]),
  "derived": ("s.{n} = LeafD()", ["s.{n}.y.l[0]", "s.{n}.y.a[1]"]),
  "ifc3": ("s.{n} = Ifc3()", ["s.{n}.a[2]", "s.{n}.b[0]", "s.{n}.all[0][1]"]),
  "ifc3inv": ("s.{n} = Ifc3().inverse()", ["s.{n}.a[2]", "s.{n}.b[0]", "s.{n}.all[0][1]"]),
  "ifcinvinv": ("s.{n} = Ifc().inverse().inverse()", ["s.{n}.a[2]", "s.{n}.v[1]"]),
  "methfield": ("s.{n} = Wire( Smf )", ["s.{n}.inverse[0]", "s.{n}.data[1]"]),
  "mid": ("s.{n} = Mid()", ["s.{n}.o[0]"]),
  "midlist": ("s.{n} = [ Mid() for _ in range(2) ]", ["s.{n}[1].o[1]"]),
}
MID_MENU = ["bits", "slal", "npc", "siglist", "ifc", "ifclist", "comp", "complist", "complist2", "sls"]
TOP_MENU = ["bits", "sab", "slal", "npc", "siglist2", "ifc", "ifclist", "comp", "complist2", "method", "mid", "midlist", "sls", "alias", "growlist", "ifcinv", "ifc2inv",
            "appendlist", "grow2d", "holelist", "latecomp", "derived", "ifc3", "ifc3inv", "ifcinvinv", "methfield"]


def comp_src(cls, members, extra_sigs=""):
  lines = [f"class {cls}( Component ):", "  def construct( s ):", "    s.o = OutPort( Bits2 )", "    s.snk = Wire( Bits1 )"]
  touched = []
  for i, lab in enumerate(members):
    decl, tch = MENU[lab]
    n = f"m{i}"
    lines.append("    " + decl.format(n=n))
    touched += [t.format(n=n) for t in tch]
  lines.append(extra_sigs)
  lines.append("    @update")
  lines.append("    def touch():")
  lines.append("      s.snk @= " + (" ^ ".join(touched) if touched else "0"))
  return "\n".join(l for l in lines if l) + "\n"


def hierarchy_src(top_members, mid_members):
  extra = ""
  if "bits" in top_members:
    i = top_members.index("bits")
    # slice of a slice and a plain slice created by connections (top-level input ports are legal drivers)
    extra = ("    s.in1 = InPort( Bits1 )\n    s.in2 = InPort( Bits2 )\n"
             f"    connect( s.m{i}[1:4][1:3][0:1], s.in1 )\n    connect( s.in2, s.m{i}[0:2] )\n")
    # the update block must not also read bits driven that way -> fine, reads are unrestricted
  src = HEADER + "\n" + comp_src("Mid", mid_members) + "\n" + comp_src("Top", top_members, extra)
  return src


class FieldIsNotASignal(Exception):
  pass


# post-elaboration touches through the public API, by signal type
def post_touch(sig):
  from pymtl3.datatypes import Bits
  T = sig._dsl.Type
  made = []
  if isinstance(T, type) and issubclass(T, Bits):
    n = T.nbits
    if sig._dsl.slice is None:
      made.append(sig[0])
      if n >= 2: made.append(sig[0:n][n - 1])
      if n >= 4:
        a = sig[1:4]; made.append(a); b = a[1:3]; made.append(b); made.append(b[1]); made.append(a[0:2][1:2])
  else:
    for f, ft in T.__bitstruct_fields__.items():
      x = getattr(sig, f)
      if not isinstance(x, list) and not hasattr(x, "_dsl"): raise FieldIsNotASignal(f"{sig!r}.{f} is {x!r}"[:150])
      stack = [x]
      while stack:
        u = stack.pop()
        if isinstance(u, list): stack.extend(u)
        else: made.append(u); made += post_touch(u)
  return made


def parent_name(name):
  m = re.search(r"\[\d+:\d+\]$", name)
  if m: return name[:m.start()]
  depth = 0
  for i in range(len(name) - 1, -1, -1):
    ch = name[i]
    if ch == "]": depth += 1
    elif ch == "[": depth -= 1
    elif ch == "." and depth == 0: return name[:i]
  return None


def all_objects(top):
  from pymtl3.dsl.NamedObject import NamedObject
  objs = set(top.get_all_object_filter(lambda x: True))
  # closure over lazily created field / slice signals
  stack = list(objs)
  while stack:
    u = stack.pop()
    for k, v in list(u.__dict__.items()):
      if isinstance(k, str) and k.startswith("_"): continue
      vs = [v]
      while vs:
        x = vs.pop()
        if isinstance(x, list): vs.extend(x)
        elif isinstance(x, NamedObject) and x not in objs:
          objs.add(x); stack.append(x)
  return objs


def check_objects(top, fail, acc):
  from pymtl3.dsl.NamedObject import NamedObject
  from pymtl3.dsl.Connectable import Signal
  from pymtl3.dsl.Component import Component
  objs = all_objects(top)
  acc.count("evaluations", len(objs))
  byname = {}
  for o in objs:
    try:
      n = repr(o)
      if not n.startswith("s"): raise ValueError(n)
    except Exception as ex:
      fail("object-without-name:" + kind(o), "every object of the hierarchy has a name", f"{type(o).__name__}: {ex!r}"[:120]); continue
    if n in byname and byname[n] is not o:
      fail("duplicate-name:" + kind(o), "unique", n, f"{type(o).__name__} vs {type(byname[n]).__name__}")
    byname[n] = o
  env = {"s": top}
  for n, o in byname.items():
    try:
      back = eval(n, env)
    except Exception as ex:
      fail("name-does-not-evaluate:" + kind(o), n, repr(ex)[:120]); continue
    if back is not o:
      k = kind(o)
      if k == "field" and hasattr(Signal, n.rsplit(".", 1)[-1].split("[")[0]): k = "field-named-like-a-signal-method"
      fail("name-evaluates-to-other-object:" + k, n, repr(back)[:80], f"{type(o).__name__}")
      continue
    if isinstance(o, Component):
      # the local collection APIs return objects of THIS component only
      for api in ("get_child_components", "get_input_value_ports", "get_output_value_ports", "get_wires"):
        for x in getattr(o, api)():
          if x.get_parent_object() is not o and not (hasattr(x, "get_host_component") and not isinstance(x, Component) and x.get_host_component() is o):
            fail("local-api-returns-foreign-object:" + api, f"objects of {n}", repr(x)); break
      # every decorated method of the class, inherited ones too, is a method port / interface of the instance
      for c in type(o).__mro__:
        for an, av in vars(c).items():
          if hasattr(av, "_non_blocking_rdy") or hasattr(av, "_callee_port"):
            got = o.__dict__.get(an)
            if not isinstance(got, NamedObject): fail("decorated-method-is-not-a-port", f"{n}.{an}: method port / interface", type(got).__name__, n)
    if o is top: continue
    pn = parent_name(n)
    try: par = o.get_parent_object()
    except Exception as ex:
      fail("get_parent_object-raised:" + kind(o), pn, repr(ex)[:100]); continue
    if pn is None or pn not in byname or byname[pn] is not par:
      fail("parent-mismatch:" + kind(o), pn, repr(par), n); continue
    # host component = nearest component on the parent chain
    x, depth = par, 0
    while not isinstance(x, Component): x = x.get_parent_object()
    host = x
    if hasattr(o, "get_host_component"):
      try:
        h = o.get_host_component()
        if isinstance(o, Component): pass
        elif h is not host: fail("host-mismatch:" + kind(o), repr(host), repr(h), n)
      except Exception as ex:
        fail("get_host_component-raised:" + kind(o), repr(host), repr(ex)[:100], n)
    if isinstance(o, Component):
      lvl, y = 0, o
      while y is not top:
        y = y.get_parent_object()
        if isinstance(y, Component): lvl += 1
      if o.get_component_level() != lvl: fail("level-mismatch", lvl, o.get_component_level(), n)
    if isinstance(o, Signal) and o.is_top_level_signal():
      # the leaves of a signal: every field / list element that has no fields of its own, each a named object of this design
      try:
        leaves = list(o.get_leaf_signals())
      except Exception as ex:
        fail("get_leaf_signals-raised", "a list of signals", repr(ex)[:120], n); leaves = []
      for l in leaves:
        if not isinstance(l, Signal) or not repr(l).startswith(n): fail("leaf-signal-not-under-its-signal", n, repr(l)[:80]); break
    if isinstance(o, Signal):
      t = o
      while isinstance(t.get_parent_object(), Signal): t = t.get_parent_object()
      if o.get_top_level_signal() is not t: fail("top-level-signal-mismatch", repr(t), repr(o.get_top_level_signal()), n)
      if o.is_top_level_signal() != (t is o): fail("is_top_level_signal-mismatch", t is o, o.is_top_level_signal(), n)
  return byname


def check_hierarchy(tm, mm, acc):
  from pymtl3.dsl.Connectable import Signal
  from pymtl3.dsl.Component import Component
  src = hierarchy_src(tm, mm)
  case = dict(top=list(tm), mid=list(mm))
  def fail(sig, exp, got, msg=""):
    acc.violation(sig, case, exp, got, msg)
  namesets = []
  for rep in range(2):
    mod = ir.load_src(src)
    try:
      top = mod.Top()
      top.elaborate()
    except Exception as ex:
      fail("elaborate-raised", "elaborates", repr(ex)[:200]); ir.unload(mod.__name__); return
    pre = {repr(o) for o in all_objects(top)}
    for s in [o for o in all_objects(top) if isinstance(o, Signal) and o.is_top_level_signal()]:
      try: post_touch(s)
      except FieldIsNotASignal as ex:
        fail("field-access-does-not-yield-the-field-signal", "signal.field is the field's signal", str(ex), repr(s)); continue
      except Exception as ex:
        fail("post-touch-raised", "slice/field access works", repr(ex)[:200], repr(s)); break
    byname = check_objects(top, fail, acc)
    objs = byname
    # an inverse interface has every port inverted, also those in lists and in nested interfaces
    from pymtl3.dsl.Connectable import InPort, OutPort
    for i, lab in enumerate(tm):
      m = getattr(top, f"m{i}", None)
      want = {"ifcinv": [("a", OutPort), ("b", InPort)], "ifc2inv": [("inner.a", OutPort), ("inner.b", InPort), ("ps[0]", OutPort), ("ps[1]", OutPort)],
              "ifc3": [("a", InPort), ("c", OutPort)], "ifc3inv": [("a", OutPort), ("c", InPort)], "ifcinvinv": [("a", InPort), ("b", OutPort)]}.get(lab, [])
      if lab in ("ifc3", "ifc3inv") and not (m.a is m.b is m.all[0]):
        fail("second-reference-became-another-port", "a is b is all[0]", [repr(m.a), repr(m.b), repr(m.all[0])], repr(m))
      for path, cls_ in want:
        o = eval("m." + path, {"m": m})
        if type(o) is not cls_: fail("inverse-interface-port-not-inverted", f"{path}: {cls_.__name__}", type(o).__name__, repr(o)); break
    namesets.append((pre, set(byname)))
    if rep == 1:
      # names must stay consistent after a component is re-inserted by the mutation API
      import pymtl3
      inds = lambda c: getattr(c._dsl, "_my_indices", None)
      cands = [c for c in top.get_all_components() if c is not top and inds(c) and c.get_parent_object() is not top]
      cands += [c for c in top.get_all_components() if c is not top and not inds(c) and c.get_parent_object() is not top]
      for c in sorted(cands, key=repr)[:2]:
        try:
          top.replace_component(c, type(c))
        except Exception as ex:
          fail("replace-raised", "replace_component works", repr(ex)[:160], repr(c)); break
        acc.count("replacements")
        check_objects(top, lambda sig, e, g, m="": fail("after-replace:" + sig, e, g, m), acc)
    if rep == 0:
      acc.count("objects", len(objs))
      acc.count("lazy_objects", len(set(byname) - pre))
    ir.unload(mod.__name__)
  if namesets[0] != namesets[1]:
    d = (namesets[0][1] ^ namesets[1][1]) or (namesets[0][0] ^ namesets[1][0])
    fail("re-elaboration-differs", "same names", sorted(d)[:5])
  acc.count("hierarchies")
  if any(m in ("siglist", "siglist2", "ifclist", "complist", "complist2", "midlist", "slal", "sls") for m in tm + mm):
    acc.count("nontrivial")


def kind(o):
  from pymtl3.dsl.Connectable import Signal, Interface, MethodPort
  from pymtl3.dsl.Component import Component
  if isinstance(o, Component): return "component"
  if isinstance(o, Signal):
    if o._dsl.slice is not None: return "slice"
    return "signal" if o.is_top_level_signal() else "field"
  if isinstance(o, Interface): return "interface"
  return "methodport"


def cases(tier):
  tops = [c for k in ((1, 2, 3) if tier == "quick" else (1, 2, 3, 4)) for c in itertools.combinations(TOP_MENU, k)]
  mids = [c for k in ((1, 2) if tier == "quick" else (1, 2, 3)) for c in itertools.combinations(MID_MENU, k)]
  out = []
  for t in tops:
    if "mid" in t or "midlist" in t:
      ms = mids if (tier == "thorough" and len(t) <= 3) or len(t) <= 2 else mids[::5]
      for m in ms: out.append((t, m))
    else:
      out.append((t, ("bits",)))
  return out


def shards(tier):
  n = len(cases(tier))
  k = 32
  return [(i, k) for i in range(k)]


def run_shard(shard, tier, seed):
  acc = Acc()
  cs = cases(tier)
  for j in range(shard[0], len(cs), shard[1]):
    check_hierarchy(cs[j][0], cs[j][1], acc)
    if j % 500 == 0: acc.sample(dict(top_members=list(cs[j][0]), mid_members=list(cs[j][1])))
  return acc


def replay(case):
  acc = Acc()
  check_hierarchy(tuple(case["top"]), tuple(case["mid"]), acc)
  return [(v["sig"], v["expected"], v["observed"], v["msg"]) for v in acc.violations][:5]


def finish(acc, tier):
  if acc.n["hierarchies"] < 100: raise MachineryError("too few hierarchies")
  return dict(
    evaluations=int(acc.n["evaluations"]), distinct_nontrivial=int(acc.n["nontrivial"]),
    rule="one case = one (top member set, mid member set) hierarchy elaborated twice; evaluations = objects whose name was evaluated back; "
         "non-trivial = hierarchies containing a list (of signals/interfaces/components) or a struct with list fields",
    exhaustive=True, hierarchies=int(acc.n["hierarchies"]), objects_first_elaboration=int(acc.n["objects"]),
    lazily_created_objects=int(acc.n["lazy_objects"]),
    bounds=dict(depth=2, members_per_level="<=3 (top), <=2 (mid)", menu=sorted(MENU)),
  )
