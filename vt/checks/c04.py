"""C04 -- Bits arithmetic is exact unsigned arithmetic modulo 2^n.

Bounded exhaustive enumeration of operand tuples against Python integers:
  full      every operand pair / int operand for widths 1..W (W=5 quick, 8 thorough)
  boundary  every width 1..1023 with a boundary alphabet
  mixed     width pairs (n,m) from a fixed list: mismatches must raise
  ctor      constructors, @=, <<=, conversions, hash, == with non-numbers
  proto     explicit-state BFS of the mutation protocol (@=, <<=, _flip, clone,
            set-bit, set-slice) for widths 1..3 against a two-int reference model
"""
import operator

from vt.acc import Acc, MachineryError

PROPERTY = "C04"
LEVEL = "exploration"
ASSUMPTIONS = [
  "oracle: Python unbounded ints; result reduced mod 2^n, comparisons 0/1",
  "division/modulo by zero is outside the property (any outcome accepted)",
  "an int operand in [-2^(n-1),0) may either raise or yield the mathematically defined result on the true integer reduced mod 2^n "
  "(for + - * & | ^ that is the same as using k mod 2^n; for // % >> and comparisons it is not)",
  "a shift amount of another width / an out-of-range int shift amount may raise or give the left-operand-width result",
  "reflected shifts (int << Bits) are undefined in Python for Bits (TypeError) and accepted as 'raises'",
  "only the pure-Python Bits implementation is exercised (no mamba module in this sandbox)",
]

BINOPS = {
  "+": operator.add, "-": operator.sub, "*": operator.mul, "//": operator.floordiv,
  "%": operator.mod, "&": operator.and_, "|": operator.or_, "^": operator.xor,
  "<<": operator.lshift, ">>": operator.rshift,
  "==": operator.eq, "!=": operator.ne, "<": operator.lt, "<=": operator.le,
  ">": operator.gt, ">=": operator.ge,
}
CMP = ("==", "!=", "<", "<=", ">", ">=")
SHIFT = ("<<", ">>")


def spec(op, n, x, y):
  """x op y on n-bit unsigned values; None = outside the property."""
  M = 1 << n
  if op == "+": return (x + y) % M
  if op == "-": return (x - y) % M
  if op == "*": return (x * y) % M
  if op == "//": return None if y == 0 else (x // y) % M
  if op == "%": return None if y == 0 else (x % y) % M
  if op == "&": return x & y
  if op == "|": return x | y
  if op == "^": return x ^ y
  if op == "<<": return 0 if y >= n else (x << y) % M
  if op == ">>": return 0 if y >= n else x >> y
  if op == "==": return int(x == y)
  if op == "!=": return int(x != y)
  if op == "<": return int(x < y)
  if op == "<=": return int(x <= y)
  if op == ">": return int(x > y)
  if op == ">=": return int(x >= y)
  raise KeyError(op)


def math_result(op, n, a, b):
  """a op b on true (possibly negative) integers, reduced modulo 2^n; 'error' if undefined."""
  M = 1 << n
  if op in ("+", "-", "*", "&", "|", "^"):
    return {"+": a + b, "-": a - b, "*": a * b, "&": a & b, "|": a | b, "^": a ^ b}[op] % M
  if op in ("//", "%"):
    if b == 0: return None
    return (a // b if op == "//" else a % b) % M
  if op in ("<<", ">>"):
    if b < 0: return "error"
    if b >= n and a >= 0: return 0
    return ((a << b) if op == "<<" else (a >> b)) % M if b < 4096 else None
  return int({"==": a == b, "!=": a != b, "<": a < b, "<=": a <= b, ">": a > b, ">=": a >= b}[op])


def _mk(d):
  from pymtl3.datatypes import Bits, mk_bits
  if d[0] == "B": return Bits(d[1], d[2])
  if d[0] == "T": return mk_bits(d[1])(d[2])     # BitsN subclass instance
  return d[1]


def _valid_bits(r, n):
  from pymtl3.datatypes import Bits
  if not isinstance(r, Bits): return f"result type {type(r).__name__}"
  if r.nbits != n: return f"result width {r.nbits} != {n}"
  u = r._uint
  if not isinstance(u, int): return f"stored value of type {type(u).__name__}"
  if not (0 <= u < (1 << n)): return f"stored value {u} outside [0,2^{n})"
  return None


def check_binop(case):
  """case = ("binop", op, a, b); a,b = ("B"|"T",n,x) or ("I",k). Returns failures."""
  _, op, a, b = case
  a, b = tuple(a), tuple(b)
  fn = BINOPS[op]
  oa, ob = _mk(a), _mk(b)
  try:
    r = fn(oa, ob)
    exc = None
  except Exception as e:
    r, exc = None, e
  fails = []
  aB, bB = a[0] != "I", b[0] != "I"
  if aB and bB:
    n, m = a[1], b[1]
    if n != m:
      if exc is None:
        ok = False
        if op in SHIFT:
          want = spec(op, n, a[2], b[2])
          ok = _valid_bits(r, n) is None and int(r._uint) == want
        if not ok:
          fails.append((f"binop:{op}:BB-widthmismatch:no-error", "ValueError", repr(r),
                        "operands of different widths must raise"))
      return fails
    form, n, x, y, k = "BB", n, a[2], b[2], None
  elif aB:
    form, n, x, k = "BI", a[1], a[2], b[1]
  else:
    form, n, x, k = "IB", b[1], b[2], a[1]
  rn = 1 if op in CMP else n
  if k is not None:
    up, lo = (1 << n) - 1, -(1 << (n - 1))
    if form == "IB" and op in SHIFT:
      # int << Bits is not defined for Bits at all
      if exc is None:
        fails.append((f"binop:{op}:IB:defined", "TypeError", repr(r), "reflected shift unexpectedly defined"))
      return fails
    if k > up or k < lo:
      if exc is None:
        ok = False
        if op in SHIFT and k >= 0:
          ok = _valid_bits(r, n) is None and int(r._uint) == spec(op, n, x, k)
        if not ok:
          fails.append((f"binop:{op}:{form}:int-out-of-range:no-error", "ValueError", repr(r),
                        f"int {k} does not fit Bits{n} but was accepted"))
      return fails
    y = k
    if k < 0:
      if exc is not None: return fails          # allowed to raise
      # ... or return the mathematically defined result on the true integer k, reduced modulo 2^n
      a_, b_ = (x, k) if form == "BI" else (k, x)
      want = math_result(op, n, a_, b_)
      if want == "error":
        fails.append((f"binop:{op}:{form}:negative-int:no-error", "ValueError", repr(r), f"int {k} with Bits{n}({x})"))
        return fails
      if want is None: return fails
      bad = _valid_bits(r, rn)
      if bad or int(r._uint) != want:
        fails.append((f"binop:{op}:{form}:negative-int:wrong-value", want, bad or int(r._uint),
                      f"{a_} {op} {b_} at width {n}: neither an error nor the mathematical result mod 2^{n}"))
      return fails
    if form == "IB": x, y = y, x               # reflected: k op bits
  want = spec(op, n, x, y)
  if want is None:
    return fails                                # division by zero: outside
  if exc is not None:
    fails.append((f"binop:{op}:{form}:raised", want, f"{type(exc).__name__}: {str(exc)[:80]}",
                  "legal operands raised"))
    return fails
  bad = _valid_bits(r, rn)
  if bad:
    fails.append((f"binop:{op}:{form}:bad-result", f"Bits{rn}({want})", bad, ""))
  elif int(r._uint) != want:
    fails.append((f"binop:{op}:{form}:wrong-value", want, int(r._uint), f"width {n}"))
  # purity: operands unchanged
  if aB and int(oa._uint) != a[2]: fails.append((f"binop:{op}:{form}:mutated-left", a[2], int(oa._uint), ""))
  if bB and int(ob._uint) != b[2]: fails.append((f"binop:{op}:{form}:mutated-right", b[2], int(ob._uint), ""))
  return fails


def check_unop(case):
  _, op, n, x = case
  from pymtl3.datatypes import Bits
  a = Bits(n, x)
  M = 1 << n
  fails = []
  def exp(name, want, got):
    if type(got) is bool and name not in ("bool",): got = int(got)
    if got != want or (name != "bool" and not isinstance(got, int)):
      fails.append((f"unop:{name}:wrong-value", want, got, f"Bits{n}({x})"))
  if op == "~":
    r = ~a
    bad = _valid_bits(r, n)
    if bad: fails.append(("unop:~:bad-result", f"Bits{n}", bad, ""))
    else: exp("~", (~x) % M, int(r._uint))
  elif op == "conv":
    exp("int()", x, int(a)); exp("uint", x, a.uint()); exp("index", x, operator.index(a))
    exp("signed", x - M if x >> (n - 1) else x, a.int())
    exp("bool", x != 0, bool(a))
    b = Bits(n, x)
    if hash(a) != hash(b): fails.append(("unop:hash:unequal", hash(a), hash(b), "equal values hash differently"))
    if len({a, b}) != 1: fails.append(("unop:hash:set", 1, 2, "equal values are distinct set members"))
    c = a.clone()
    if c is a or int(c._uint) != x or c.nbits != n: fails.append(("unop:clone", x, repr(c), ""))
    for other, nm in ((None, "None"), ("abc", "str"), ((1, 2), "tuple")):
      try:
        e, ne = a == other, a != other
        if int(e) != 0 or int(ne) != 1:
          fails.append((f"unop:eq-{nm}", (0, 1), (int(e), int(ne)), ""))
      except Exception as ex:
        fails.append((f"unop:eq-{nm}:raised", (0, 1), repr(ex), ""))
  if int(a._uint) != x: fails.append((f"unop:{op}:mutated", x, int(a._uint), ""))
  return fails


def check_ctor(case):
  """("ctor", how, n, v) with how in Bits, BitsN, mk, trunc, assign, nb, fromB(m), badwidth"""
  _, how, n, v = case
  from pymtl3.datatypes import Bits, mk_bits
  import pymtl3.datatypes as dt
  fails = []
  M = 1 << n if 0 < n < 4096 else 0
  def run(f):
    try: return f(), None
    except Exception as e: return None, e
  if how == "badwidth":
    r, e = run(lambda: Bits(n, 0))
    if e is None: fails.append(("ctor:badwidth:no-error", "ValueError", repr(r), f"nbits={n}"))
    return fails
  if how.startswith("fromB"):
    m = int(how[5:])
    src = Bits(m, v)
    for nm, f in (("ctor", lambda: Bits(n, src)), ("assign", lambda: _assign(Bits(n, 0), src)),
                  ("nb", lambda: _nb(Bits(n, 0), src))):
      r, e = run(f)
      if m != n:
        if e is None: fails.append((f"ctor:{nm}-fromBits:widthmismatch:no-error", "ValueError", repr(r), f"Bits{n} from Bits{m}"))
      elif e is not None:
        fails.append((f"ctor:{nm}-fromBits:raised", v, repr(e), ""))
      elif _valid_bits(r, n) or int(r._uint) != v:
        fails.append((f"ctor:{nm}-fromBits:wrong", v, repr(r), ""))
    return fails
  accept = -(1 << (n - 1)) <= v <= (1 << n) - 1
  if how == "Bits": f = lambda: Bits(n, v)
  elif how == "BitsN": f = lambda: getattr(dt, f"Bits{n}")(v)
  elif how == "mk": f = lambda: mk_bits(n)(v)
  elif how == "trunc": f, accept = (lambda: Bits(n, v, trunc_int=True)), True
  elif how == "truncN": f, accept = (lambda: mk_bits(n)(v, trunc_int=True)), True
  elif how == "assign": f = lambda: _assign(Bits(n, 1), v)
  elif how == "nb": f = lambda: _nb(Bits(n, 1), v)
  else: raise KeyError(how)
  r, e = run(f)
  if accept:
    if e is not None: fails.append((f"ctor:{how}:raised", v % M, repr(e), f"n={n} v={v}"))
    elif _valid_bits(r, n) or int(r._uint) != v % M:
      fails.append((f"ctor:{how}:wrong", v % M, repr(r), f"n={n} v={v}"))
  elif e is None:
    fails.append((f"ctor:{how}:out-of-range:no-error", "ValueError", repr(r), f"n={n} v={v}"))
  return fails


def _assign(a, v):
  a @= v
  return a


def _nb(a, v):
  old = int(a._uint)
  a <<= v
  if int(a._uint) != old:
    raise AssertionError("<<= changed the visible value before the flip")
  a._flip()
  return a


FRESH_OPS = ["+", "-", "*", "&", "|", "^", "<<", ">>", "==", "!=", "<", "<=", ">", ">="]
MUTATIONS = ("@=", "<<=flip", "setbit", "setslice")


def _apply(op, a, b):
  import operator
  f = {"+": operator.add, "-": operator.sub, "*": operator.mul, "&": operator.and_, "|": operator.or_, "^": operator.xor, "<<": operator.lshift,
       ">>": operator.rshift, "==": operator.eq, "!=": operator.ne, "<": operator.lt, "<=": operator.le, ">": operator.gt, ">=": operator.ge}[op]
  return f(a, b)


def check_fresh(case):
  """("fresh", op, n, x, y, bform, mutation): r = a op b is computed twice; the FIRST result object is then mutated in place; the operands,
  the second result and a third, freshly computed result must still have the value of the integer specification. An operator that hands
  out a shared or cached object (or an operand) fails here although every single call, looked at alone, returns the right value."""
  from pymtl3.datatypes import Bits
  _, op, n, x, y, bform, mut = case
  a = Bits(n, x)
  b = Bits(n, y) if bform == "B" else y
  want = spec(op, n, x, y)
  if want is None: return []
  try:
    r1 = _apply(op, a, b)
    r2 = _apply(op, a, b)
  except Exception:
    return []                       # error cases are the subject of check_binop
  w = r1.nbits
  flipped = (int(r1) + 1) % (1 << w)
  try:
    if mut == "@=": r1 @= flipped
    elif mut == "<<=flip": r1 <<= flipped; r1._flip()
    elif mut == "setbit": r1[0] = 1 - int(r1[0])
    else: r1[0:w] = flipped
  except Exception as ex:
    return [("fresh:mutation-raised", "in-place update of a result works", repr(ex)[:100], f"{op} {mut}")]
  fails = []
  r3 = _apply(op, a, b)
  if int(a) != x: fails.append((f"fresh:{op}:operand-changed", x, int(a), f"left operand after mutating the result with {mut}"))
  if bform == "B" and int(b) != y: fails.append((f"fresh:{op}:operand-changed", y, int(b), f"right operand after mutating the result with {mut}"))
  if int(r2) != want: fails.append((f"fresh:{op}:earlier-result-changed", want, int(r2), f"a second result of the same operation changed when the first was mutated ({mut})"))
  if int(r3) != want: fails.append((f"fresh:{op}:later-result-wrong", want, int(r3), f"the operation returns a wrong value after an earlier result was mutated ({mut})"))
  return fails


def gen_fresh(W):
  for n in range(1, W + 1):
    for op in FRESH_OPS:
      for x in range(1 << n):
        for y in range(1 << n):
          for bform in ("B", "I"):
            for mut in MUTATIONS:
              if (x + y) % 2 and mut in ("setbit", "setslice") and n > 1: continue      # thinned: every mutation kind still meets every op and both truth values
              yield ("fresh", op, n, x, y, bform, mut)


def check_case(case):
  k = case[0]
  if k == "fresh": return check_fresh(case)
  if k == "binop": return check_binop(case)
  if k == "unop": return check_unop(case)
  if k == "ctor": return check_ctor(case)
  if k == "proto": return proto_replay(case)
  raise KeyError(k)


# ------------------------------------------------------------ enumeration

M61 = (1 << 61) - 1       # modulus of CPython's int hash: x and x + M61 are different values with equal hash(int)


def boundary_vals(n):
  M = 1 << n
  vals = {0, 1, 2 % M, (M >> 1) - 1 if n > 1 else 0, M >> 1, (M - 2) % M, M - 1}
  if n >= 62: vals |= {M61, M61 + 1, M61 + 2}      # hash-congruent partners of 0, 1, 2: equality must not be decided by hashes
  return sorted(vals)


def boundary_ints(n):
  M = 1 << n
  h = M >> 1
  return sorted({-h - 1, -h, -1, 0, 1, h, M - 1, M, M + 1})


def shift_amounts(n):
  M = 1 << n
  return sorted(v for v in {0, 1, max(n - 1, 0), n, n + 1, M - 1} if 0 <= v < M)


def gen_full(n):
  M = 1 << n
  for op in BINOPS:
    for x in range(M):
      for y in range(M):
        yield ("binop", op, ("B", n, x), ("B", n, y))
      for k in range(-M - 2, M + 3):
        yield ("binop", op, ("B", n, x), ("I", k))
        yield ("binop", op, ("I", k), ("T", n, x))
  for x in range(M):
    yield ("unop", "~", n, x)
    yield ("unop", "conv", n, x)


def gen_boundary(n):
  vals = boundary_vals(n)
  ints = boundary_ints(n)
  sh = shift_amounts(n)
  for op in BINOPS:
    ys = vals if op not in SHIFT else sorted(set(vals) | set(sh))
    for x in vals:
      for y in ys:
        yield ("binop", op, ("B", n, x), ("T", n, y))
      for k in ints:
        yield ("binop", op, ("T", n, x), ("I", k))
        yield ("binop", op, ("I", k), ("B", n, x))
  for x in vals:
    yield ("unop", "~", n, x)
    yield ("unop", "conv", n, x)
  for how in ("Bits", "mk", "trunc", "truncN", "assign", "nb"):
    for v in ints + [-(1 << n), (1 << n) + 5]:
      yield ("ctor", how, n, v)
  if n < 256 or n in (384, 512):
    for v in ints: yield ("ctor", "BitsN", n, v)


MIXED = (1, 2, 3, 4, 8, 64, 65, 1023)


def gen_mixed():
  for n in MIXED:
    for m in MIXED:
      for op in BINOPS:
        for x in boundary_vals(n)[:4] + boundary_vals(n)[-1:]:
          for y in boundary_vals(m)[:3] + boundary_vals(m)[-1:]:
            yield ("binop", op, ("B", n, x), ("B", m, y))
      for y in boundary_vals(m):
        yield ("ctor", f"fromB{m}", n, y)
  for n in (0, -1, 1024, 1025, 4096):
    yield ("ctor", "badwidth", n, 0)


def gen_ctor_small(W):
  for n in range(1, W + 1):
    M = 1 << n
    for how in ("Bits", "BitsN", "mk", "trunc", "truncN", "assign", "nb"):
      for v in range(-2 * M - 2, 2 * M + 3):
        yield ("ctor", how, n, v)
    for m in range(1, W + 1):
      for y in range(1 << m):
        yield ("ctor", f"fromB{m}", n, y)


# ------------------------------------------------------------ protocol BFS

def proto_letters(n):
  M = 1 << n
  L = []
  for v in range(-(M >> 1) - 1, M + 1): L.append(("@=", v)); L.append(("<<=", v))
  for m in range(1, n + 2):
    for y in range(1 << m):
      L.append(("@=B", m, y)); L.append(("<<=B", m, y))
  L.append(("flip",)); L.append(("clone",))
  for i in range(-1, n + 1):
    for v in (-2, -1, 0, 1, 2): L.append(("setbit", i, v))
    L.append(("setbitB", i, 1)); L.append(("setbitB2", i, 1))
  for lo in range(0, n):
    for hi in range(lo + 1, n + 1):
      w = hi - lo
      for v in range(-(1 << (w - 1)) - 1, (1 << w) + 1): L.append(("setslice", lo, hi, v))
      for m in (w - 1, w, w + 1):
        if m >= 1:
          for y in range(1 << m): L.append(("setsliceB", lo, hi, m, y))
  return L


def proto_ref(n, st, letter):
  """Reference model. st=(u, nxt|None). Returns (new_state, ok) ok=False -> must raise."""
  u, nx = st
  M = 1 << n
  k = letter[0]
  inr = lambda v, w: -(1 << (w - 1)) <= v <= (1 << w) - 1
  if k == "@=": return ((letter[1] % M, nx), True) if inr(letter[1], n) else (st, False)
  if k == "<<=": return ((u, letter[1] % M), True) if inr(letter[1], n) else (st, False)
  if k == "@=B": return ((letter[2], nx), True) if letter[1] == n else (st, False)
  if k == "<<=B": return ((u, letter[2]), True) if letter[1] == n else (st, False)
  if k == "flip": return ((nx, nx), True) if nx is not None else (st, None)   # None: not enabled
  if k == "clone": return (st, True)
  if k in ("setbit", "setbitB", "setbitB2"):
    i, v = letter[1], letter[2]
    if not (0 <= i < n): return (st, False)
    if k == "setbitB2": return (st, False)           # a 2-bit value into a 1-bit slot
    if k == "setbit" and not inr(v, 1): return (st, False)
    return (((u & ~(1 << i)) | ((v & 1) << i), nx), True)
  if k == "setslice":
    lo, hi, v = letter[1:]
    w = hi - lo
    if not inr(v, w): return (st, False)
    mask = ((1 << w) - 1) << lo
    return (((u & ~mask) | ((v % (1 << w)) << lo), nx), True)
  if k == "setsliceB":
    lo, hi, m, y = letter[1:]
    w = hi - lo
    if m != w: return (st, False)
    mask = ((1 << w) - 1) << lo
    return (((u & ~mask) | (y << lo), nx), True)
  raise KeyError(k)


def proto_apply(obj, letter):
  from pymtl3.datatypes import Bits
  k = letter[0]
  if k == "@=": obj @= letter[1]
  elif k == "<<=": obj <<= letter[1]
  elif k == "@=B": obj @= Bits(letter[1], letter[2])
  elif k == "<<=B": obj <<= Bits(letter[1], letter[2])
  elif k == "flip": obj._flip()
  elif k == "clone":
    c = obj.clone()
    c @= (~c)              # mutating the clone must not affect the original
  elif k == "setbit": obj[letter[1]] = letter[2]
  elif k == "setbitB": obj[letter[1]] = Bits(1, letter[2])
  elif k == "setbitB2": obj[letter[1]] = Bits(2, letter[2])
  elif k == "setslice": obj[letter[1]:letter[2]] = letter[3]
  elif k == "setsliceB": obj[letter[1]:letter[2]] = Bits(letter[3], letter[4])
  return obj


def proto_obs(obj):
  return (int(obj._uint), int(obj._next) if hasattr(obj, "_next") else None)


def proto_hash_ok(obj):
  """Hash / equality / dict lookup must follow the current value (called after every letter, so
  a stale cached hash from any earlier state of the same object is noticed)."""
  from pymtl3.datatypes import Bits
  fresh = Bits(obj.nbits, int(obj._uint))
  return hash(obj) == hash(fresh) and bool(obj == fresh) and {fresh: 1}.get(obj) == 1


def proto_build(n, hist):
  from pymtl3.datatypes import Bits
  obj = Bits(n, 0)
  hash(obj)
  for l in hist:
    try: obj = proto_apply(obj, tuple(l))
    except Exception: pass
    hash(obj)
  return obj


def proto_step_check(n, hist, letter):
  """Replay hist on a fresh object, apply letter, compare with the model."""
  st = (0, None)
  for l in hist:
    ns, ok = proto_ref(n, st, tuple(l))
    if ok: st = ns
  want, ok = proto_ref(n, st, letter)
  if ok is None: return None, []
  obj = proto_build(n, hist)
  if proto_obs(obj) != st:
    return None, [("proto:history-diverged", st, proto_obs(obj), f"n={n}")]
  try:
    obj2 = proto_apply(obj, letter)
    exc = None
  except Exception as e:
    obj2, exc = obj, e
  fails = []
  if ok:
    if exc is not None: fails.append((f"proto:{letter[0]}:raised", want, repr(exc), f"n={n} state={st}"))
    elif obj2 is not obj: fails.append((f"proto:{letter[0]}:rebinds", "same object", "new object", ""))
    elif proto_obs(obj) != want: fails.append((f"proto:{letter[0]}:wrong-state", want, proto_obs(obj), f"n={n} state={st}"))
    elif not proto_hash_ok(obj): fails.append((f"proto:{letter[0]}:stale-hash-or-eq", "hash/== follow the value", "mismatch with a fresh equal object", f"n={n} state={st} -> {want}"))
  else:
    if exc is None: fails.append((f"proto:{letter[0]}:no-error", "error", proto_obs(obj), f"n={n} state={st} letter={letter}"))
    elif proto_obs(obj) != st: fails.append((f"proto:{letter[0]}:error-but-mutated", st, proto_obs(obj), f"n={n}"))
  return (want if ok else st), fails


def proto_bfs(n, acc):
  from collections import deque
  letters = proto_letters(n)
  seen = {(0, None): []}
  q = deque([(0, None)])
  while q:
    st = q.popleft()
    hist = seen[st]
    for l in letters:
      nst, fails = proto_step_check(n, hist, l)
      if nst is None and not fails: continue
      acc.count("transitions"); acc.count("evaluations")
      for f in fails:
        acc.violation(f[0], ["proto", n, hist, list(l)], f[1], f[2], f[3])
      if nst is not None and nst not in seen:
        seen[nst] = hist + [list(l)]
        q.append(nst)
  for st in seen: acc.add("proto_states", (n, st))
  acc.count("proto_closed")
  acc.sample(dict(kind="proto", width=n, history=seen[max(seen, key=lambda s: len(seen[s]))]))


def proto_replay(case):
  _, n, hist, letter = case
  _, fails = proto_step_check(n, hist, tuple(letter))
  return fails


# ------------------------------------------------------------ runner API

def shards(tier):
  W = 5 if tier == "quick" else 8
  S = [("full", n) for n in range(1, W + 1)]
  step = 16 if tier == "quick" else 8
  S += [("boundary", lo, min(lo + step, 1024)) for lo in range(1, 1024, step)]
  S += [("mixed",), ("ctor", 4 if tier == "quick" else 6), ("fresh", 3 if tier == "quick" else 5)]
  S += [("proto", n) for n in ((1, 2, 3) if tier == "quick" else (1, 2, 3, 4))]
  return S


def _nontrivial(case, fails):
  """A case is non-trivial when the un-reduced mathematical result differs from the
  reduced one (wrap), an error is required, or an operand is a boundary int."""
  if case[0] == "binop":
    _, op, a, b = case
    if a[0] == "I" or b[0] == "I":
      k = a[1] if a[0] == "I" else b[1]
      n = b[1] if a[0] == "I" else a[1]
      return k < 0 or k >= (1 << n) - 1
    if a[1] != b[1]: return True
    n, x, y = a[1], a[2], b[2]
    raw = {"+": x + y, "-": x - y, "*": x * y}.get(op)
    if raw is not None: return not (0 <= raw < (1 << n))
    if op in SHIFT: return y >= n or (op == "<<" and (x << min(y, n)) >= (1 << n))
    return x == y or x == (1 << n) - 1 or y == 0
  if case[0] == "ctor":
    _, how, n, v = case
    return not (0 <= v < (1 << max(n, 0)) - 1) if isinstance(v, int) else True
  return case[0] == "unop" and (case[3] == 0 or case[3] >= (1 << (case[2] - 1)))


def run_shard(shard, tier, seed):
  acc = Acc()
  kind = shard[0]
  if kind == "proto":
    proto_bfs(shard[1], acc)
    return acc
  if kind == "full": gen = gen_full(shard[1])
  elif kind == "boundary": gen = (c for n in range(shard[1], shard[2]) for c in gen_boundary(n))
  elif kind == "mixed": gen = gen_mixed()
  elif kind == "ctor": gen = gen_ctor_small(shard[1])
  elif kind == "fresh": gen = gen_fresh(shard[1])
  i = 0
  for case in gen:
    fails = check_case(case)
    acc.count("evaluations")
    acc.count("cases_" + case[0])
    if _nontrivial(case, fails):
      acc.count("nontrivial")
    for f in fails:
      acc.violation(f[0], _jcase(case), f[1], f[2], f[3])
    if i in (7, 5000): acc.sample(_jcase(case))
    i += 1
  if kind == "boundary": acc.add("widths", (shard[1], shard[2]))
  return acc


def _jcase(c):
  return [list(x) if isinstance(x, tuple) else x for x in c]


def replay(case):
  case = tuple(tuple(x) if isinstance(x, list) and case[0] != "proto" else x for x in case)
  return check_case(case)


def finish(acc, tier):
  if acc.n["evaluations"] == 0: raise MachineryError("nothing evaluated")
  widths = sum(hi - lo for lo, hi in acc.sets["widths"])
  if widths != 1023: raise MachineryError(f"boundary widths covered {widths} != 1023")
  return dict(
    evaluations=int(acc.n["evaluations"]),
    distinct_nontrivial=int(acc.n["nontrivial"]),
    rule="every case is a distinct (operator, operand descriptors) tuple generated once; non-trivial = "
         "the mathematically un-reduced result leaves [0,2^n) (wrap), a width mismatch / out-of-range int "
         "requires an error, an int operand is negative or the maximum, or a comparison/bitwise case sits "
         "on a boundary (x==y, all-ones, zero)",
    exhaustive=True,
    bounds=dict(full_widths=5 if tier == "quick" else 8, boundary_widths="1..1023 (all)",
                mixed_width_list=list(MIXED), protocol_widths=int(acc.n["proto_closed"])),
    widths_covered=widths,
    states=acc.size("proto_states"), transitions=int(acc.n["transitions"]),
    protocol_closed=True,
  )
