"""C20 -- FL, CL and RTL example processors agree with the ISA on every program;
checksum FL/CL/RTL agree with the Fletcher specification.

Bounded exhaustive enumeration of instruction windows (built to collide on
x1/x2/x3 and two memory words) between a fixed prologue and epilogue, run on
ProcFL, ProcCL and ProcRTL inside a harness with scripted manager source/sink
and the real MagicMemoryCL, under a set of timing configurations and a
deviation-bounded stall oracle; the sink message sequence and the final data
memory must equal those of an independent interpreter of tinyrv0-isa.md.
"""
import itertools

from pymtl3 import Component, CallerIfcCL, Bits32, OutPort, update_once, non_blocking, connect, U, M

from vt import isa
from vt.acc import Acc, MachineryError
from vt.explore import choice_dfs, ChoiceRun

PROPERTY = "C20"
LEVEL = "exploration"
ASSUMPTIONS = [
  "oracle: vt/isa.py, an interpreter and encoder written from examples/ex03_proc/tinyrv0-isa.md; the accelerator is NullXcelRTL (xcelreg0 = one register)",
  "programs: prologue (csrr x1, csrr x2, x3 = 0x400, x5 = 2) + window + epilogue (x1, x2 and two data words to proc2mngr, branch-to-self); "
  "windows over a 19-letter alphabet; programs the interpreter does not halt within 400 steps are dropped and counted",
  "a processor must deliver exactly the interpreter's messages within a horizon of 400 + 60*len cycles and nothing more in the 40 cycles after",
  "timing: (memory latency, source delay, sink delay) configurations plus a stall oracle replacing the memory's random stalls (deviation bound 1 on the first 16 calls, shortest windows only)",
  "checksum: every 8-tuple over {0,1,0x00ff,0xffff} through ChecksumFL / ChecksumCL (one simulator, back-to-back) / ChecksumRTL (one simulator, back-to-back)",
]

DATA = 0x400
X = lambda n: n
P2M, M2P, XR0 = isa.PROC2MNGR, isa.MNGR2PROC, isa.XCELREG0

LETTERS = {
  "a1": [("addi", 1, 1, 1)], "a2": [("addi", 2, 1, -1)], "a3": [("add", 1, 1, 2)], "a4": [("add", 2, 2, 1)], "a5": [("and", 1, 2, 1)],
  "a6": [("sll", 1, 1, 2)], "a7": [("srl", 2, 2, 1)],
  "l1": [("lw", 1, 0, 3)], "l2": [("lw", 2, 4, 3)], "s1": [("sw", 1, 0, 3)], "s2": [("sw", 2, 4, 3)], "s3": [("sw", 1, 4, 3)],
  "b1": [("bne", 1, 2, 8)], "b2": [("addi", 5, 5, -1), ("bne", 5, 0, -4)],
  "c1": [("csrr", 1, M2P)], "c2": [("csrw", P2M, 1)], "x1": [("csrw", XR0, 1)], "x2": [("csrr", 2, XR0)], "f": [("addi", 4, 0, 1)],
}
SUB = ["a1", "a3", "l1", "s2", "b1", "c1", "c2", "x2", "a6"]
PROLOGUE = [("csrr", 1, M2P), ("csrr", 2, M2P), ("addi", 3, 0, DATA), ("addi", 5, 0, 2)]
EPILOGUE = [("csrw", P2M, 1), ("csrw", P2M, 2), ("lw", 6, 0, 3), ("csrw", P2M, 6), ("lw", 6, 4, 3), ("csrw", P2M, 6),
            ("addi", 7, 0, 1), ("bne", 7, 0, 0)]
MEM0 = {DATA + k: b for k, b in enumerate((0x44, 0x33, 0x22, 0x11, 0xF0, 0xFF, 0xFF, 0xFF))}
MNGR = {0: [5, 0xFFFFFFFE, 9, 3, 0x80000001, 6], 1: [7, 7, 7, 1, 2, 3]}


DATA_FAR = 0x2000
PROLOGUE_FAR = [("csrr", 1, M2P), ("csrr", 2, M2P), ("addi", 3, 0, 1), ("addi", 8, 0, 13), ("sll", 3, 3, 8), ("addi", 5, 0, 2)]


def data_addr(window):
  return DATA_FAR if window and str(window[0]).startswith("far") else DATA


def mem0(window):
  return {data_addr(window) + k: MEM0[DATA + k] for k in range(8)}


def program(window):
  prog = list(PROLOGUE)
  if window and str(window[0]).startswith("far"): prog = list(PROLOGUE_FAR)      # long programs: data lives above the text
  if window and window[0] == "far+":
    # a taken forward branch over n filler instructions (B-immediate boundary values around +-2 KiB)
    n = window[1]
    return prog + [("bne", 1, 0, 4 * (n + 1))] + [("addi", 1, 1, 1)] * n + EPILOGUE
  if window and window[0] == "far-":
    # a backward branch closing a loop of n instructions that runs twice (x5 counts 2 -> 0)
    n = window[1]
    body = [("addi", 5, 5, -1)] + [("addi", 2, 2, 1)] * (n - 1)
    return prog + body + [("bne", 5, 0, -4 * n)] + EPILOGUE
  for l in window: prog += LETTERS[l]
  return prog + EPILOGUE


FAR = [("far+", 3), ("far+", 510), ("far+", 511), ("far+", 512), ("far+", 515), ("far+", 1022), ("far-", 4), ("far-", 511), ("far-", 512), ("far-", 600), ("far-", 1023)]


class RSrc(Component):
  def construct(s, msgs, delay):
    s.send = CallerIfcCL(Type=Bits32)
    s.msgs, s.idx, s.count, s.delay = [Bits32(m) for m in msgs], 0, delay, delay

    @update_once
    def up_rsrc():
      if s.count > 0: s.count -= 1
      elif not s.reset:
        if s.send.rdy() and s.idx < len(s.msgs):
          s.send(s.msgs[s.idx]); s.idx += 1
          s.count = s.delay


class RSink(Component):
  def construct(s, delay):
    s.recv.Type = Bits32
    s.got, s.count, s.intv, s.called = [], delay, delay, False

    @update_once
    def up_rsink():
      if s.called: s.count = s.intv
      elif s.count != 0: s.count -= 1
      s.called = False

    s.add_constraints(U(up_rsink) < M(s.recv), U(up_rsink) < M(s.recv.rdy))

  @non_blocking(lambda s: s.count == 0)
  def recv(s, msg):
    s.got.append(int(msg))
    s.called = True


class Harness(Component):
  def construct(s, proc_cls, mngr, src_delay, sink_delay, mem_latency):
    from examples.ex03_proc.NullXcel import NullXcelRTL
    from pymtl3.stdlib.mem.MagicMemoryCL import MagicMemoryCL
    from pymtl3.stdlib.connects import connect_pairs
    s.commit_inst = OutPort()
    s.src = RSrc(mngr, src_delay)
    s.sink = RSink(sink_delay)
    s.proc = proc_cls()
    s.xcel = NullXcelRTL()
    s.mem = MagicMemoryCL(2, stall_prob=0.5, latency=mem_latency)
    connect_pairs(
      s.proc.commit_inst, s.commit_inst,
      s.src.send, s.proc.mngr2proc,
      s.proc.proc2mngr, s.sink.recv,
      s.proc.imem, s.mem.ifc[0],
      s.proc.dmem, s.mem.ifc[1],
    )
    connect(s.proc.xcel, s.xcel.xcel)


def proc_class(model):
  import importlib
  return getattr(importlib.import_module(f"examples.ex03_proc.Proc{model}"), f"Proc{model}")


class Oracle:
  def __init__(self, cr, limit): self.cr, self.n, self.limit = cr, 0, limit
  def random(self):
    self.n += 1
    if self.cr is None or self.n > self.limit: return 1.0
    return 0.0 if self.cr.choose(2, 1) else 1.0


def run_proc(model, prog, mngr, cfg, cr, nexpect, D=DATA):
  from pymtl3 import DefaultPassGroup
  lat, sd, kd = cfg
  th = Harness(proc_class(model), mngr, sd, kd, lat)
  th.elaborate()
  orc = Oracle(cr, 16)
  for st in th.mem.req_stalls: st.stall_rgen = orc
  th.mem.write_mem(isa.RESET_PC, isa.assemble_bytes(prog))
  th.mem.write_mem(D, bytearray(MEM0[DATA + k] for k in range(8)))
  th.apply(DefaultPassGroup())
  th.sim_reset()
  horizon = 400 + 60 * len(prog) if len(prog) < 100 else 20000
  extra = None
  for cyc in range(horizon):
    th.sim_tick()
    if len(th.sink.got) >= nexpect:
      if extra is None: extra = 40
      extra -= 1
      if extra <= 0: break
  return list(th.sink.got), tuple(th.mem.read_mem(D, 8))


def check_program(window, pair, cfgs, stall_bound, acc):
  prog = program(window)
  mngr = MNGR[pair]
  D = data_addr(window)
  want_out, mem, halted, taken = isa.run(prog, mngr, mem0(window), max_steps=400 if len(prog) < 100 else 6000)
  if not halted:
    acc.count("dropped_nonhalting"); return
  want_mem = tuple(mem.get(D + k, 0) for k in range(8))
  names = "+".join(map(str, window))
  for model in ("FL", "CL", "RTL"):
    for ci, cfg in enumerate(cfgs):
      bound = stall_bound if ci == 0 else 0
      def run(cr):
        try: return run_proc(model, prog, mngr, cfg, cr, len(want_out), D)
        except Exception as ex: return ex
      for choices, res in choice_dfs(run, bound=bound, cap=40):
        acc.count("evaluations")
        case = dict(kind="proc", model=model, window=list(window), pair=pair, cfg=list(cfg), stalls=choices)
        if isinstance(res, Exception):
          acc.violation(f"Proc{model}:raised:{type(res).__name__}:{_kinds(window)}", case, "runs", f"{type(res).__name__}: {str(res)[:150]}", names)
          break
        got, gmem = res
        if got != want_out:
          kind = "missing-messages" if got == want_out[:len(got)] else ("extra-messages" if got[:len(want_out)] == want_out else "wrong-messages")
          acc.violation(f"Proc{model}:{kind}:{_kinds(window)}", case, [hex(x) for x in want_out], [hex(x) for x in got], f"window {names} cfg(lat,src,sink)={cfg}")
          break
        if gmem != want_mem:
          acc.violation(f"Proc{model}:wrong-memory:{_kinds(window)}", case, list(want_mem), list(gmem), f"window {names}")
          break
  acc.count("programs")
  if _hazard(window): acc.add("hazard_windows", tuple(window))


def _kinds(window):
  if window and str(window[0]).startswith("far"): return f"{window[0]}{window[1]}"
  return "+".join(sorted({l.rstrip("0123456789") for l in window}))


def _hazard(window):
  if window and str(window[0]).startswith("far"): return True
  flat = [i for l in window for i in LETTERS[l]]
  for k in range(1, len(flat)):
    for d in (1, 2, 3):
      if k - d >= 0:
        prod, cons = flat[k - d], flat[k]
        rd = prod[1] if prod[0] not in ("sw", "bne", "csrw") else None
        op = cons[0]
        if op in ("add", "and", "sll", "srl"): srcs = cons[2:4]
        elif op == "addi": srcs = cons[2:3]
        elif op == "lw": srcs = cons[3:4]
        elif op == "sw": srcs = (cons[1], cons[3])
        elif op == "bne": srcs = cons[1:3]
        elif op == "csrw": srcs = cons[2:3]
        else: srcs = ()
        if rd and rd in srcs: return True
  return any(l in ("b1", "b2") for l in window)


def windows(tier):
  L = sorted(LETTERS)
  W = [()] + [(a,) for a in L] + [(a, b) for a in L for b in L]
  sub = SUB if tier == "quick" else L[:14]
  W += [(a, b, c) for a in sub for b in sub for c in sub]
  W += FAR
  if tier == "thorough":
    W += [(a, b, c, d) for a in SUB[:6] for b in SUB[:6] for c in SUB[:6] for d in SUB[:6]]
  return W


def cfgs_for(window, tier):
  base = [(1, 0, 0)]
  if window and str(window[0]).startswith("far"): return base
  if tier == "quick":
    if len(window) <= 1: return base + [(3, 3, 0), (2, 1, 3), (1, 0, 1)]
    if len(window) == 2: return base + [(3, 1, 0)]
    return base
  if len(window) <= 2: return [(l, s, k) for l in (1, 2, 3) for s in (0, 1, 3) for k in (0, 1, 3)]
  return base + [(3, 3, 0), (2, 1, 3)]


# ------------------------------------------------------------------ checksum

WORDS = (0, 1, 0x00FF, 0xFFFF)


def cksum_shard(first, acc):
  """all 8-tuples whose first two words are `first`; one CL and one RTL simulator reused back-to-back."""
  from pymtl3 import DefaultPassGroup, Bits16, Bits128, b16
  from examples.ex02_cksum.ChecksumFL import checksum
  from examples.ex02_cksum.ChecksumRTL import ChecksumRTL
  from examples.ex02_cksum.test.ChecksumCL_test import WrappedChecksumCL
  from examples.ex02_cksum.utils import words_to_b128
  rtl = ChecksumRTL(); rtl.elaborate(); rtl.apply(DefaultPassGroup()); rtl.sim_reset()
  cl = WrappedChecksumCL(); cl.elaborate(); cl.apply(DefaultPassGroup()); cl.sim_reset()
  rtl.send.rdy @= 1
  for rest in itertools.product(WORDS, repeat=6):
    ws = tuple(first) + rest
    want = isa.fletcher(ws)
    bits = words_to_b128([b16(w) for w in ws])
    acc.count("evaluations"); acc.count("cksum_inputs")
    res = {}
    try:
      res["FL"] = int(checksum([b16(w) for w in ws]))
      # CL
      n = 0
      while not cl.recv.rdy():
        cl.sim_tick(); n += 1
        if n > 20: raise TimeoutError("ChecksumCL never ready")
      cl.recv(bits); cl.sim_tick(); n = 0
      while not cl.give.rdy():
        cl.sim_tick(); n += 1
        if n > 20: raise TimeoutError("ChecksumCL never gives")
      res["CL"] = int(cl.give())
      # RTL
      n = 0
      while not rtl.recv.rdy:
        rtl.recv.en @= 0; rtl.sim_tick(); n += 1
        if n > 20: raise TimeoutError("ChecksumRTL never ready")
      rtl.recv.en @= 1; rtl.recv.msg @= bits; rtl.sim_tick(); n = 0
      while not rtl.send.en:
        rtl.recv.en @= 0; rtl.sim_tick(); n += 1
        if n > 20: raise TimeoutError("ChecksumRTL never sends")
      res["RTL"] = int(rtl.send.msg)
      rtl.recv.en @= 0
    except Exception as ex:
      acc.violation(f"cksum:raised:{type(ex).__name__}", dict(kind="cksum", words=list(ws)), hex(want), repr(ex)[:120]); return
    for m, v in res.items():
      if v != want:
        acc.violation(f"cksum:{m}:wrong", dict(kind="cksum", words=list(ws)), hex(want), hex(v), f"words={[hex(w) for w in ws]}")
    if any(w == 0xFFFF for w in ws): acc.count("cksum_overflowing")


# ------------------------------------------------------------------ runner API

def shards(tier):
  S = [("proc", i, 48) for i in range(48)]
  S += [("cksum", a, b) for a in WORDS for b in WORDS]
  return S


def run_shard(shard, tier, seed):
  acc = Acc()
  if shard[0] == "cksum":
    cksum_shard((shard[1], shard[2]), acc)
    acc.sample(dict(kind="cksum", first_words=[shard[1], shard[2]], rest="all 4^6 tuples over {0,1,0xff,0xffff}"))
    return acc
  W = windows(tier)
  for j in range(shard[1], len(W), shard[2]):
    w = W[j]
    far = bool(w) and str(w[0]).startswith("far")
    pairs = (0,) if far else ((0, 1) if any(l in ("b1",) for l in w) or len(w) <= 1 else (0,))
    for pair in pairs:
      check_program(w, pair, cfgs_for(w, tier), 1 if len(w) <= 1 and not far else 0, acc)
    if j % 500 == 0: acc.sample(dict(kind="proc", window=list(w), program=[list(i) for i in program(w)]))
  return acc


def replay(case):
  acc = Acc()
  if case["kind"] == "cksum":
    ws = case["words"]
    # replay through fresh simulators: run the whole shard prefix is unnecessary, the units are stateless between messages
    a2 = Acc()
    import itertools as it
    from pymtl3 import b16
    from examples.ex02_cksum.ChecksumFL import checksum
    from examples.ex02_cksum.test.ChecksumRTL_test import checksum_rtl
    from examples.ex02_cksum.test.ChecksumCL_test import checksum_cl
    want = isa.fletcher(ws)
    out = []
    for m, f in (("FL", checksum), ("CL", checksum_cl), ("RTL", checksum_rtl)):
      v = int(f([b16(w) for w in ws]))
      if v != want: out.append((f"cksum:{m}:wrong", hex(want), hex(v), ""))
    return out
  w = tuple(case["window"])
  if w and str(w[0]).startswith("far"): w = (w[0], int(w[1]))
  prog = program(w)
  mngr = MNGR[case["pair"]]
  D = data_addr(w)
  want_out, mem, halted, taken = isa.run(prog, mngr, mem0(w), max_steps=6000)
  want_mem = tuple(mem.get(D + k, 0) for k in range(8))
  try:
    got, gmem = run_proc(case["model"], prog, mngr, tuple(case["cfg"]), ChoiceRun(case["stalls"]), len(want_out), D)
  except Exception as ex:
    return [(f"Proc{case['model']}:raised", "runs", repr(ex)[:150], "")]
  out = []
  if got != want_out: out.append((f"Proc{case['model']}:messages", [hex(x) for x in want_out], [hex(x) for x in got], ""))
  if gmem != want_mem: out.append((f"Proc{case['model']}:memory", list(want_mem), list(gmem), ""))
  return out


def finish(acc, tier):
  if acc.n["programs"] < 300: raise MachineryError("too few programs")
  if acc.n["cksum_inputs"] != 65536: raise MachineryError(f"checksum inputs {acc.n['cksum_inputs']} != 65536")
  return dict(
    evaluations=int(acc.n["evaluations"]), distinct_nontrivial=acc.size("hazard_windows"),
    rule="one evaluation = one (processor model, program, manager values, timing config, stall schedule) run to completion and compared with the ISA interpreter, or one checksum input "
         "through the three models; non-trivial = distinct windows with a RAW dependence at distance <= 3 or a branch",
    exhaustive=True, programs=int(acc.n["programs"]), dropped_nonhalting=int(acc.n["dropped_nonhalting"]),
    checksum_inputs=int(acc.n["cksum_inputs"]), checksum_inputs_with_overflow=int(acc.n["cksum_overflowing"]),
    bounds=dict(window_letters=sorted(LETTERS), max_window=3 if tier == "quick" else 4),
  )
