"""C07 -- flip-flop updates are atomic at the clock edge.

Register-centred design families (vt/irgen.py f_reg, f_ffx) under every pass
group, every linear extension of the comb part, every permutation of the ff
blocks (all k! for k <= 4, rotations+reversals beyond) and every input
sequence; all signals compared with the reference tick (F evaluated on
pre-edge values only, last assignment wins, unassigned registers hold).
Additionally a probe interleaved between the ff blocks observes that no signal
changes before the flip.
"""
import itertools

from vt import ir, irgen, irref
from vt.acc import Acc, MachineryError
from vt.checks import c01
from vt.dut import Dut, GROUPS
from vt.explore import linear_extensions

PROPERTY = "C07"
LEVEL = "model_checking"
ASSUMPTIONS = [
  "designs: families f_reg and f_ffx of vt/irgen.py (1..9 ff blocks, Bits / struct / nested struct / list / list-of-struct registers, "
  "registers in parent, child and grandchild components, registers forwarded through nets)",
  "oracle: vt/irref.py tick semantics; plus a probe between ff blocks (schedule surgery on top._sched.schedule_ff, compiled by the real PrepareSimPass)",
  "ff permutations: all k! for k <= 4 ff blocks, all rotations and their reversals for k > 4",
]


def ff_orders(FF):
  if len(FF) <= 4: return [list(p) for p in itertools.permutations(FF)]
  out = []
  for i in range(len(FF)):
    r = FF[i:] + FF[:i]
    out.append(r); out.append(list(reversed(r)))
  return out


def designs():
  return list(irgen.f_reg()) + list(irgen.f_ffx())


def install_probed(dut, order, fforder, log):
  from pymtl3.passes.sim.PrepareSimPass import PrepareSimPass
  c01.install(dut, order, fforder)
  top = dut.top
  def probe():
    log.append(dut._read(top))
  sched = [probe]
  for b in top._sched.schedule_ff:
    sched.append(b); sched.append(probe)
  top._sched.schedule_ff = sched
  p = PrepareSimPass(print_line_trace=False)
  p.create_sim_tick(top)


def check_design(name, d, tier, acc):
  seqs = c01.sequences(d, tier)
  base = dict(design=name, ir=d, tier=tier)
  n = 0
  for g in GROUPS:
    dut = Dut(d, g, shuffle=(lambda n: 0))
    try:
      n += c01.lockstep(dut, irref.RefSim(d), seqs, f"group:{g}", acc, dict(base, mode="group", group=g))
      acc.count("schedules_run")
    finally: dut.close()
  dut = Dut(d, "simple", shuffle=(lambda n: 0))
  try:
    V, E, FF = c01.graph(dut)
    cap = 12 if tier == "quick" else 120
    exts = list(linear_extensions(V, E, cap))
    orders = ff_orders(FF)
    acc.count("ff_orders", len(orders)); acc.add("ffk", (name, len(FF)))
    ref = irref.RefSim(d)
    ref.state = dict(dut.obs())
    small = c01.thin(seqs, 16 if tier == "quick" else 64)
    for ei, ext in enumerate(exts):
      for fo in (orders if ei == 0 else orders[:2] + orders[-1:]):
        log = []
        install_probed(dut, ext, fo, log)
        nb = len(acc.violations)
        n += c01.lockstep(dut, ref, small, "ff-order", acc, dict(base, mode="ff", order=ext, ff=fo))
        acc.count("schedules_run")
        # the probe: within one tick all 1+k observations must be identical (nothing visible before the flip)
        k = len(fo) + 1
        for t in range(0, len(log) - k + 1, k):
          if any(log[t + j] != log[t] for j in range(1, k)):
            j = next(j for j in range(1, k) if log[t + j] != log[t])
            changed = [ir.inst_name(key) for key, a, b in zip(dut.keys, log[t], log[t + j]) if a != b]
            acc.violation("ff-order:visible-before-edge", dict(base, mode="ff", order=ext, ff=fo, hist=[]),
                          "no signal changes between the ff blocks", changed[:5], f"after ff block #{j} ({fo[j - 1]}) of tick {t // k}")
            break
        acc.count("probe_ticks", len(log) // k)
        ref.state = dict(dut.obs())
    # anti-vacuity: order sensitivity of the ff blocks = a naive in-place semantics (reference evaluated
    # sequentially, each ff block seeing earlier blocks' results) differs from the atomic one
    if len(FF) >= 2 and _naive_differs(d, small):
      acc.add("ff_order_sensitive", name)
  finally:
    dut.close()
  acc.count("evaluations", n)
  acc.count("designs")


def _naive_differs(d, seqs):
  """Would a non-atomic (immediately visible) <<= give different results for some ff order?"""
  r1, r2 = irref.RefSim(d, check_unique=False), irref.RefSim(d, check_unique=False)
  def naive_tick(r, rev):
    r.settle()
    for cpath, blk in (reversed(r.ff) if rev else r.ff):
      nxt = {}
      r.run(cpath, blk[2], {}, r.state, nxt, ff=True)
      r.state.update(nxt)
    r.settle()
  for seq in seqs[:8]:
    for inp in seq:
      r1.set_inputs(inp); r2.set_inputs(inp)
      naive_tick(r1, False); naive_tick(r2, True)
      if r1.state != r2.state: return True
  return False


def shards(tier):
  return list(range(len(designs())))


def run_shard(shard, tier, seed):
  acc = Acc()
  name, d = designs()[shard]
  check_design(name, d, tier, acc)
  if shard % 6 == 0:
    acc.sample(dict(design=name, source=ir.emit(d, "x")[0].splitlines()[-14:]))
  return acc


def replay(case):
  d = ir.norm_comp(case["ir"])
  acc = Acc()
  if case["mode"] == "group":
    return c01.replay(case)
  if not case.get("hist"):
    check_design(case["design"], d, case.get("tier", "quick"), acc)
    return [(v["sig"], v["expected"], v["observed"], v["msg"]) for v in acc.violations if v["sig"] == "ff-order:visible-before-edge"][:1]
  dut = Dut(d, "simple", shuffle=(lambda n: 0))
  log = []
  install_probed(dut, case["order"], case["ff"], log)
  ref = irref.RefSim(d)
  ref.state = dict(dut.obs())
  c01.lockstep(dut, ref, [[dict(h) for h in case["hist"]]], "ff-order", acc, dict(design=case["design"], ir=d))
  return [(v["sig"], v["expected"], v["observed"], v["msg"]) for v in acc.violations]


def finish(acc, tier):
  ns = acc.size("ff_order_sensitive")
  if ns < 5: raise MachineryError(f"only {ns} designs whose result would depend on the ff order under a non-atomic semantics: vacuous")
  return dict(
    states=int(acc.n["evaluations"]), transitions=int(acc.n["evaluations"]),
    traces_validated_against_impl=int(acc.n["schedules_run"]),
    evaluations=int(acc.n["evaluations"]), distinct_nontrivial=ns,
    rule="one execution = one (design, comb order, ff order or pass group) run over all input sequences; states = ticks compared with the reference; "
         "non-trivial = designs for which a NON-atomic (immediately visible) <<= would make two ff orders disagree",
    exhaustive=True, designs=int(acc.n["designs"]), ff_orders=int(acc.n["ff_orders"]), probe_ticks=int(acc.n["probe_ticks"]),
    max_ff_blocks=max((k for _, k in acc.sets["ffk"]), default=0),
    bounds=dict(seq_len=c01.SEQ_LEN[tier], pass_groups=list(GROUPS)),
  )
