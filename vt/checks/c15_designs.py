"""Real pymtl3 classes for the C15 (replace_component) exploration.

All leaf classes share the interface in_ : InPort(Bits4), out : OutPort(Bits4).
Top(A, L0, L1, B) can be built directly with any class at any position, so
"the design constructed from scratch with the replacement in place" exists.
"""
from pymtl3 import *


class LeafBase(Component):
  pass


def _touch(s, v):
  s.touched = int(v)


def _nb(s, v):
  s.nbv = int(v)


def add_methods(cls):
  """every leaf class also offers a method port and a non-blocking method interface that the PARENT level calls, constrains and
  connects (pymtl3 only looks for decorated methods in the class' own namespace, so they are put there)"""
  cls.touch = method_port(_touch)
  cls.nb = non_blocking(lambda s: True)(_nb)
  return cls


@bitstruct
class MfSt:
  inverse: Bits2                 # a field with the name of a method of every signal object
  data: Bits2


def add_lb(s):
  """every leaf also has a loop-back pair: the parent connects lb_out of a child back to lb_in of the SAME child"""
  s.lb_in = InPort(Bits4)
  s.lb_out = OutPort(Bits4)
  s.lb_seen = OutPort(Bits4)

  @update
  def up_lb_out():
    s.lb_out @= s.in_ + 7

  @update
  def up_lb_seen():
    s.lb_seen @= s.lb_in ^ 1

  s.mf = OutPort(MfSt)                     # the parent reads the field mf.inverse

  @update
  def up_mf():
    s.mf @= MfSt(s.in_[0:2], s.in_[2:4])

  s.ff_in = InPort(Bits4)                  # written by an update_ff block of the parent
  s.ff_seen = OutPort(Bits4)

  @update
  def up_ff_seen():
    s.ff_seen @= s.ff_in + 2


class Pass(LeafBase):
  def construct(s, inc=1):
    s.in_ = InPort(Bits4)
    s.out = OutPort(Bits4)
    add_lb(s)

    @update
    def up_pass():
      s.out @= s.in_ + inc


class Reg(LeafBase):
  def construct(s):
    s.in_ = InPort(Bits4)
    s.out = OutPort(Bits4)
    add_lb(s)

    @update_ff
    def ff_reg():
      s.out <<= s.in_


class Inner(Component):
  def construct(s):
    s.x = InPort(Bits4)
    s.y = OutPort(Bits4)
    s.k = InPort(Bits4)

    @update
    def up_inner():
      s.y @= s.x ^ s.k


class Nest(LeafBase):
  """own child + constant connection + slice connection + U<U constraint"""
  def construct(s):
    s.in_ = InPort(Bits4)
    s.out = OutPort(Bits4)
    add_lb(s)
    s.inner = Inner()
    s.t = Wire(Bits4)
    s.inner.x //= s.in_
    s.inner.k //= 5
    s.t[0:2] //= s.inner.y[2:4]
    s.t[2:4] //= s.inner.y[0:2]

    @update
    def up_nest_a():
      s.out @= s.t + 1

    s.v = Wire(Bits4)

    @update
    def up_nest_b():
      s.v @= s.in_

    s.add_constraints(U(up_nest_b) < U(up_nest_a))


class Con(LeafBase):
  """explicit RD/WR constraints on its own signals"""
  def construct(s):
    s.in_ = InPort(Bits4)
    s.out = OutPort(Bits4)
    add_lb(s)
    s.m = Wire(Bits4)
    s.n = Wire(Bits4)

    @update
    def up_con_m():
      s.m @= s.in_ + 2

    @update
    def up_con_out():
      s.out @= s.m ^ 1

    @update
    def up_con_n():
      s.n @= s.in_

    s.add_constraints(
      WR(s.n) < U(up_con_out),
      U(up_con_m) < RD(s.n),
    )


class Lam(LeafBase):
  def construct(s):
    s.in_ = InPort(Bits4)
    s.out = OutPort(Bits4)
    add_lb(s)
    s.h = Wire(Bits4)
    s.h //= lambda: s.in_ + 3
    s.out //= lambda: s.h ^ 6


class Sl(LeafBase):
  """update blocks that use slices (slice signals are created while elaborating the blocks)"""
  def construct(s):
    s.in_ = InPort(Bits4)
    s.out = OutPort(Bits4)
    add_lb(s)

    @update
    def up_sl():
      s.out[0:2] @= s.in_[2:4]
      s.out[2:4] @= s.in_[0:2] + 1


class Counter(Component):
  def construct(s):
    s.cnt = 0

  @non_blocking(lambda s: True)
  def bump(s, v):
    s.cnt += int(v)

  @non_blocking(lambda s: True)
  def peek(s):
    return s.cnt


class CL(LeafBase):
  """cycle-level: an internal callee component, update_once callers and method constraints"""
  def construct(s):
    s.in_ = InPort(Bits4)
    s.out = OutPort(Bits4)
    add_lb(s)
    s.ctr = Counter()
    s.acc = Wire(Bits4)

    @update_once
    def up_cl_bump():
      if s.ctr.bump.rdy():
        s.ctr.bump(s.in_)

    @update_once
    def up_cl_out():
      s.out @= s.in_ + 4

    s.add_constraints(M(s.ctr.bump) < M(s.ctr.peek), U(up_cl_out) < U(up_cl_bump))


class Scale(Component):
  @method_port
  def mul3(s, x):
    return x * 3

  def construct(s):
    pass


class MNet(LeafBase):
  """an internal method net: a CallerPort connected to a child's CalleePort"""
  def construct(s):
    s.in_ = InPort(Bits4)
    s.out = OutPort(Bits4)
    add_lb(s)
    s.scale = Scale()
    s.call = CallerPort()
    s.call //= s.scale.mul3

    @update_once
    def up_mnet():
      s.out @= trunc(s.call(zext(s.in_, 8)), 4) + 1


class Plain(LeafBase):
  """no method port anywhere below it (the parent-level method calls need one, so this class only fits position m0, which no
  ancestor calls): replacing it is the one case in which the removed subtree owns no method port at all"""
  def construct(s):
    s.in_ = InPort(Bits4)
    s.out = OutPort(Bits4)
    add_lb(s)

    @update
    def up_plain():
      s.out @= s.in_ + 1


for _c in (Pass, Reg, Nest, Con, Lam, Sl, CL, MNet): add_methods(_c)
CATALOG = {"Pass": Pass, "Reg": Reg, "Nest": Nest, "Con": Con, "Lam": Lam, "Sl": Sl, "CL": CL, "MNet": MNet, "Plain": Plain}
ONLY_AT = {"Plain": ("m0",)}


class Mid(Component):
  def construct(s, B, M0):
    s.in_ = InPort(Bits4)
    s.out = OutPort(Bits4)
    s.b = B()
    s.b.in_ //= s.in_
    s.bl = [M0(), Pass()]              # a component list that is NOT directly under the top
    s.bl[0].in_ //= s.b.out
    s.bl[1].in_ //= s.bl[0].out
    s.lb_o = OutPort(Bits4)
    s.bl[0].lb_in //= s.bl[0].lb_out       # loop-back on a list element below a non-top parent
    s.lb_o //= s.bl[0].lb_seen

    @update
    def up_mid():
      s.out @= s.bl[1].out + 2


class Top(Component):
  def construct(s, A, L0, L1, B, M0):
    s.in_ = InPort(Bits4)
    s.out = OutPort(Bits4)
    s.o2 = OutPort(Bits4)
    s.o3 = OutPort(Bits2)
    s.o4 = OutPort(Bits4)
    s.o5 = OutPort(Bits4)
    s.o6 = OutPort(Bits4)
    s.o7 = OutPort(Bits4)
    s.o8 = OutPort(Bits4)
    s.a = A()
    s.l = [L0(), L1()]
    s.mid = Mid(B, M0)
    s.w = Wire(Bits4)

    s.a.in_ //= s.in_                      # connection into a child

    @update
    def up_w():
      s.w @= s.a.out + 1                   # parent block reads a child's out port

    @update
    def up_l0():
      s.l[0].in_ @= s.w ^ 3                # parent block writes a child's in port

    s.l[1].in_[0:2] //= s.l[0].out[2:4]    # slice-to-slice connection between siblings
    s.l[1].in_[2:4] //= 2                  # constant into a slice of a child's port
    s.mid.in_ //= s.l[1].out
    s.out //= s.mid.out
    s.o3 //= s.l[0].out[0:2]

    @update
    def up_o2():
      s.o2 @= s.l[1].out & s.a.out

    s.add_constraints(U(up_w) < U(up_o2))

    s.a.lb_in //= s.a.lb_out               # loop-back connections made in the parent between two ports of ONE child
    s.l[1].lb_in //= s.l[1].lb_out
    s.o4 //= s.a.lb_seen

    @update
    def up_deep():
      s.o5 @= s.mid.b.out ^ s.l[1].lb_seen  # the top reads an out port two levels down

    s.o6 //= s.mid.lb_o

    @update_ff
    def ff_to_child():
      s.l[0].ff_in <<= s.in_               # the parent registers a value INTO a port of a child
    s.o8 //= s.l[0].ff_seen

    s.tc = CallerPort()
    s.tc //= s.l[0].touch                  # a method connection made by the parent

    @update_once
    def up_touch():
      s.a.touch(s.in_)                     # the parent calls a method port of a child ...
      s.mid.b.touch(s.in_)                 # ... and of a component two levels down
      s.tc(s.in_)
      if s.l[1].nb.rdy():                  # non-blocking interface of a list element
        s.l[1].nb(s.in_)

    s.add_constraints(
      U(up_l0) < RD(s.a.lb_seen),          # value constraints of the parent on ports of a child
      WR(s.a.in_) < U(up_w),
      M(s.a.touch) < U(up_w),              # method constraint of the parent on a method port of a child
    )

    # an ancestor's ordering constraint on an update BLOCK of a child, a method constraint on a non-blocking INTERFACE of a child
    s.add_constraints(
      U(up_w) < U(s.a.get_update_block("up_lb_out")),
      M(s.l[1].nb) < U(up_o2),
    )

    # a function of the top that reads a port two levels down, called from a block
    s.o9 = OutPort(Bits4)

    @s.func
    def f_deep(x):
      s.o9 @= s.mid.b.out ^ x

    @update
    def up_func():
      f_deep(s.in_)

    # a block that loops over the list of children (the list elements themselves are in its read set)
    s.o10 = OutPort(Bits4)

    @update
    def up_loop():
      t = Bits4(0)
      for m in s.l:
        t = t ^ m.out
      s.o10 @= t

    # constraints whose BLOCK side is a block of a child: against a signal of the parent and against a method port of another child
    s.add_constraints(
      U(s.l[0].get_update_block("up_ff_seen")) < RD(s.w),
      U(s.l[1].get_update_block("up_ff_seen")) < WR(s.w),
      M(s.a.touch) < U(s.l[1].get_update_block("up_lb_seen")),
    )

    # a function of the top that loops over the list of children
    s.o11 = OutPort(Bits4)

    @s.func
    def f_loop():
      t = Bits4(0)
      for m in s.l:
        t = t ^ m.out
      s.o11 @= t

    @update
    def up_func_loop():
      f_loop()

    # second references (plain Python bookkeeping) to objects of the children, used by a block
    s.a_out_ref = s.a.out
    s.l_outs = [m.out for m in s.l]
    s.first = s.l[0]
    s.o12 = OutPort(Bits4)

    @update
    def up_refs():
      s.o12 @= s.a_out_ref ^ s.l_outs[1] ^ s.first.lb_seen

    s.o13 = OutPort(Bits2)

    @update
    def up_mf_rd():
      s.o13 @= s.a.mf.inverse ^ s.l[1].mf.inverse

    @update
    def up_slices():
      s.o7 @= concat(s.a.out[1:3], s.l[0].out[3:4], s.mid.b.lb_seen[0])   # slices of child ports that occur ONLY in this block


POSITIONS = ("a", "l0", "l1", "b", "m0")


def build(cfg):
  """cfg: dict position -> class name"""
  c = {p: CATALOG[cfg[p]] for p in POSITIONS}
  top = Top(c["a"], c["l0"], c["l1"], c["b"], c["m0"])
  # a construct parameter given through the parameter tree to a sibling (never replaced) of the list position m0:
  # the parent of a replaced list element then has parameter-tree children to walk
  top.set_param("top.mid.bl[1].construct", inc=1)
  # ... and an entry that names the replaced list position itself (a hook nobody consumes, so every class accepts it)
  top.set_param("top.mid.bl[0].user_hint", note=1)
  return top


def locate(top, pos):
  return {"a": lambda: top.a, "l0": lambda: top.l[0], "l1": lambda: top.l[1], "b": lambda: top.mid.b, "m0": lambda: top.mid.bl[0]}[pos]()
