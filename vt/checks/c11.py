"""C11 -- combinational cycles settle on a fixed point or are reported.

Cyclic block graphs (vt/irgen.py f_cyc) under the cyclic-capable schedulers
(DynamicSchedulePass, Mamba2020Pass) and the acyclic-only ones (must reject).
Every input sequence up to the bound sets a different pre-state of the loop
wires. On return: every block re-invoked changes nothing; false loops equal
the reference; divergent loops and loops with an update_once member raise.
"""
import itertools
import signal

from vt import ir, irgen, irref
from vt.acc import Acc, MachineryError
from vt.dut import Dut

PROPERTY = "C11"
LEVEL = "model_checking"
ASSUMPTIONS = [
  "designs: f_cyc of vt/irgen.py -- false loops through top-level signals, disjoint slices, struct fields, nested fields, list elements and mixtures; "
  "loops entered from a predecessor SCC and as graph sources; rings of 3..12 blocks; convergent (latching) and divergent true loops; update_once members",
  "false loops: the design is bit-level acyclic, so the reference fixed point is unique and must be matched from EVERY pre-state",
  "convergent true loops: only the fixed-point property is checked (their value legitimately depends on history)",
  "acyclic-only passes (Simple, HeuristicTopo, Unroll) must reject a cyclic design with UpblkCyclicError (also on a machine without the graphviz tools)",
  "hang detection: a 20 s alarm per design and pass group",
]

CYCLIC = ("dynamic", "mamba")
ACYCLIC = ("simple", "heuristic", "unroll")


class Timeout(Exception):
  pass


def _alarm(sig, frm):
  raise Timeout()


def input_seqs(d, L):
  names = [n for n, k, t, dims in d["sigs"] if k == "in" and not dims]
  widths = [ir.width(t) for n, k, t, dims in d["sigs"] if k == "in" and not dims]
  vecs = list(itertools.product(*[range(1 << w) for w in widths]))
  letters = [dict(zip(names, v)) for v in vecs]
  return [list(s) for s in itertools.product(letters, repeat=L)]


def _no_viewer(*a, **k):
  """environment answer for the drawing aid the passes call before they raise: the graphviz viewer is not installed"""
  raise FileNotFoundError(2, "No such file or directory", "xdg-open")


def is_cyclic_error(ex):
  from pymtl3.dsl.errors import UpblkCyclicError
  return isinstance(ex, UpblkCyclicError)


def check_design(name, d, expect, tier, acc, only_group=None):
  base = dict(design=name, ir=d, expect=expect, tier=tier)
  dcls = name.split(":")[1] if ":" in name else name       # design class in every signature (cyc:<class>:...)
  L = 2 if tier == "quick" else 3
  seqs = input_seqs(d, L)
  if tier == "quick": seqs = seqs[:: max(1, len(seqs) // 64)] if expect in ("diverge",) else seqs
  old = signal.signal(signal.SIGALRM, _alarm)
  try:
    for g, viewer in [(g, v) for g in ACYCLIC for v in (None, _no_viewer)]:
      if only_group and g != only_group: continue
      try:
        dut = Dut(d, g, shuffle=(lambda n: 0), dump_dag=viewer)
        dut.close()
        acc.violation(f"{g}:cyclic-design-accepted:{dcls}", dict(base, group=g, hist=[]), "rejected with an error", "scheduled", f"expect={expect}")
      except Exception as ex:
        acc.count("rejected"); acc.count("rejected_with_" + type(ex).__name__)
        if not is_cyclic_error(ex):
          acc.violation(f"{g}:cyclic-design-rejected-with-another-error:{dcls}", dict(base, group=g, hist=[]), "UpblkCyclicError", f"{type(ex).__name__}: {str(ex)[:120]}", f"expect={expect}")
      acc.count("executions")
    for g in CYCLIC:
      if only_group and g != only_group: continue
      signal.alarm(20 if tier == "quick" else 120)
      try:
        _run_cyclic(name, d, expect, g, seqs, acc, base)
      except Timeout:
        acc.violation(f"{g}:hang:{dcls}", dict(base, group=g, hist=[]), "returns or raises", "no return within the time budget")
      finally:
        signal.alarm(0)
  finally:
    signal.signal(signal.SIGALRM, old)
  acc.count("designs")
  acc.add("kinds", expect)


def _run_cyclic(name, d, expect, g, seqs, acc, base):
  dcls = name.split(":")[1] if ":" in name else name
  try:
    dut = Dut(d, g, shuffle=(lambda n: 0))
  except Exception as ex:
    if expect == "once" and is_cyclic_error(ex):
      acc.count("once_rejected"); acc.count("executions")
      return
    acc.violation(f"{g}:scheduling-raised:{dcls}", dict(base, group=g, hist=[]), "schedulable" if expect != "once" else "UpblkCyclicError", repr(ex)[:200])
    return
  try:
    if expect == "once":
      acc.violation(f"{g}:update_once-in-cycle-accepted:{dcls}", dict(base, group=g, hist=[]), "UpblkCyclicError", "scheduled")
      return
    top = dut.top
    blocks = [b for b in top._dag.final_upblks if b not in top.get_all_update_ff()]
    ref = irref.RefSim(d) if expect == "false" else None
    nsteps = 0
    for seq in seqs:
      hist = []
      for inp in seq:
        hist.append(inp)
        dut.set_inputs(inp)
        raised = None
        try:
          dut.eval_comb()
        except Exception as ex:
          raised = ex
        nsteps += 1
        if raised is not None:
          if is_cyclic_error(raised) and expect in ("diverge",):
            acc.count("diverge_reported")
            # after a reported divergence the state is not required to be stable; resynchronise by rebuilding
            dut.close(); dut = Dut(d, g, shuffle=(lambda n: 0)); top = dut.top
            blocks = [b for b in top._dag.final_upblks if b not in top.get_all_update_ff()]
            break
          acc.violation(f"{g}:{expect}:eval-raised:{dcls}", dict(base, group=g, hist=hist), "returns", repr(raised)[:200])
          return
        # returned: must be a fixed point, whatever the kind of loop
        before = dut.obs()
        for b in blocks: b()
        after = dut.obs()
        if after != before:
          ch = [(ir.inst_name(k), before[k], after[k]) for k in before if before[k] != after[k]]
          acc.violation(f"{g}:{expect}:returned-unstable-state:{dcls}", dict(base, group=g, hist=hist), "fixed point", ch[:5],
                        "re-running the update blocks after sim_eval_combinational changed signals")
          return
        acc.count("fixpoints_checked")
        if ref is not None:
          ref.set_inputs(inp); ref.settle()
          ro = ref.obs()
          if ro != before:
            ch = [(ir.inst_name(k), ro[k], before[k]) for k in ro if ro[k] != before[k]]
            acc.violation(f"{g}:false-loop:wrong-values:{dcls}", dict(base, group=g, hist=hist), {n: e for n, e, o in ch[:5]}, {n: o for n, e, o in ch[:5]},
                          "values differ from the equivalent acyclic design")
            return
    acc.count("evaluations", nsteps)
    acc.count("executions")
  finally:
    dut.close()


def items():
  return list(irgen.f_cyc())


def hand_once_fl(call_fl):
  """an update_once block inside a three-block cycle; with call_fl it also calls a blocking (FL) method, so it is scheduled
  through a greenlet wrapper"""
  from pymtl3 import Component, Wire, Bits8, update, update_once, connect, CalleeIfcFL, CallerIfcFL

  class Mem(Component):
    def construct(s):
      s.read = CalleeIfcFL(method=s.rd)

    def rd(s, a):
      return a

  class CycFL(Component):
    def construct(s):
      s.mem = Mem()
      s.rd = CallerIfcFL()
      connect(s.rd, s.mem.read)
      s.x = Wire(Bits8); s.y = Wire(Bits8); s.z = Wire(Bits8)
      if call_fl:
        @update_once
        def up1():
          s.x @= s.rd(s.z) | 1
      else:
        @update_once
        def up1():
          s.x @= s.z | 1

      @update
      def up2():
        s.y @= s.x

      @update
      def up3():
        s.z @= s.y
  return CycFL


def check_hand(acc):
  from pymtl3.passes.PassGroups import DefaultPassGroup
  from pymtl3.passes.mamba.PassGroups import Mamba2020
  for call_fl in (0, 1):
    for g, mk in (("dynamic", lambda: DefaultPassGroup()), ("mamba", lambda: Mamba2020(print_line_trace=False))):
      t = hand_once_fl(call_fl)()
      t.elaborate()
      acc.count("executions"); acc.count("designs" if g == "dynamic" else "hand_runs"); acc.add("kinds", "once")
      try:
        t.apply(mk())
        acc.violation(f"{g}:update_once-in-cycle-accepted:hand-fl{call_fl}", dict(hand="once_fl", call_fl=call_fl, group=g), "UpblkCyclicError", "scheduled")
      except Exception as ex:
        if is_cyclic_error(ex): acc.count("once_rejected")
        else: acc.violation(f"{g}:scheduling-raised:hand-fl{call_fl}", dict(hand="once_fl", call_fl=call_fl, group=g), "UpblkCyclicError", repr(ex)[:200])


def hand_transient():
  """a false loop in which a block of the cyclic group indexes a list with the sum of two wires that always add up to 4 in a
  settled design; during the iteration of the group the block can see the new value of one and the stale value of the other"""
  from pymtl3 import Component, InPort, Wire, OutPort, update

  class Transient(Component):
    def construct(s):
      s.off = InPort(4)
      s.tin = [InPort(8) for _ in range(5)]
      s.off_w = Wire(4)
      s.table = [Wire(8) for _ in range(5)]
      s.idx = Wire(4)
      s.out = Wire(8)
      s.res = OutPort(8)

      @update
      def up_p():
        s.off_w @= s.off

      @update
      def up_t():
        for i in range(5):
          s.table[i] @= s.tin[i]

      @update
      def up_gen():                       # two independent halves: a false loop with up_a_lookup
        s.idx @= 4 - s.off_w
        s.res @= s.out + 1

      @update
      def up_a_lookup():
        s.out @= s.table[s.idx + s.off_w]
  return Transient


def check_transient(acc):
  """every sequence of three values of off in 0..4: the evaluation returns, with res = tin[4] + 1"""
  import itertools
  from pymtl3.passes.PassGroups import DefaultPassGroup
  from pymtl3.passes.mamba.PassGroups import Mamba2020
  TIN = (0x10, 0x20, 0x30, 0x40, 0x50)
  for g, mk in (("dynamic", lambda: DefaultPassGroup()), ("mamba", lambda: Mamba2020(print_line_trace=False))):
    bad = None
    for seq in itertools.product(range(5), repeat=3):
      t = hand_transient()(); t.elaborate(); t.apply(mk())
      for i in range(5): t.tin[i] @= TIN[i]
      acc.count("executions"); acc.count("hand_runs")
      try:
        for off in seq:
          t.off @= off
          t.sim_eval_combinational()
          acc.count("evaluations")
          if int(t.res) != TIN[4] + 1: bad = (seq, "res", int(t.res)); break
      except Exception as ex:
        bad = (seq, "raised", f"{type(ex).__name__}: {str(ex)[:80]}")
      if bad: break
    if bad:
      acc.violation(f"{g}:false-loop-sees-transient-input-combination:{bad[1]}", dict(hand="transient", group=g), f"res = {TIN[4] + 1} after every evaluation", str(bad[2]), f"off sequence {bad[0]}")


def shards(tier):
  return list(range(len(items()))) + ["hand", "transient"]


def run_shard(shard, tier, seed):
  acc = Acc()
  if shard == "hand":
    check_hand(acc)
    return acc
  if shard == "transient":
    check_transient(acc)
    return acc
  name, d, expect = items()[shard]
  check_design(name, d, expect, tier, acc)
  if shard % 8 == 0: acc.sample(dict(design=name, expect=expect, source=ir.emit(d, "x")[0].splitlines()[-10:]))
  return acc


def replay(case):
  acc = Acc()
  if case.get("hand") == "transient":
    check_transient(acc)
    return [(v["sig"], v["expected"], v["observed"], v["msg"]) for v in acc.violations if v["case"] == case]
  if case.get("hand"):
    check_hand(acc)
    return [(v["sig"], v["expected"], v["observed"], v["msg"]) for v in acc.violations if v["case"] == case]
  d = ir.norm_comp(case["ir"])
  check_design(case["design"], d, case["expect"], case.get("tier", "quick"), acc, only_group=case.get("group"))
  return [(v["sig"], v["expected"], v["observed"], v["msg"]) for v in acc.violations]


def finish(acc, tier):
  if acc.sets["kinds"] != {"false", "converge", "diverge", "once"}: raise MachineryError(f"kinds covered: {acc.sets['kinds']}")
  if not acc.n["diverge_reported"] or not acc.n["once_rejected"] or not acc.n["fixpoints_checked"]:
    raise MachineryError("a class of cyclic designs was never exercised")
  return dict(
    states=int(acc.n["fixpoints_checked"]), transitions=int(acc.n["evaluations"]),
    traces_validated_against_impl=int(acc.n["executions"]),
    evaluations=int(acc.n["evaluations"]), distinct_nontrivial=int(acc.n["designs"]),
    rule="states = evaluations that returned and were re-checked for the fixed point (false loops also against the reference); every design is cyclic at block level; "
         "input sequences of length 2 (3) over all input values set every reachable pre-state of the loop wires",
    exhaustive=True, designs=int(acc.n["designs"]), diverge_reported=int(acc.n["diverge_reported"]),
    once_rejected=int(acc.n["once_rejected"]), acyclic_pass_rejections=int(acc.n["rejected"]),
    rejection_exception_types={k[len("rejected_with_"):]: int(v) for k, v in acc.n.items() if k.startswith("rejected_with_")},
  )
