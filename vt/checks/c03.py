"""C03 -- translated SystemVerilog behaves exactly like the PyMTL simulation.

Every translatable design of the E2 families and of the typed expression /
statement family (vt/exprfam.py) is translated with the real
VerilogTranslationPass; the emitted text is parsed and executed by the E3
interpreter (vt/svparse.py, vt/svsim.py: IEEE 1800 two-state semantics with
context-determined sizing) for every input vector / sequence and compared, on
every output port and cycle, with the PyMTL simulation and the IR reference.
The text must parse, define every instantiated module, and give every variable
bit exactly one driver.
"""
import os

from vt import ir, irgen, exprfam, structfam, ifcfam, stmtfam, trcheck
from vt.acc import Acc, MachineryError
from vt.checks import c01

PROPERTY = "C03"
LEVEL = "translation_validation"
BACKEND = "sv"
ASSUMPTIONS = [
  "no Verilog simulator exists in the sandbox: the emitted text is executed by the project's own interpreter of the emitted subset (vt/svsim.py), "
  "which implements IEEE 1800-2017 clause 11 sizing (self-/context-determined operands, casts, concatenation) and is unsigned-only; constructs outside the subset are a machinery error, not a verdict",
  "the interpreter is calibrated three ways: PyMTL simulation, the independent IR reference (vt/irref.py) and the interpreted text must all agree (any PyMTL-vs-reference disagreement is a machinery error)",
  "designs the backend refuses to translate are outside the property (counted); syntactic validity is decided for the subset grammar only",
  "hand-written statement family (vt/stmtfam.py, 57 designs): each has its own reference function in plain ints; a disagreement between the reference and the PyMTL simulation is a machinery error, "
  "the interpreted text is compared with both on two input sequences of 336 and 120 steps",
  "inputs: all input vectors (thinned to 24 sequences for sequential E2 designs, 96 vectors for the expression family)",
]

CHUNK = 24


def expr_items(tier):
  st = exprfam.statements(tier)
  items = [(k, sh, w, stmts) for k, (sh, w, stmts) in enumerate(st)]
  return [items[i:i + CHUNK] for i in range(0, len(items), CHUNK)]


def work(tier):
  W = [("ir", name) for name, d in irgen.all_designs()]
  W += [("ex", i) for i in range(len(expr_items(tier)))]
  W += [("sp", name) for name, d in structfam.designs()]
  W += [("cls", name) for name in ifcfam.DESIGNS]
  W += [("st", name) for name in stmtfam.DESIGNS]
  W += [("aftersim", name) for name in AFTER_SIM]
  return W


AFTER_SIM = ("Counter", "ChildInBlock", "StructReg", "IfcInBlock", "cls:CompArray", "cls:FooTop", "cls:DownLoop", "cls:NestedIfcConn", "cls:PassThroughHier")


def run_after_sim(key, backend, acc):
  """translating a design that has already been simulated: refused, or the same text as a fresh instance gives"""
  from pymtl3 import DefaultPassGroup
  cls = ifcfam.DESIGNS[key[4:]] if key.startswith("cls:") else stmtfam.DESIGNS[key]
  case = dict(kind="aftersim", design=key, backend=backend)
  try:
    fresh, _ = trcheck.translate(cls, backend)
  except Exception:
    acc.count("not_translatable"); return "skipped"
  P = trcheck.backend_pass(backend)
  m = cls(); m.elaborate(); m.apply(DefaultPassGroup()); m.sim_reset(); m.sim_tick()
  acc.count("evaluations")
  try:
    m.set_metadata(P.enable, True)
    m.apply(P())
    fn = m.get_metadata(P.translated_filename)
    with open(fn) as f: text = f.read()
    os.remove(fn)
  except (NameError, OSError):
    raise
  except Exception:
    acc.count("after_sim_refused"); return "ok"
  strip = lambda t: "\n".join(l for l in t.splitlines() if l.strip() and not l.strip().startswith("//"))
  if strip(text) != strip(fresh):
    acc.violation(f"{backend}:aftersim:different-text:{key}", case, "refused, or the text of a fresh instance", f"{len(strip(text).splitlines())} lines instead of {len(strip(fresh).splitlines())}",
                  "translation of an instance that has been simulated")
    return "violation"
  return "ok"


def shards(tier):
  return [(i, 64) for i in range(64)]


def run_stmt(key, backend, acc):
  prefix = f"{backend}:struct-behavioral" if key in stmtfam.STRUCT_BEHAVIORAL else f"{backend}:stmt"
  if key in stmtfam.SIM_KNOWN_WRONG:
    acc.count("skipped_simulation_known_wrong")
    return "skipped"
  if key in stmtfam.MAY_REFUSE_SIM:
    acc.count("skipped_simulation_may_refuse")
    return "skipped"
  if key in stmtfam.MAY_REJECT:
    import pymtl3.dsl.errors as dsl_errors
    try:
      t = stmtfam.DESIGNS[key](); t.elaborate()
    except Exception as ex:
      if type(ex).__module__ != dsl_errors.__name__: raise
      acc.count("rejected_by_dsl")
      return "rejected"
  return trcheck.check_class_ref(key, stmtfam.DESIGNS[key], backend, acc, stmtfam.sequences(), stmtfam.REF[key], sig_prefix=prefix)


def run_one(kind, key, tier, acc, backend):
  if kind == "ir":
    d = dict(irgen.all_designs())[key]
    seqs = c01.thin(c01.sequences(d, "quick"), 24 if tier == "quick" else 96)
    return trcheck.check_ir_design(key, d, backend, seqs, acc, backend)
  if kind == "cls":
    return trcheck.check_class(key, ifcfam.DESIGNS[key], backend, acc, trcheck.class_vectors)
  if kind == "st":
    return run_stmt(key, backend, acc)
  if kind == "aftersim":
    return run_after_sim(key, backend, acc)
  if kind == "sp":
    d = dict(structfam.designs())[key]
    return trcheck.check_ir_design(key, d, backend, structfam.input_seqs(d), acc, backend)
  chunk = expr_items(tier)[key]
  d = exprfam.design(chunk)
  seqs = [[v] for v in exprfam.inputs()]
  r = trcheck.check_ir_design(f"expr:chunk{key}", d, backend, seqs, acc, backend)
  if r == "violation":
    # isolate the offending statements: re-run each statement of the chunk on its own
    sub = Acc()
    for it in chunk:
      trcheck.check_ir_design(f"expr:{it[1]}", exprfam.design([it]), backend, seqs, sub, backend)
    if sub.violations:
      acc.violations = [v for v in acc.violations if not v["case"]["design"].startswith(f"expr:chunk{key}")] + sub.violations
  acc.count("expr_statements", len(chunk))
  return r


def run_shard(shard, tier, seed, backend=None):
  backend = backend or BACKEND
  acc = Acc()
  W = work(tier)
  irs = None
  for j in range(shard[0], len(W), shard[1]):
    kind, key = W[j]
    run_one(kind, key, tier, acc, backend)
    if j % 150 == 0: acc.sample(dict(kind=kind, design=str(key)))
  return acc


def replay(case, backend=None):
  acc = Acc()
  if case.get("kind") == "aftersim":
    run_after_sim(case["design"], case.get("backend", backend or BACKEND), acc)
    return [(v["sig"], v["expected"], v["observed"], v["msg"]) for v in acc.violations][:3]
  if case.get("kind") == "stmt":
    run_stmt(case["design"], case.get("backend", backend or BACKEND), acc)
    return [(v["sig"], v["expected"], v["observed"], v["msg"]) for v in acc.violations][:3]
  if case.get("kind") == "class":
    b = case.get("backend", backend or BACKEND)
    trcheck.check_class(case["design"], ifcfam.DESIGNS[case["design"]], b, acc, trcheck.class_vectors)
    return [(v["sig"], v["expected"], v["observed"], v["msg"]) for v in acc.violations][:3]
  d = ir.norm_comp(case["ir"])
  name = case["design"]
  if "inputs" in case: seqs = [[{trcheck.unjk(k): v for k, v in i} for i in case["inputs"]]]
  elif name.startswith("expr:"): seqs = [[v] for v in exprfam.inputs()]
  elif name.startswith("sp:"): seqs = structfam.input_seqs(d)
  else: seqs = c01.thin(c01.sequences(d, "quick"), 24)
  trcheck.check_ir_design(name, d, case.get("backend", backend or BACKEND), seqs, acc, case.get("backend", backend or BACKEND))
  return [(v["sig"], v["expected"], v["observed"], v["msg"]) for v in acc.violations][:3]


def finish(acc, tier):
  if acc.n["programs"] < 300: raise MachineryError(f"only {acc.n['programs']} designs translated")
  return dict(
    programs=int(acc.n["programs"]), disagreements_checked=int(acc.n["evaluations"]),
    evaluations=int(acc.n["evaluations"]), distinct_nontrivial=acc.size("nontrivial"),
    rule="program = one translated design; disagreements_checked = (design, input step) points at which every output port of the interpreted text was compared with PyMTL; "
         "non-trivial = designs whose outputs take >= 2 values and whose text contains an operator / cast / select",
    exhaustive=True, not_translatable=int(acc.n["not_translatable"]), expression_statements=int(acc.n["expr_statements"]),
    translate_error_types=sorted(acc.sets["translate_errors"]),
  )
