"""C13 -- translation is deterministic and module names never alias different hardware.

(i)  determinism: a catalogue of designs is translated by both backends in fresh child processes for an enumerated
     list of PYTHONHASHSEED values and, in-process, under object-hash permutations; the texts must be byte-identical.
(ii) aliasing: every pair of child instances from a catalogue built to collide (same class / different parameter
     values, types, keyword order, defaults, list / type / struct-valued parameters, long and special-character
     parameter lists, same-named classes, construction-time globals, set_param overrides) is put under one top,
     translated, parsed and executed with the E3 interpreter: every module defined once, every instantiated module
     defined, identifiers unique per scope, two instances that share a module name have identical stand-alone
     bodies, and each instance computes what the PyMTL simulation computes.
(iii) name mangling collisions inside one module.
"""
import hashlib
import itertools
import json
import os
import re
import subprocess
import sys

from vt import ir, seams, svsim, trcheck, structfam, ifcfam
from vt.acc import Acc, MachineryError
from vt.svparse import SvSyntaxError, Unsupported
from vt.checks import c13_designs as D

PROPERTY = "C13"
LEVEL = "exploration"
SEEDS = (0, 1, 2, 3, 4, 987654321)
SEEDS_THOROUGH = (5, 6, 7, 8, 9, 10, 11, 12, 4294967295, 123456789)
ASSUMPTIONS = [
  "hash seeds: the quantifier over PYTHONHASHSEED is covered for the enumerated list " + str(list(SEEDS)) + " (str hashing cannot be controlled from inside Python) "
  "plus 3 object-hash permutations through the seam of vt/seams.py; not a structural argument over all 2^32 seeds",
  "aliasing rule: if two instances under one top are given the same module name, the texts obtained by translating each of them alone must be identical "
  "(module header line excluded); in addition the pair design is executed with the E3 interpreter and compared with PyMTL on 12 input values",
  "the catalogue is fixed (vt/checks/c13_designs.py, 51 entries -> 1326 unordered pairs incl. the diagonal in the quick tier, 2601 ordered pairs in the thorough tier); both backends",
  "thorough tier: 16 hash seeds and every fourth design of the E2 families added to the determinism catalogue; every ordered pair also with the first instance wrapped one level deeper",
]


def pair_class(fa, fb):
  class PairTop(D.Pair):
    def construct(s):
      super().construct(fa, fb)
  return PairTop


_wrap_classes = {}


def wrapped_pair_class(la, fa, lb, fb):
  """thorough tier: the first instance sits one level deeper (inside a wrapper component with its own class per catalogue entry),
  so that the two colliding definitions are met at different depths of the post-order translation"""
  from pymtl3 import Component, InPort, OutPort, Bits8
  if la not in _wrap_classes:
    def construct(s, _fa=fa):
      s.in_ = InPort(Bits8)
      s.out = OutPort(Bits8)
      s.x = _fa()
      s.x.in_ //= s.in_
      s.out //= s.x.out
    _wrap_classes[la] = type(f"Wrap{len(_wrap_classes)}", (Component,), {"construct": construct})
  W = _wrap_classes[la]
  return pair_class(lambda: W(), fb)


def body_of(text, top):
  """text of module `top` without its header line and without comments / blank lines"""
  m = re.search(rf"\nmodule {re.escape(top)}\b(.*?)\nendmodule", "\n" + text, re.S)
  if not m: return None
  return "\n".join(l for l in m.group(1).splitlines() if l.strip() and not l.strip().startswith("//"))


def standalone(label, factory, backend, cache):
  key = (label, backend)
  if key not in cache:
    try:
      text, top = trcheck.translate(factory, backend)
      cache[key] = (top, body_of(text, top))
    except Exception as ex:
      cache[key] = ("!", repr(ex)[:100])
  return cache[key]


VECS = (0, 1, 2, 7, 8, 15, 16, 100, 127, 128, 200, 255)


def check_pair(la, fa, lb, fb, backend, acc, cache, wrapped=False):
  from pymtl3 import DefaultPassGroup
  case = dict(kind="pair", a=la, b=lb, backend=backend, wrapped=wrapped)
  tag = f"{_cls(la)}|{_cls(lb)}"
  cls = wrapped_pair_class(la, fa, lb, fb) if wrapped else pair_class(fa, fb)
  try:
    text, top = trcheck.translate(cls, backend)
  except Exception as ex:
    acc.count("evaluations")
    if "already uses that module name" in str(ex):
      # The translator refuses to emit text in which two different bodies would share a module name: nothing is
      # aliased silently, but the two components DO collide on a module name, which the property excludes.
      acc.count("collision_reported"); acc.add("collisions", f"{backend}:{la}|{lb}"); acc.add("shared_names", (backend, la, lb))
      l1, l2 = sorted((la, lb), key=lambda l: [l for l, _ in D.catalogue()].index(l))     # the finding is symmetric: catalogue order in the signature
      acc.violation(f"{backend}:pair:name-collision-refused:{l1}|{l2}", case, "components that differ in class, parameters or behaviour get different module names",
                    "translator: both components map to one module name (translation refused)", f"{la} + {lb}")
    else:
      acc.count("not_translatable"); acc.add("translate_errors", f"{la}|{lb}:{type(ex).__name__}")
    return
  acc.count("evaluations")
  for mm in re.finditer(r"^module\s+([^\n]*)$", text, re.M):
    if not re.fullmatch(r"[A-Za-z_][A-Za-z0-9_$]*", mm.group(1).strip()):
      acc.violation(f"{backend}:pair:illegal-module-name:{mm.group(1).split('__')[0].strip()}", case, "module names are legal identifiers", mm.group(1).strip()[:80], f"{la} + {lb}")
      return
  try:
    des = svsim.Design(text)
    for mn, md in des.mods.items():
      for mod, iname, conns in md["insts"]:
        if mod not in des.mods: raise SvSyntaxError(f"{mn} instantiates undefined module {mod}")
    inst = svsim.Inst(des, top)
  except (SvSyntaxError,) as ex:
    acc.violation(f"{backend}:pair:invalid-text:{tag}", case, "every module defined once, every instantiated module defined, unique identifiers", str(ex)[:160], f"{la} + {lb}")
    return
  names = {iname: mod for mod, iname, conns in des.mods[top]["insts"]}
  na, nb = names.get("a"), names.get("b")
  if wrapped and na in des.mods:
    na = {iname: mod for mod, iname, conns in des.mods[na]["insts"]}.get("x")
  for n in (na, nb):
    if n is None or not re.fullmatch(r"[A-Za-z_][A-Za-z0-9_$]*", n):
      acc.violation(f"{backend}:pair:illegal-module-name:{tag}", case, "legal identifier", n, f"{la} + {lb}")
      return
  sa, sb = standalone(la, fa, backend, cache), standalone(lb, fb, backend, cache)
  if na == nb:
    acc.add("shared_names", (backend, la, lb))
    if sa[0] != "!" and sb[0] != "!" and sa[1] != sb[1]:
      acc.violation(f"{backend}:pair:module-name-collision:{tag}", case, "different hardware gets different module names", f"both instances are {na}",
                    f"{la} and {lb} translate to different bodies on their own")
  # behaviour
  m = cls()
  m.elaborate()
  m.apply(DefaultPassGroup())
  for v in VECS:
    m.in_ @= v; inst.set_port("in_", v)
    m.sim_tick(); inst.tick()
    for port in ("oa", "ob"):
      want, got = int(getattr(m, port)), inst.get_port(port)
      if want != got:
        acc.violation(f"{backend}:pair:wrong-hardware:{tag}", dict(case, vec=v), f"{port} = {want}", got,
                      f"{la} + {lb}: instance {'a' if port == 'oa' else 'b'} ({na if port == 'oa' else nb}) behaves differently in the text")
        return


def _cls(label):
  return re.split(r"[(\[]", label)[0]


def check_setparam(backend, acc):
  from pymtl3 import DefaultPassGroup
  def mk():
    t = D.SetParamPair()
    t.set_param("top.b.construct", amount=3)
    return t
  case = dict(kind="setparam", backend=backend)
  try:
    text, top = trcheck.translate(mk, backend)
  except Exception as ex:
    acc.count("evaluations")
    kind = "name-collision-refused" if "already uses that module name" in str(ex) else "not-translatable"
    acc.violation(f"{backend}:setparam:{kind}", case, "Inc() and Inc() re-parameterised to amount=3 through set_param get different module names and translate", f"{type(ex).__name__}: {str(ex)[-160:]}", "SetParamPair")
    return
  acc.count("evaluations")
  des = svsim.Design(text)
  inst = svsim.Inst(des, top)
  m = mk(); m.elaborate(); m.apply(DefaultPassGroup())
  for v in VECS:
    m.in_ @= v; inst.set_port("in_", v); m.sim_tick(); inst.tick()
    for port in ("oa", "ob"):
      if int(getattr(m, port)) != inst.get_port(port):
        acc.violation(f"{backend}:setparam:wrong-hardware", case, f"{port} = {int(getattr(m, port))}", inst.get_port(port),
                      "instance re-parameterised with set_param shares the module of its sibling")
        return


def check_explicit_names(backend, acc):
  """explicit_module_name metadata: (a) two different components given ONE explicit name, (b) an explicit name equal to the generated
  name of a different component, (c) two identical components given one explicit name (legitimately one definition)"""
  P = trcheck.backend_pass(backend)
  cat = dict(D.catalogue())
  cases = [("two-different-one-name", "Inc(1)", "Inc(2)", {"a": "MyMod", "b": "MyMod"}, False),
           ("explicit-equals-generated", "Inc(1)", "Inc(2)", {"a": "Inc__amount_2"}, False),
           ("same-component-one-name", "Inc(1)", "Inc(amount=1)", {"a": "MyMod", "b": "MyMod"}, True),
           ("distinct-names", "Inc(1)", "Inc(2)", {"a": "ModA", "b": "ModB"}, True)]
  for label, la, lb, names, must_translate in cases:
    cls = pair_class(cat[la], cat[lb])
    case = dict(kind="explicit", label=label, backend=backend)
    acc.count("evaluations")
    def build():
      m = cls(); m.elaborate(); m.set_metadata(P.enable, True)
      for inst, nm in names.items(): getattr(m, inst).set_metadata(P.explicit_module_name, nm)
      return m
    try:
      m = build(); m.apply(P())
      fn = m.get_metadata(P.translated_filename); top = m.get_metadata(P.translated_top_module)
      text = open(fn).read(); os.remove(fn)
    except Exception as ex:
      if must_translate or "already uses that module name" not in str(ex):
        acc.violation(f"{backend}:explicit:{'refused' if 'already uses' in str(ex) else 'raised'}:{label}", case, "translates", f"{type(ex).__name__}: {str(ex)[-120:]}", label)
      continue
    try:
      des = svsim.Design(text)
      inst = svsim.Inst(des, top)
    except SvSyntaxError as ex:
      acc.violation(f"{backend}:explicit:invalid-text:{label}", case, "every module defined once", str(ex)[:160], label); continue
    from pymtl3 import DefaultPassGroup
    ref = cls(); ref.elaborate(); ref.apply(DefaultPassGroup())
    for v in VECS:
      ref.in_ @= v; inst.set_port("in_", v); ref.sim_tick(); inst.tick()
      if (int(ref.oa), int(ref.ob)) != (inst.get_port("oa"), inst.get_port("ob")):
        acc.violation(f"{backend}:explicit:wrong-hardware:{label}", dict(case, vec=v), (int(ref.oa), int(ref.ob)), (inst.get_port("oa"), inst.get_port("ob")), label); break


def shipped_designs():
  """designs pymtl3 ships (stdlib, examples): hierarchies with many instances of the same few classes at different places"""
  import pymtl3.stdlib.queues.queues as Q
  import pymtl3.stdlib.stream.queues as SQ
  import pymtl3.stdlib.basic_rtl.arbiters as A
  import pymtl3.stdlib.basic_rtl as B
  from pymtl3 import Bits8, Bits4, Bits16, Bits32, mk_bits
  out = [("NormalQueueRTL(2)", lambda: Q.NormalQueueRTL(Bits8, 2)), ("PipeQueueRTL(2)", lambda: Q.PipeQueueRTL(Bits8, 2)), ("BypassQueueRTL(2)", lambda: Q.BypassQueueRTL(Bits8, 2)),
         ("NormalQueueRTL(1)", lambda: Q.NormalQueueRTL(Bits8, 1)), ("PipeQueueRTL(1)", lambda: Q.PipeQueueRTL(Bits8, 1)), ("BypassQueueRTL(1)", lambda: Q.BypassQueueRTL(Bits8, 1)),
         ("stream.NormalQueueRTL(2)", lambda: SQ.NormalQueueRTL(Bits8, 2)), ("stream.PipeQueueRTL(2)", lambda: SQ.PipeQueueRTL(Bits8, 2)), ("stream.BypassQueueRTL(2)", lambda: SQ.BypassQueueRTL(Bits8, 2)),
         ("stream.NormalQueueRTL(1)", lambda: SQ.NormalQueueRTL(Bits8, 1)), ("stream.PipeQueueRTL(1)", lambda: SQ.PipeQueueRTL(Bits8, 1)), ("stream.BypassQueueRTL(1)", lambda: SQ.BypassQueueRTL(Bits8, 1)),
         ("RoundRobinArbiter(4)", lambda: A.RoundRobinArbiter(4)), ("RoundRobinArbiterEn(4)", lambda: A.RoundRobinArbiterEn(4)),
         ("RegisterFile", lambda: B.RegisterFile(Bits8, 4, 2, 2)), ("Crossbar", lambda: B.Crossbar(3, Bits16)), ("Encoder", lambda: B.Encoder(5, 3)),
         ("Mux", lambda: B.Mux(Bits8, 4)), ("RegEnRst", lambda: B.RegEnRst(Bits8, 3))]
  def ex(modname, cls, *args):
    def f():
      import importlib
      return getattr(importlib.import_module(modname), cls)(*args)
    return f
  def ex04():
    from examples.ex04_xcel.ProcXcel import ProcXcel
    from examples.ex04_xcel.ChecksumXcelRTL import ChecksumXcelRTL
    from examples.ex03_proc.ProcRTL import ProcRTL
    return ProcXcel(ProcRTL, ChecksumXcelRTL)
  out += [("ex02.ChecksumRTL", ex("examples.ex02_cksum.ChecksumRTL", "ChecksumRTL")), ("ex04.ChecksumXcelRTL", ex("examples.ex04_xcel.ChecksumXcelRTL", "ChecksumXcelRTL")),
          ("ex03.ProcRTL", ex("examples.ex03_proc.ProcRTL", "ProcRTL")), ("ex04.ProcXcel", ex04)]
  return out


def check_shipped(backend, acc, only=None):
  """every shipped design translates (a refusal because of a module-name collision is a violation), every module is defined once, every
  instantiated module is defined, identifiers are unique (own parser)"""
  for name, factory in shipped_designs():
    if only and name != only: continue
    case = dict(kind="shipped", design=name, backend=backend)
    acc.count("evaluations"); acc.count("shipped")
    try:
      text, top = trcheck.translate(factory, backend)
    except Exception as ex:
      if "already uses that module name" in str(ex):
        acc.violation(f"{backend}:shipped:name-collision-refused:{name}", case, "translates; instances of one class with the same parameters share one definition",
                      "translator: two different bodies for one module name (translation refused)", " ".join(str(ex).split())[-200:])
      else:
        acc.count("shipped_not_translatable"); acc.add("translate_errors", f"{name}:{backend}:{type(ex).__name__}:{' '.join(str(ex).split())[-80:]}")
      continue
    mods = re.findall(r"^module\s+(\S+)", text, re.M)
    if len(mods) != len(set(mods)):
      dup = sorted(m for m in set(mods) if mods.count(m) > 1)
      acc.violation(f"{backend}:shipped:module-defined-twice:{name}", case, "every module defined once", dup[:3], name); continue
    try:
      des = svsim.Design(text)
      for mn, md in des.mods.items():
        for mod, iname, conns in md["insts"]:
          if mod not in des.mods: raise SvSyntaxError(f"{mn} instantiates undefined module {mod}")
      svsim.Inst(des, top)
      acc.count("shipped_parsed")
    except SvSyntaxError as ex:
      acc.violation(f"{backend}:shipped:invalid-text:{name}", case, "every instantiated module defined, unique legal identifiers", str(ex)[:160], name)
    except svsim.Unsupported as ex:
      acc.count("shipped_outside_parser_subset"); acc.add("translate_errors", f"{name}:{backend}:parser:{str(ex)[:80]}")


def check_mangle(name, backend, acc):
  before = acc.n["not_translatable"]
  r = trcheck.check_class(name, D.MANGLE[name], backend, acc, lambda imap: [{r: (13 * (k + 1) + 7 * j) & 0xFF for k, (r, w, _) in enumerate(imap)} for j in range(6)])
  if r == "skipped" and acc.n["not_translatable"] > before and (name.startswith("Mangle") or name.endswith("Collide")):
    # a design whose only peculiarity is that two of its names collide after mangling is refused: the names do collide
    acc.violation(f"{backend}:class:refused:{name}", dict(design=name, backend=backend, kind="class"), "translated with distinct names", "refused by the translator", name)
  return r


# ------------------------------------------------------------------ determinism

def det_designs():
  out = []
  thorough = os.environ.get("C13_TIER") == "thorough"
  for name, d in structfam.designs(): out.append(("ir:" + name, d))
  from vt import irgen
  alld = dict(irgen.all_designs())
  for n in ("chain:Npc:p>pa:rchild", "net:hier2", "reg:child-forward", "ffx:shift:p2c2g1", "fan:Sab:p1:r0r1", "hier:two-children-chained-by-blocks", "chain:T4:vb>w:flat"):
    out.append(("ir:" + n, alld[n]))
  if thorough:
    have = {n for n, _ in out}
    for k, (n, d) in enumerate(sorted(alld.items())):
      if k % 4 == 0 and "ir:" + n not in have: out.append(("ir:" + n, d))
  return out


def det_classes():
  import pymtl3.stdlib.queues.queues as Q
  import pymtl3.stdlib.stream.queues as SQ
  import pymtl3.stdlib.basic_rtl.arbiters as A
  from pymtl3.stdlib.basic_rtl import RegisterFile
  from pymtl3 import Bits8, Bits4
  out = [(n, c) for n, c in ifcfam.DESIGNS.items()]
  out += [("NormalQueueRTL3", lambda: Q.NormalQueueRTL(Bits8, 3)), ("PipeQueueRTL2", lambda: Q.PipeQueueRTL(Bits8, 2)), ("BypassQueueRTL2", lambda: Q.BypassQueueRTL(Bits4, 2)),
          ("StreamNormalQueue2", lambda: SQ.NormalQueueRTL(Bits8, 2)), ("RoundRobinArbiter4", lambda: A.RoundRobinArbiter(4)), ("RoundRobinArbiterEn3", lambda: A.RoundRobinArbiterEn(3)),
          ("RegisterFile", lambda: RegisterFile(Bits8, 4, 2, 1))]
  out += [("SetParam", lambda: D.SetParam({"add", "sub", "mul", "div", "very_long_operation_name", "shift", "rotate"})),
          ("FrozenSetParam", lambda: D.SetParam(frozenset(["add", "mul", "xor", "nand", "very_long_operation_name"]))),
          ("NamedTupleParam", lambda: D.RecordParam(D.OpsTuple({"add", "sub", "mul", "div", "very_long_operation_name", "shift"}, 3))),
          ("DataclassParam", lambda: D.RecordParam(D.OpsData(frozenset(["add", "mul", "xor", "nand", "very_long_operation_name"])))),
          ("FnListParam", lambda: D.FnListParam([D.double, D.triple])), ("FnTupleDictParam", lambda: D.FnListParam((D.double,), {"f": D.triple}))]
  out += [("FnParam", lambda: D.FnParam(D.double)), ("ObjParam", lambda: D.ObjParam(D.PlainCfg(3))), ("ConstStructs", D.ConstStructs), ("ConstLists", D.ConstLists)]
  cat = D.catalogue()
  pick = [0, 1, 4, 5, 10, 14, 20, 23, 25, 27, 31, 35, 37]
  for i, j in zip(pick, pick[1:] + pick[:1]):
    out.append((f"pair:{cat[i][0]}+{cat[j][0]}", pair_class(cat[i][1], cat[j][1])))
  return out


def det_digests():
  """{(design, backend): sha1(text) | 'untranslatable:<type>'} for the whole determinism catalogue (this process, this hash seed)."""
  res = {}
  for name, d in det_designs():
    cls, src, mod = ir.load(d, tag="det" + hashlib.sha1(name.encode()).hexdigest()[:8])
    for b in ("sv", "yosys"):
      try: text, top = trcheck.translate(cls, b); res[f"{name}|{b}"] = hashlib.sha1(text.encode()).hexdigest()
      except Exception as ex: res[f"{name}|{b}"] = "untranslatable:" + type(ex).__name__
    ir.unload(mod)
  for name, c in det_classes():
    for b in ("sv", "yosys"):
      try: text, top = trcheck.translate(c, b); res[f"{name}|{b}"] = hashlib.sha1(text.encode()).hexdigest()
      except Exception as ex: res[f"{name}|{b}"] = "untranslatable:" + type(ex).__name__
  return res


def child_main():
  print("C13DIGESTS " + json.dumps(det_digests(), sort_keys=True))


def run_child(seed):
  env = dict(os.environ, PYTHONHASHSEED=str(seed))
  wd = os.path.join(os.getcwd(), f"child-seed{seed}")
  os.makedirs(wd, exist_ok=True)
  r = subprocess.run([sys.executable, "-B", "-c", "from vt.checks import c13; c13.child_main()"], capture_output=True, text=True, env=env, cwd=wd)
  for line in r.stdout.splitlines():
    if line.startswith("C13DIGESTS "): return json.loads(line[len("C13DIGESTS "):])
  raise MachineryError(f"child with PYTHONHASHSEED={seed} failed: {r.stderr[-400:]}")


# ------------------------------------------------------------------ runner API

def shards(tier):
  cat = D.catalogue()
  n = len(cat)
  S = [("pairs", b, i) for b in ("sv", "yosys") for i in range(n)]
  S += [("det",)]
  S += [("misc",)]
  S += [("shipped", b) for b in ("sv", "yosys")]
  return S


def run_shard(shard, tier, seed):
  acc = Acc()
  kind = shard[0]
  if kind == "pairs":
    _, backend, i = shard
    cat = D.catalogue()
    cache = {}
    for j in range(i if tier == "quick" else 0, len(cat)):   # thorough: ordered pairs (which instance is translated first matters to "first definition wins")
      check_pair(cat[i][0], cat[i][1], cat[j][0], cat[j][1], backend, acc, cache)
      acc.count("pairs")
      if tier != "quick":
        check_pair(cat[i][0], cat[i][1], cat[j][0], cat[j][1], backend, acc, cache, wrapped=True)
        acc.count("pairs")
    if i % 9 == 0: acc.sample(dict(kind="pair", a=cat[i][0], b=cat[(i + 3) % len(cat)][0], backend=backend))
  elif kind == "det":
    check_det(acc, tier)
  elif kind == "shipped":
    check_shipped(shard[1], acc)
  else:
    for b in ("sv", "yosys"):
      check_setparam(b, acc)
      check_explicit_names(b, acc)
      for name in D.MANGLE: check_mangle(name, b, acc)
  return acc


def replay(case):
  acc = Acc()
  if case.get("kind") == "pair":
    cat = dict(D.catalogue())
    check_pair(case["a"], cat[case["a"]], case["b"], cat[case["b"]], case["backend"], acc, {}, wrapped=case.get("wrapped", False))
  elif case.get("kind") == "explicit":
    check_explicit_names(case["backend"], acc)
    return [(v["sig"], v["expected"], v["observed"], v["msg"]) for v in acc.violations if v["case"].get("label") == case["label"]][:3]
  elif case.get("kind") == "setparam":
    check_setparam(case["backend"], acc)
  elif case.get("kind") == "shipped":
    check_shipped(case["backend"], acc, only=case["design"])
  elif case.get("kind") == "class":
    check_mangle(case["design"], case["backend"], acc)
  elif case.get("kind") == "determinism":
    a = run_child(case["seeds"][0]); b = run_child(case["seeds"][1])
    if a.get(case["design"]) != b.get(case["design"]): return [("determinism", "identical text", "differs", case["design"])]
    return []
  return [(v["sig"], v["expected"], v["observed"], v["msg"]) for v in acc.violations][:3]


def check_det(acc, tier="quick"):
  procs = {}
  os.environ["C13_TIER"] = tier
  for sd in (SEEDS if tier == "quick" else SEEDS + SEEDS_THOROUGH):
    env = dict(os.environ, PYTHONHASHSEED=str(sd))
    wd = os.path.join(os.getcwd(), f"child-seed{sd}")   # translation writes <Top>.v into the cwd: one directory per child
    os.makedirs(wd, exist_ok=True)
    procs[f"seed{sd}"] = subprocess.Popen([sys.executable, "-B", "-c", "from vt.checks import c13; c13.child_main()"], stdout=subprocess.PIPE, stderr=subprocess.PIPE, text=True, env=env, cwd=wd)
  dig = {}
  for p in (1, 2, 3):
    mult = (1, 7919, 104729, 31)[p]
    with seams.hash_seam(lambda o, i: (i * mult + p) % 1000003):
      dig[f"perm{p}"] = det_digests()
  for k, pr in procs.items():
    out, err = pr.communicate()
    got = [l for l in out.splitlines() if l.startswith("C13DIGESTS ")]
    if not got: raise MachineryError(f"child {k} failed: {err[-400:]}")
    dig[k] = json.loads(got[0][len("C13DIGESTS "):])
  ref_k = "seed0"
  ref = dig[ref_k]
  for k, d in sorted(dig.items()):
    if set(d) != set(ref): raise MachineryError(f"determinism catalogue differs between runs {ref_k} and {k}")
    for design, h in sorted(d.items()):
      acc.count("evaluations")
      if ref[design] != h:
        name, backend = design.rsplit("|", 1)
        acc.violation(f"determinism:{backend}:{name.split(':')[0]}",
                      dict(kind="determinism", design=design, seeds=[0, int(k[4:]) if k.startswith("seed") else 1], run=k),
                      "byte-identical text", f"differs between {ref_k} and {k}", design)
  acc.count("det_designs", len(ref)); acc.count("det_runs", len(dig))
  acc.count("det_translated", sum(1 for h in ref.values() if not h.startswith("untranslatable")))


def finish(acc, tier):
  return dict(
    evaluations=int(acc.n["evaluations"]), distinct_nontrivial=acc.size("shared_names"),
    rule="aliasing: one evaluation = one (catalogue pair, backend) translated, parsed, name/body rule applied and simulated; determinism: one evaluation = one (design, backend, "
         "seed or permutation) digest comparison; non-trivial = (pair, backend) combinations in which both instances were given the SAME module name (where aliasing can happen)",
    exhaustive=True, pairs=int(acc.n["pairs"]), determinism_designs=int(acc.n["det_designs"]), determinism_translated=int(acc.n["det_translated"]),
    determinism_runs=int(acc.n["det_runs"]), not_translatable=int(acc.n["not_translatable"]),
    collisions_reported_by_translator=sorted(acc.sets.get("collisions", ())), 
    translate_errors=sorted(acc.sets.get("translate_errors", ()))[:20],
  )
