"""C01 -- simulation results do not depend on the schedule chosen.

For every design of the E2 families: every real pass group, every linear
extension of the constraint DAG (installed as top._sched.update_schedule and
compiled by the real PrepareSimPass.create_sim_tick), every permutation of the
flip-flop blocks, every schedule SimpleSchedulePass can emit under the shuffle
seam; every input sequence up to the bound. After each eval and each tick ALL
signal values are compared with the reference dataflow semantics (vt/irref.py),
and every block is re-invoked to confirm the fixed point.
"""
import itertools

from vt import ir, irgen, irref, seams
from vt.acc import Acc, MachineryError
from vt.dut import Dut, GROUPS
from vt.explore import linear_extensions, choice_dfs
from pymtl3.dsl.errors import UpblkCyclicError

PROPERTY = "C01"
LEVEL = "model_checking"
ASSUMPTIONS = [
  "designs come from the bounded families of vt/irgen.py (widths <= 4, <= 6 blocks, <= 3 components)",
  "oracle: vt/irref.py, a bit-level dataflow evaluator that shares no code with pymtl3; its fixed point is "
  "re-derived in reverse block order for every settle as a self-check",
  "linear extensions are capped per design (cap reported); flip-flop permutations capped at 24",
  "the five pass groups see every input vector/sequence; the per-extension sweeps use a fixed evenly spread subset of 12 (48 thorough) sequences",
  "all inputs of a design are enumerated over their full range; sequences of length L start from the state "
  "left by the previous sequence (the reference is kept in lock step), so non-initial states are covered",
]

EXT_CAP = {"quick": 60, "thorough": 720}
SEQ_LEN = {"quick": 2, "thorough": 3}


def input_space(d):
  ins = [(n, ir.width(t)) for n, k, t, dims in d["sigs"] if k == "in" and not dims]
  return ins


def input_vectors(d, limit_bits=8):
  ins = input_space(d)
  names = [n for n, _ in ins]
  rng = [range(1 << w) for _, w in ins]
  return names, list(itertools.product(*rng))


def has_ff(d):
  return any(b[1] == "ff" for _, cmp in ir.walk_comps(d) for b in cmp.get("blocks", []))


def uses_reset(d):
  for _, cmp in ir.walk_comps(d):
    for b in cmp.get("blocks", []):
      R, W = [], []
      ir.stmt_access(b[2], R, W)
      if any(r[2] == "reset" for r in R): return True
  return False


def sequences(d, tier):
  """Input sequences: for combinational designs every vector once; for sequential
  designs every sequence of length L (quick: L=2) over the vectors, reset as an extra letter."""
  names, vecs = input_vectors(d)
  letters = [dict(zip(names, v), reset=0) for v in vecs]
  if not has_ff(d):
    return [[l] for l in letters]
  if uses_reset(d):
    letters = letters + [dict(zip(names, vecs[len(vecs) // 2]), reset=1)]
  L = SEQ_LEN[tier]
  if len(letters) ** L > 4500:     # keep the product bounded: thin the alphabet, never sample
    keep = max(2, int(4500 ** (1.0 / L)))
    step = max(1, len(letters) // keep)
    letters = letters[::step] + ([letters[-1]] if uses_reset(d) else [])
  return [list(s) for s in itertools.product(letters, repeat=L)]


def thin(seqs, n):
  """A fixed, evenly spread subset of the input sequences (deterministic, never sampled), used for
  the per-schedule sweeps; it walks through the list so that consecutive inputs differ."""
  if len(seqs) <= n: return seqs
  step = len(seqs) / n
  return [seqs[int(i * step)] for i in range(n)]


def blk_key(top, blk):
  try:
    host = repr(top.get_update_block_host_component(blk))
  except Exception:
    host = "net"
  return f"{host}:{blk.__name__}"


def diff(a, b):
  return [(ir.inst_name(k), b[k], a[k]) for k in sorted(a) if a[k] != b[k]]


def lockstep(dut, ref, seqs, what, acc, case_base, sample=False, fixpoint_blocks=None):
  """Returns number of steps; records the first mismatch (then stops this DUT)."""
  hist = []
  steps = 0
  for seq in seqs:
    for inp in seq:
      hist.append(inp)
      dut.set_inputs(inp); ref.set_inputs(inp)
      try:
        dut.eval_comb()
      except Exception as ex:
        acc.violation(f"{what}:eval-raised", dict(case_base, hist=hist), "no exception", repr(ex)[:200])
        return steps
      ref.settle()
      dd = diff(dut.obs(), ref.obs())
      if dd:
        acc.violation(f"{what}:after-eval", dict(case_base, hist=hist, phase="eval"), {n: e for n, e, o in dd[:6]}, {n: o for n, e, o in dd[:6]},
                      f"{len(dd)} signals differ after sim_eval_combinational")
        return steps
      if fixpoint_blocks is not None:
        before = dut.obs()
        for blk in fixpoint_blocks: blk()
        dd = diff(dut.obs(), before)
        if dd:
          acc.violation(f"{what}:not-a-fixed-point", dict(case_base, hist=hist, phase="fixpoint"), {n: e for n, e, o in dd[:6]}, {n: o for n, e, o in dd[:6]},
                        "re-running the update blocks after evaluation changed signals")
          return steps
      try:
        dut.tick()
      except Exception as ex:
        acc.violation(f"{what}:tick-raised", dict(case_base, hist=hist), "no exception", repr(ex)[:200])
        return steps
      ref.tick()
      dd = diff(dut.obs(), ref.obs())
      if dd:
        acc.violation(f"{what}:after-tick", dict(case_base, hist=hist, phase="tick"), {n: e for n, e, o in dd[:6]}, {n: o for n, e, o in dd[:6]},
                      f"{len(dd)} signals differ after sim_tick")
        return steps
      steps += 1
  return steps


def install(dut, order_keys, ff_keys):
  """Install a chosen comb order / ff order (lists of block keys) and recompile the tick
  with the real PrepareSimPass code."""
  from pymtl3.passes.sim.PrepareSimPass import PrepareSimPass
  top = dut.top
  V = [b for b in top._dag.final_upblks if b not in top.get_all_update_ff()]
  bykey = {blk_key(top, b): b for b in V}
  ffkey = {blk_key(top, b): b for b in top.get_all_update_ff()}
  if len(bykey) != len(V) or len(ffkey) != len(top.get_all_update_ff()):
    raise MachineryError("block keys are not unique")
  top._sched.update_schedule = [bykey[k] for k in order_keys]
  top._sched.schedule_ff = [ffkey[k] for k in ff_keys]
  p = PrepareSimPass(print_line_trace=False)
  p.create_sim_eval_comb(top)
  p.create_sim_tick(top)


def graph(dut):
  top = dut.top
  ffs = top.get_all_update_ff()
  V = sorted((b for b in top._dag.final_upblks if b not in ffs), key=lambda b: blk_key(top, b))
  Vs = set(V)
  E = [(blk_key(top, u), blk_key(top, v)) for (u, v) in top._dag.all_constraints if u in Vs and v in Vs]
  return [blk_key(top, b) for b in V], E, sorted(blk_key(top, b) for b in ffs)


def check_design(name, d, tier, acc, only=None):
  """only: restrict to one (what, spec) for replay."""
  try:
    ref0 = irref.RefSim(d)
  except MachineryError as ex:
    raise MachineryError(f"{name}: {ex}")
  seqs = sequences(d, tier)
  base = dict(design=name, ir=d, tier=tier)
  nsteps = 0
  # --- 1. the five real pass groups
  for g in GROUPS:
    ref = irref.RefSim(d)
    dut = Dut(d, g, shuffle=(lambda n: 0))
    try:
      fp = [b for b in dut.top._dag.final_upblks if b not in dut.top.get_all_update_ff()]
      nsteps += lockstep(dut, ref, seqs, f"group:{g}", acc, dict(base, mode="group", group=g), fixpoint_blocks=fp)
      acc.count("schedules_run")
    finally:
      dut.close()
  # --- 2. every linear extension x every ff permutation, real blocks, real tick compiler
  dut = Dut(d, "simple", shuffle=(lambda n: 0))
  try:
    V, E, FF = graph(dut)
    cap = EXT_CAP[tier]
    exts = list(linear_extensions(V, E, cap + 1))
    capped = len(exts) > cap
    if capped:
      exts = exts[:cap]; acc.count("ext_cap_hits")
    ffperms = list(itertools.islice(itertools.permutations(FF), 24))
    if len(FF) > 4: acc.count("ffperm_cap_hits")
    ref = irref.RefSim(d)
    ref.state = dict(dut.obs())
    first = True
    full_seqs = seqs
    seqs = thin(seqs, 12 if tier == "quick" else 48)
    for ext in exts:
      for fp in (ffperms if first or len(exts) <= 12 else ffperms[:2] + ffperms[-1:]):
        install(dut, ext, fp)
        n = lockstep(dut, ref, seqs, "extension", acc, dict(base, mode="ext", order=ext, ff=list(fp)))
        nsteps += n
        acc.count("schedules_run")
        ref.state = dict(dut.obs())        # re-synchronise (a mismatch was already reported)
      first = False
    acc.count("linear_extensions", len(exts))
    acc.add("ext_hist", (name, len(exts), len(ffperms)))
    # --- 3. anti-vacuity: a deliberately ILLEGAL order (reversed) must be visible on this design
    sensitive = False
    if E:
      install(dut, list(reversed(exts[0])), ffperms[0])
      ref.state = dict(dut.obs())
      probe = Acc()
      lockstep(dut, ref, seqs, "probe", probe, {})
      sensitive = bool(probe.violations)
    if sensitive:
      acc.add("order_sensitive", name)
      if len(exts) >= 2: acc.add("order_sensitive_multi", name)
  finally:
    dut.close()
  # --- 4. every schedule SimpleSchedulePass itself can emit (shuffle seam), small graphs only
  if not capped and len(exts) <= (24 if tier == "quick" else 120):
    emitted = set()

    def run(cr):
      dd = Dut(d, "simple", shuffle=lambda n: cr.choose(n, 0))
      try:
        order = tuple(blk_key(dd.top, b) for b in dd.top._sched.update_schedule)
        r = irref.RefSim(d)
        lockstep(dd, r, seqs, "simple-seam", acc, dict(base, mode="seam", choices=[p[1] for p in cr.points]))
      finally:
        dd.close()
      return order

    for choices, order in choice_dfs(run, bound=None, cap=200):
      emitted.add(order)
      acc.count("schedules_run")
    if emitted != {tuple(e) for e in exts}:
      missing = {tuple(e) for e in exts} - emitted
      extra = emitted - {tuple(e) for e in exts}
      if extra:
        acc.violation("simple-seam:illegal-order-emitted", dict(base, mode="seam-set"), "only linear extensions", sorted(extra)[:2])
      elif len(exts) <= cap:
        acc.notes.append(f"{name}: SimpleSchedulePass cannot emit {len(missing)} of {len(exts)} extensions")
    acc.count("seam_designs")
  acc.count("evaluations", nsteps)
  acc.count("designs")
  return nsteps


def designs(tier):
  return list(irgen.all_designs())


def check_stmt(name, tier, acc, only=None):
  """Hand-written statement-family designs (vt/stmtfam.py): every pass group and every schedule SimpleSchedulePass can emit
  (shuffle-seam DFS, capped) must produce the outputs of the design's reference function on both input sequences."""
  from vt import stmtfam
  from vt.dut import build_cls
  cls, ref = stmtfam.DESIGNS[name], stmtfam.REF[name]
  seqs = stmtfam.sequences()
  base = dict(design=name, mode="stmt")

  def drive(top, what, extra):
    outs = sorted(top.get_all_object_filter(lambda x: x.is_signal() and x.is_top_level_signal() and x.get_host_component() is top and x.is_output_value_port()), key=repr)
    getters = [(repr(p)[2:], p._dsl.Type.nbits, eval(f"lambda s: int(s.{repr(p)[2:]}" + (".to_bits())" if hasattr(p._dsl.Type, "__bitstruct_fields__") else ")"))) for p in outs]
    state = None
    n = 0
    sigs = sorted(top.get_all_object_filter(lambda x: x.is_signal()), key=repr)
    read_all = eval("lambda s: [" + ", ".join(f"repr(s.{repr(p)[2:]})" for p in sigs) + "]")
    fp_blocks = [b for b in top._dag.final_upblks if b not in top.get_all_update_ff()]
    for step, vec in enumerate(seqs[extra["seq"]]):
      top.a @= vec["a"]; top.b @= vec["b"]; top.sel @= vec["sel"]; top.en @= vec["en"]; top.reset @= vec["reset"]
      # after ONE combinational evaluation the state is a fixed point of every update block (sim_tick evaluates the blocks twice
      # with the inputs held, which hides a value that is one evaluation late); combinational designs also have their outputs now
      try:
        top.sim_eval_combinational()
      except Exception as ex:
        acc.violation(f"stmt:{what}:eval-raised:{name}", dict(base, **extra), "no exception", repr(ex)[:200], name)
        return n
      before = read_all(top)
      for blk in fp_blocks: blk()
      after = read_all(top)
      if after != before:
        k = next(i for i in range(len(sigs)) if before[i] != after[i])
        acc.violation(f"stmt:{what}:not-a-fixed-point:{name}", dict(base, step=step, **extra), f"{sigs[k]!r} = {after[k]} (value after re-running the blocks)", before[k],
                      f"{name} under {what} at step {step}: re-running the update blocks after sim_eval_combinational changed signals")
        return n
      acc.count("fixpoint_checks")
      try:
        top.sim_tick()
      except Exception as ex:
        acc.violation(f"stmt:{what}:tick-raised:{name}", dict(base, **extra), "no exception", repr(ex)[:200], name)
        return n
      state, want = ref(state, **vec)
      n += 1
      for nm, w, g in getters:
        if g(top) != want[nm] & ((1 << w) - 1):
          acc.violation(f"stmt:{what}:output-differs:{name}", dict(base, step=step, **extra), f"{nm} = {want[nm] & ((1 << w) - 1)}", g(top), f"{name} under {what} at step {step}")
          return n
    return n

  nsteps = 0
  if name not in stmtfam.MAY_REJECT:
    try:
      t = cls(); t.elaborate()
    except Exception as ex:
      acc.violation(f"stmt:elaborate-raised:{name}", dict(base, group="elaborate", seq=0), "a legal design elaborates", f"{type(ex).__name__}: {str(ex)[:160]}", name)
      acc.count("stmt_designs")
      return 0
  if name in stmtfam.MAY_REJECT:
    import pymtl3.dsl.errors as dsl_errors
    try:
      t = cls(); t.elaborate()
    except Exception as ex:
      if type(ex).__module__ != dsl_errors.__name__: raise
      acc.count("stmt_rejected_by_dsl"); acc.add("stmt_rejected", f"{name}:{type(ex).__name__}")
      acc.count("stmt_designs")
      return 0
  if name in stmtfam.MAY_REFUSE_SIM:
    try:
      build_cls(cls, "dynamic")
    except TypeError as ex:
      if "second name of" not in str(ex): raise
      acc.count("stmt_refused_by_sim"); acc.add("stmt_rejected", f"{name}:sim:{type(ex).__name__}")
      acc.count("stmt_designs")
      return 0
  for si in range(len(seqs)):
    for group in ("dynamic", "heuristic", "mamba", "unroll"):
      if only and only != (group, si): continue
      try:
        top = build_cls(cls, group)
      except UpblkCyclicError:
        if group in ("dynamic", "mamba"): raise
        acc.add("stmt_cyclic_at_block_level", name)      # false loop between blocks (e.g. val/rdy through two children): acyclic-only passes refuse it (C11's subject)
        continue
      nsteps += drive(top, group, dict(group=group, seq=si))
      acc.count("schedules_run")
  # the pass-group CLASSES users apply (passes/PassGroups.py, passes/mamba/PassGroups.py), not only their constituent passes
  from pymtl3.passes.PassGroups import DefaultPassGroup, SimpleSimPass
  from pymtl3.passes.mamba.PassGroups import UnrollSim, HeuTopoUnrollSim, Mamba2020
  for gname, mk in (("pg:DefaultPassGroup", lambda: DefaultPassGroup()), ("pg:SimpleSimPass", lambda: SimpleSimPass()),
                    ("pg:UnrollSim", lambda: UnrollSim(print_line_trace=False)), ("pg:HeuTopoUnrollSim", lambda: HeuTopoUnrollSim(print_line_trace=False)),
                    ("pg:Mamba2020", lambda: Mamba2020(print_line_trace=False))):
    if only and only != (gname, 0): continue
    try:
      top = cls()
      top.elaborate()
      top.apply(mk())
    except UpblkCyclicError:
      if gname in ("pg:DefaultPassGroup", "pg:Mamba2020"): raise
      acc.add("stmt_cyclic_at_block_level", name)
      continue
    nsteps += drive(top, gname, dict(group=gname, seq=0))
    acc.count("schedules_run")
  orders = set()

  def run(cr):
    try:
      top = build_cls(cls, "simple", shuffle=lambda n: cr.choose(n, 0))
    except UpblkCyclicError:
      acc.add("stmt_cyclic_at_block_level", name)
      return 0
    orders.add(tuple(b.__name__ for b in top._sched.update_schedule))
    return drive(top, "simple-seam", dict(group="simple", seq=0, choices=[p[1] for p in cr.points]))

  if not only or only[0] == "simple":
    for choices, n in choice_dfs(run, bound=None, cap=(12 if tier == "quick" else 200)):
      nsteps += n
      acc.count("schedules_run")
  acc.count("evaluations", nsteps)
  acc.count("stmt_designs")
  if len(orders) >= 2: acc.add("stmt_multi_schedule", name)
  return nsteps


def shards(tier):
  from vt import stmtfam
  n = len(designs(tier))
  k = 48
  names = sorted(stmtfam.DESIGNS)
  return [(i, k) for i in range(min(k, n))] + [("stmt", names[i::8]) for i in range(8)]


def run_shard(shard, tier, seed):
  i, k = shard
  acc = Acc()
  if i == "stmt":
    for name in k: check_stmt(name, tier, acc)
    return acc
  ds = designs(tier)
  for j in range(i, len(ds), k):
    name, d = ds[j]
    check_design(name, d, tier, acc)
    if j % 40 == 0:
      acc.sample(dict(design=name, source=ir.emit(d, "x")[0].splitlines()[-12:]))
  return acc


def replay(case):
  if case.get("mode") == "stmt":
    acc = Acc()
    check_stmt(case["design"], "quick", acc, only=(case["group"], case["seq"]))
    return [(v["sig"], v["expected"], v["observed"], v["msg"]) for v in acc.violations][:3]
  d = ir.norm_comp(case["ir"])
  name = case["design"]
  hist = [dict(h) for h in case["hist"]]
  acc = Acc()
  base = dict(design=name, ir=d, tier=case.get("tier", "quick"))
  mode = case["mode"]
  if mode == "group":
    dut = Dut(d, case["group"], shuffle=(lambda n: 0))
    fp = [b for b in dut.top._dag.final_upblks if b not in dut.top.get_all_update_ff()]
    lockstep(dut, irref.RefSim(d), [hist], f"group:{case['group']}", acc, base, fixpoint_blocks=fp)
  elif mode == "ext":
    # the failing DUT instance had run earlier schedules too: replay the single schedule from a fresh build
    dut = Dut(d, "simple", shuffle=(lambda n: 0))
    install(dut, case["order"], case["ff"])
    ref = irref.RefSim(d)
    ref.state = dict(dut.obs())
    lockstep(dut, ref, [hist], "extension", acc, base)
  elif mode == "seam":
    ch = list(case["choices"])
    it = iter(ch)
    dut = Dut(d, "simple", shuffle=lambda n: next(it, 0))
    lockstep(dut, irref.RefSim(d), [hist], "simple-seam", acc, base)
  else:
    sub = Acc()
    check_design(name, d, base["tier"], sub)
    acc = sub
  return [(v["sig"], v["expected"], v["observed"], v["msg"]) for v in acc.violations]


def finish(acc, tier):
  if not acc.n["designs"]: raise MachineryError("no designs")
  ns = acc.size("order_sensitive_multi")
  if ns < 10: raise MachineryError(f"only {ns} order-sensitive designs with >=2 legal schedules: vacuous")
  return dict(
    states=int(acc.n["evaluations"]), transitions=int(acc.n["evaluations"]) * 2,
    traces_validated_against_impl=int(acc.n["schedules_run"]),
    evaluations=int(acc.n["evaluations"]),
    distinct_nontrivial=ns,
    rule="one execution = one (design, schedule, ff order) driven through all input sequences on the real simulator; "
         "states = (design, schedule, input step) points at which ALL signals were compared with the reference after eval and after tick; "
         "non-trivial = designs for which the reversed (illegal) block order visibly changes the results AND that have >= 2 legal schedules",
    exhaustive=acc.n["ext_cap_hits"] == 0,
    designs=int(acc.n["designs"]), schedules_run=int(acc.n["schedules_run"]),
    linear_extensions=int(acc.n["linear_extensions"]), ext_cap=EXT_CAP[tier], ext_cap_hits=int(acc.n["ext_cap_hits"]),
    order_sensitive_designs=acc.size("order_sensitive"),
    seam_designs=int(acc.n["seam_designs"]), stmt_family_designs=int(acc.n["stmt_designs"]), stmt_designs_with_several_schedules=acc.size("stmt_multi_schedule"),
    stmt_fixpoint_checks=int(acc.n["fixpoint_checks"]), stmt_designs_refused_by_the_dsl=sorted(acc.sets.get("stmt_rejected", ())),
    notes=acc.notes[:10],
    bounds=dict(seq_len=SEQ_LEN[tier], pass_groups=list(GROUPS)),
  )
