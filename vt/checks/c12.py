"""C12 -- Yosys-compatible translation is equivalent, with a faithful flat port map.

Same designs, interpreter and oracles as C03 through YosysTranslationPass. Struct,
list and struct-list ports are driven / read through their flattened leaf ports:
every leaf must carry exactly the slice of the packed value that the layout
specification (first field most significant, list element 0 least significant)
assigns to it.
"""
from vt.checks import c03
from vt.checks.c03 import shards, work, expr_items

PROPERTY = "C12"
LEVEL = "translation_validation"
BACKEND = "yosys"
ASSUMPTIONS = list(c03.ASSUMPTIONS) + [
  "flat port map: a port p of struct type is driven/read through leaf ports p__field / p__i; the harness slices / re-assembles the packed value with the layout of vt/ir.py (same as vt/layout.py)",
]


def run_shard(shard, tier, seed):
  return c03.run_shard(shard, tier, seed, backend=BACKEND)


def replay(case):
  return c03.replay(case, backend=BACKEND)


def finish(acc, tier):
  return c03.finish(acc, tier)
