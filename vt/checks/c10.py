"""C10 -- type-checker widths are the real widths; accepted code has no width errors.

Bounded exhaustive enumeration of update blocks (`t = <e>` and `s.out_w @= <e>`
for every expression tree up to the depth bound over a leaf alphabet built to
mix explicit and implicit widths). Every block goes through the real
BehavioralRTLIRGenPass and is type-checked on its own with the real L5 visitor;
accepted blocks are AST-instrumented (a probe around every typed
sub-expression) and executed on a simulatable instance for every input of the
alphabet: static width must equal runtime width, and no width error may occur
outside the carve-outs of the statement. Literal width inference is swept
separately over 0..2^16 and 2^k-1, 2^k, 2^k+1 up to k = 70.
"""
import ast
import itertools

from vt import ir
from vt.acc import Acc, MachineryError

PROPERTY = "C10"
LEVEL = "exploration"
ASSUMPTIONS = [
  "per-block verdicts come from BehavioralRTLIRTypeCheckVisitorL5.enter() on a fresh visitor (one rejected block must not hide the others)",
  "runtime widths are observed by wrapping every expression AST node that has a typed behavioural-RTLIR node in a probe and executing the block on a locked "
  "simulation instance; an int value must be representable in the static width (for the exclusive upper bound of a slice: value-1)",
  "carve-outs (statement): a block containing BitsN(e) whose operand width differs from N, or a shift whose amount has another width than the shifted value, may raise width errors",
  "a width error is a ValueError raised by Bits arithmetic/assignment ('matching bitwidth', 'too wide', 'not a valid binop operand', 'Bitwidth of LHS', 'too narrow')",
  "inputs: in4a in {0,1,9,15}, in4b in {0,3,15}, in8 in {0,1,200,255}, in1 in {0,1}, st.a in {2,13}, lst[1] = 6 (all combinations)",
]

HEADER = '''from pymtl3 import *

@bitstruct
class St10:
  a: Bits4
  b: Bits2

KI = 5
KB = Bits4(3)
K3 = Bits8(3)
K1 = Bits8(1)
KA = Bits8(200)
KN = -3
KM = -128
'''

# leaf -> (source text, class tag used in signatures)
LEAVES = {
  "P4a": "s.in4a", "P4b": "s.in4b", "P8": "s.in8", "P1": "s.in1", "C4": "Bits4(5)", "C8": "Bits8(130)",
  "L0": "0", "L1": "1", "L3": "3", "L15": "15", "L200": "200", "L300": "300",
  "FVi": "KI", "FVe": "KB", "F": "s.st.a", "A": "s.lst[1]", "S": "s.in8[0:4]", "VI": "s.in8[s.in4a[0:3]]",
  "TVe": "te", "TVi": "ti", "LV": "i",
}
BIN = ["+", "-", "*", "&", "|", "^", "<<", ">>", "==", "!=", "<", "<=", ">", ">="]


def leaf_sets(tier):
  full = list(LEAVES)
  small = ["P4a", "P8", "C4", "L3", "L200", "LV", "TVi", "S", "FVi"] if tier == "thorough" else ["P4a", "P8", "L3", "L200", "LV", "TVi"]
  return full, small


def exprs(tier):
  """(text, shape) pairs; shape replaces leaves by their class tags."""
  full, small = leaf_sets(tier)
  d0 = [(LEAVES[l], l) for l in full]
  out = list(d0)
  d1 = []
  ops0 = BIN if tier == "thorough" else ["+", "-", "&", "<<", ">>", "==", "<"]
  for op in ops0:
    for (a, sa), (b, sb) in itertools.product(d0, d0):
      d1.append((f"({a} {op} {b})", f"({sa}{op}{sb})"))
  for a, sa in d0:
    d1.append((f"(~{a})", f"(~{sa})"))
    for fn, n in (("zext", 8), ("sext", 8), ("trunc", 2), ("zext", 2), ("trunc", 8)):
      d1.append((f"{fn}({a}, {n})", f"{fn}({sa},{n})"))
    d1.append((f"reduce_or({a})", f"reduce_or({sa})"))
    d1.append((f"Bits8({a})", f"Bits8({sa})"))
    d1.append((f"Bits4({a})", f"Bits4({sa})"))
    d1.append((f"concat({a}, s.in1)", f"concat({sa},P1)"))
  for (a, sa), (b, sb) in itertools.product(d0, d0):
    d1.append((f"({a} if s.in1 else {b})", f"ife({sa},{sb})"))
  out += d1
  # depth 2 over the representative leaves
  s0 = [(LEAVES[l], l) for l in small]
  s1 = []
  ops1 = ["+", "&", "<<", "==", "<"] if tier == "quick" else BIN
  for op in ops1:
    for (a, sa), (b, sb) in itertools.product(s0, s0):
      s1.append((f"({a} {op} {b})", f"({sa}{op}{sb})"))
  for (a, sa), (b, sb) in itertools.product(s0, s0):
    s1.append((f"({a} if s.in1 else {b})", f"ife({sa},{sb})"))
  ops2 = ["+", "&", ">>", "!="] if tier == "quick" else BIN
  for op in ops2:
    for (a, sa), (b, sb) in itertools.product(s1, s0):
      out.append((f"({a} {op} {b})", f"({sa}{op}{sb})"))
      out.append((f"({b} {op} {a})", f"({sb}{op}{sa})"))
  for (a, sa) in s1:
    out.append((f"zext({a}, 9)", f"zext({sa},9)"))
    out.append((f"(~{a})", f"(~{sa})"))
    out.append((f"({a} if s.in1 else 300)", f"ife({sa},L300)"))
  return out


FORMS = [("tmp", None), ("o1", 1), ("o4", 4), ("o8", 8), ("o9", 9)]

# raw statement lists: {o} is replaced by the block's own output port of the given width
RAW = []
for lo, hi, st in [(7, 0, -1), (3, 0, -1), (0, 8, 1), (0, 20, 3), (15, 3, -4), (2, 3, 1), (9, 8, -1)]:
  for w in (2, 4, 8):
    RAW.append((f"loop{lo}:{hi}:{st}:add-o{w}", w, [f"for i in range({lo}, {hi}, {st}):", "  {o} @= " + ("s.in4a" if w == 4 else ("s.in8" if w == 8 else "s.in4a[0:2]")) + " + i"]))
    RAW.append((f"loop{lo}:{hi}:{st}:shift-o{w}", w, [f"for i in range({lo}, {hi}, {st}):", "  {o} @= " + ("s.in4a" if w == 4 else ("s.in8" if w == 8 else "s.in4a[0:2]")) + " << i"]))
  RAW.append((f"loop{lo}:{hi}:{st}:index", 1, [f"for i in range({lo}, {hi}, {st}):", "  {o} @= s.in8[i] if i < 8 else s.in1"] if False else [f"for i in range({lo}, {hi}, {st}):", "  t = i", "{o} @= s.in1"]))
for first in ("5", "s.in4b[0:3]", "3"):
  for second in ("s.in4b[0:3]", "s.in4a", "7", "200"):
    for use in ("s.in8 + t", "s.in4a + t", "s.in4a[0:3] & t", "t"):
      wout = 8 if use.startswith("s.in8") else (3 if "[0:3]" in use else 4)
      RAW.append((f"tmp-reassign:{first}|{second}|{use}", wout, [f"t = {first}", "if s.in1:", f"  t = {second}", "{o} @= " + use]))

# negative literals and constants, folded constants of explicit width, constant lists, struct literals, a temporary that changes
# its kind on the loop back-edge, a variable part select wider than the signal
for w, rhs in [(8, "-200"), (8, "-1"), (8, "~200"), (8, "~0"), (4, "-8"), (4, "-9"), (7, "1 - 129"), (1, "1 - 3"), (2, "0 - 2"), (8, "KI - 6"), (4, "-KI"),
               (3, "K3 + K1"), (8, "K3 + K1"), (9, "KA + KA"), (8, "KA + KA"), (8, "s.in8 + (K3 + K1)"), (8, "s.in8 + (KI + 1)"), (8, "KB + 1"),
               (16, "s.clst[0 + 1]"), (8, "s.clst[0 + 1]"), (8, "s.clst[1]"), (16, "s.clst[1]"),
               (6, "s.in4a[s.in4b[0:2]:s.in4b[0:2] + 6]"), (2, "s.in4a[s.in4b[0:2]:s.in4b[0:2] + 2]"),
               (7, "s.in5[s.in4a[0:3]:s.in4a[0:3] + 7]"), (3, "s.in5[s.in4a[0:3]:s.in4a[0:3] + 3]"), (5, "s.in5[s.in4a[0:3]:s.in4a[0:3] + 5]"),
               (2, "KN"), (3, "KN"), (8, "KN"), (7, "KM"), (8, "KM"), (8, "s.in8 & KN"),
               (6, "St10(300, 1)"), (6, "St10(s.in4a, 5)"), (6, "St10(3, s.in1)")]:
  RAW.append((f"const:o{w}<-{rhs}", w, ["{o} @= " + rhs]))
for w, cmp_ in [(1, "s.in8 == -1"), (1, "s.in4a < -1"), (1, "s.in8 == ~0"), (1, "s.in8 != 1 - 2")]:
  RAW.append((f"const:o{w}<-{cmp_}", w, ["{o} @= " + cmp_]))
RAW.append(("tmp-backedge:0|s.in1", 8, ["t = 0", "for i in range(2):", "  {o} @= t", "  t = s.in1"]))
RAW.append(("tmp-backedge:s.in4a|s.in8", 8, ["t = s.in4a", "for i in range(2):", "  {o} @= zext(t, 8)", "  t = s.in8"]))
RAW.append(("tmp-backedge:created-in-loop", 8, ["for i in range(2):", "  if i == 0:", "    t = 0", "  {o} @= t", "  t = s.in1"]))
RAW.append(("tmp-backedge:chain", 8, ["t = 0", "u = 0", "for i in range(3):", "  {o} @= u", "  u = t", "  t = s.in1"]))
RAW.append(("tmp-ifexp-literals", 8, ["t = 1 if s.in1 else 200", "{o} @= t"]))
for w, e in [(7, "s.in8[0:(~Bits3(1)) >> Bits3(1)]"), (3, "s.in8[0:(~Bits3(1)) >> Bits3(1)]"), (8, "s.in8 + (~Bits8(1))"), (8, "s.in8 ^ Bits8(-3)"), (4, "(~Bits4(5)) % Bits4(7)")]:
  RAW.append((f"masked-constant:o{w}<-{e}", w, ["{o} @= " + e]))
RAW.append(("masked-constant:loop-bound", 1, ["for i in range((~Bits4(5)) % Bits4(7)):", "  {o} @= i"]))
RAW.append(("int-to-struct:3000", 8, ["{ost} @= 3000", "{o} @= s.in8"]))
RAW.append(("int-to-struct:200", 8, ["{ost} @= 200", "{o} @= s.in8"]))
for w, e in [(4, "1 if s.in1 else 200"), (4, "200 if s.in1 else 1"), (8, "1 if s.in1 else 200"), (4, "s.in4a + (1 if s.in1 else 200)"), (4, "1 if s.in1 else 9")]:
  RAW.append((f"ifexp-literals:o{w}<-{e}", w, ["{o} @= " + e]))


def block_src(k, text, form):
  name, w = form
  if name == "raw":
    lines = [l.replace("{o}", f"s.o{w}_{k}").replace("{ost}", f"s.ost_{k}") for l in text.split("\n")]
    decl = [f"    s.o{w}_{k} = OutPort( Bits{w} )"] + ([f"    s.ost_{k} = OutPort( St10 )"] if "{ost}" in text else [])
    return decl, [f"    @update", f"    def blk_{k}():"] + ["      " + l for l in lines]
  body = []
  if "te" in text.replace("trunc", "").replace("zext", "").replace("sext", "") .split("(") or " te" in text or "(te" in text: pass
  pre = []
  if _uses(text, "te"): pre.append("te = s.in4b")
  if _uses(text, "ti"): pre.append("ti = 3")
  stmt = f"r = {text}" if w is None else f"s.o{w}_{k} @= {text}"
  lines = pre + [stmt]
  if _uses(text, "i"):
    lines = pre + ["for i in range(4):", "  " + stmt]
  src = [f"    @update", f"    def blk_{k}():"] + ["      " + l for l in lines]
  decl = [] if w is None else [f"    s.o{w}_{k} = OutPort( Bits{w} )"]
  return decl, src


def _uses(text, name):
  import re
  return re.search(rf"(?<![A-Za-z0-9_.]){name}(?![A-Za-z0-9_])", text) is not None


def component_src(items):
  """items: [(k, text, form)]"""
  out = [HEADER, "class C10( Component ):", "  def construct( s ):",
         "    s.in4a = InPort( Bits4 )", "    s.in4b = InPort( Bits4 )", "    s.in8 = InPort( Bits8 )", "    s.in1 = InPort( Bits1 )",
         "    s.st = InPort( St10 )", "    s.lst = [ InPort( Bits4 ) for _ in range(2) ]", "    s.clst = [ Bits8(1), Bits8(2) ]", "    s.in5 = InPort( Bits5 )"]
  decls, blocks = [], []
  for k, text, form in items:
    d, b = block_src(k, text, form)
    decls += d; blocks += b
  return "\n".join(out + decls + blocks) + "\n"


INPUTS = [dict(in4a=a, in4b=b, in8=c8, in1=d, sta=e) for a in (0, 1, 9, 15) for b in (0, 3, 15) for c8 in (0, 1, 200, 255) for d in (0, 1) for e in (2, 13)]

WIDTH_MSGS = ("matching bitwidth", "too wide", "not a valid binop operand", "Bitwidth of LHS", "too narrow", "too big for", "Cannot fit")


def is_width_error(ex):
  return isinstance(ex, ValueError) and any(m in str(ex) for m in WIDTH_MSGS)


class Wrap(ast.NodeTransformer):
  def __init__(self, table): self.table = table
  def visit_AugAssign(self, node):
    node.value = self.visit(node.value)
    return node
  def visit_Assign(self, node):
    node.value = self.visit(node.value)
    return node
  def visit_For(self, node):
    node.iter = self.visit(node.iter)
    node.body = [self.visit(b) for b in node.body]
    return node
  def generic_visit(self, node):
    node = super().generic_visit(node)
    if isinstance(node, ast.expr) and id(node) in self.table and isinstance(getattr(node, "ctx", ast.Load()), ast.Load):
      return ast.copy_location(ast.Call(func=ast.Name(id="__probe", ctx=ast.Load()), args=[ast.Constant(value=self.table[id(node)]), node], keywords=[]), node)
    return node
  def visit(self, node):
    if isinstance(node, (ast.AugAssign, ast.Assign, ast.For)): return getattr(self, "visit_" + type(node).__name__)(node)
    return self.generic_visit(node)


def typed_nodes(root):
  """All behavioural-RTLIR nodes with a Vector-typed Signal/Const type -> list of (node, width, explicit, role)."""
  from pymtl3.passes.rtlir.behavioral import BehavioralRTLIR as bir
  from pymtl3.passes.rtlir.rtype import RTLIRType as rt, RTLIRDataType as rdt
  out = []
  carve = [False]
  def walk(n, role=None):
    if not isinstance(n, bir.BaseBehavioralRTLIR): return
    T = getattr(n, "Type", None)
    if isinstance(T, rt.Signal) and isinstance(T.get_dtype(), rdt.Vector) and getattr(n, "ast", None) is not None:
      out.append((n, T.get_dtype().get_length(), getattr(n, "_is_explicit", True), role))
    if isinstance(n, bir.SizeCast):
      try:
        if n.value.Type.get_dtype().get_length() != n.nbits: carve[0] = True
      except Exception: carve[0] = True
    if isinstance(n, bir.BinOp) and isinstance(n.op, (bir.ShiftLeft, bir.ShiftRightLogic)):
      try:
        if n.left.Type.get_dtype().get_length() != n.right.Type.get_dtype().get_length(): carve[0] = True
      except Exception: carve[0] = True
    for f, val in vars(n).items():
      if f in ("ast", "Type"): continue
      r = "slice-upper" if isinstance(n, bir.Slice) and f == "upper" else None
      if isinstance(val, list):
        for x in val: walk(x, r)
      else: walk(val, r)
  walk(root)
  return out, carve[0]


def int_valued(node):
  """May this node evaluate to a plain Python int (or bool) at run time instead of a Bits value?"""
  from pymtl3.passes.rtlir.behavioral import BehavioralRTLIR as bir
  if isinstance(node, bir.BinOp):
    if isinstance(node.op, (bir.ShiftLeft, bir.ShiftRightLogic)): return int_valued(node.left)
    return int_valued(node.left) and int_valued(node.right)
  if isinstance(node, bir.Compare): return int_valued(node.left) and int_valued(node.right)
  if isinstance(node, bir.UnaryOp): return int_valued(node.operand)
  if isinstance(node, bir.IfExp): return int_valued(node.body) or int_valued(node.orelse)
  if isinstance(node, (bir.Number, bir.LoopVar, bir.FreeVar, bir.TmpVar, bir.Attribute, bir.Index)):
    return not getattr(node, "_is_explicit", True)
  return False


def block_cause(root):
  """Attribution used to key the known findings:
  block-has-implicit-int     : the block computes with implicitly sized integers (an operation / comparison / negation / conditional
                               whose result can be a plain Python int): Python evaluates it unbounded, the checker sizes it Verilog-style
  block-has-folded-constant  : an operation on constants was folded by the checker and its width re-inferred from the value
  explicit                   : neither -- every operation has an explicitly sized operand deciding its width"""
  from pymtl3.passes.rtlir.behavioral import BehavioralRTLIR as bir
  found = set()
  def walk(n):
    if not isinstance(n, bir.BaseBehavioralRTLIR): return
    if isinstance(n, (bir.BinOp, bir.Compare, bir.UnaryOp, bir.IfExp)):
      # a conditional with one sized arm is typed by that arm (the int arm must fit): by itself it is not a computation on ints --
      # only a conditional between two ints is; an operation whose operand MAY be an int (the int arm of a conditional) is
      # (a conditional between two plain literals / int constants only SELECTS one of them: nothing is computed)
      leaf = lambda x: isinstance(x, (bir.Number, bir.FreeVar, bir.LoopVar))
      if (int_valued(n.body) and int_valued(n.orelse) and not (leaf(n.body) and leaf(n.orelse))) if isinstance(n, bir.IfExp) else int_valued(n): found.add("implicit-int")
      elif hasattr(n, "_value"): found.add("folded-constant")
    for f, val in vars(n).items():
      if f in ("ast", "Type"): continue
      if isinstance(n, bir.For) and f in ("start", "end", "step", "var"): continue      # range(7, 0, -1): the header is not a computation
      if isinstance(val, list):
        for x in val: walk(x)
      else: walk(val)
  walk(root)
  for c in ("implicit-int", "folded-constant"):
    if c in found: return "block-has-" + c
  return "explicit"


def _short(v):
  if isinstance(v, int) and not isinstance(v, bool) and v.bit_length() > 256: return f"<int of {v.bit_length()} bits>"
  return v


def check_chunk(items, acc):
  """items: [(k, text, shape, form)]"""
  from pymtl3 import DefaultPassGroup, Bits
  from pymtl3.passes.rtlir.behavioral import BehavioralRTLIRGenPass
  from pymtl3.passes.rtlir.behavioral.BehavioralRTLIRTypeCheckL5Pass import BehavioralRTLIRTypeCheckVisitorL5
  from pymtl3.passes.rtlir.behavioral.BehavioralRTLIRGenL1Pass import BehavioralRTLIRGenL1Pass
  from pymtl3.passes.rtlir.rtype import RTLIRType as rt
  src = component_src([(k, t, f) for k, t, sh, f in items])
  mod = ir.load_src(src)
  byname = {f"blk_{k}": (k, t, sh, f) for k, t, sh, f in items}
  try:
    m = mod.C10()
    try:
      m.elaborate()
      m.apply(BehavioralRTLIRGenPass(m))
    except Exception as ex:
      raise MachineryError(f"generated component does not elaborate / convert: {type(ex).__name__}: {str(ex)[:300]}")
    up = m.get_metadata(BehavioralRTLIRGenL1Pass.rtlir_upblks)
    getter = rt.RTLIRGetter(cache=True)
    verdict = {}
    for blk in m.get_update_block_order():
      v = BehavioralRTLIRTypeCheckVisitorL5(m, {}, set(), {}, getter)
      try:
        v.enter(blk, up[blk]); verdict[blk] = None
      except Exception as ex:
        verdict[blk] = ex
    # a simulatable twin (signals become values); blocks are executed by hand, one at a time
    sim = mod.C10()
    sim.elaborate()
    sim.apply(DefaultPassGroup())
    info = type(m)._name_info
    for blk in m.get_update_block_order():
      k, text, shape, form = byname[blk.__name__]
      acc.count("evaluations")
      rejected = verdict[blk] is not None
      case = dict(kind="block", text=text, shape=shape, form=form[0])
      fsig = f"{form[0]}<-{shape}"
      table, nodes, carve = {}, [], False
      if not rejected:
        nodes, carve = typed_nodes(up[blk])
        for idx, (n, w, ex, role) in enumerate(nodes): table.setdefault(id(n.ast), idx)
        acc.count("accepted")
        acc.count("accepted_" + block_cause(up[blk]).replace("block-has-", "").replace("-", "_"))
        if any(not ex for n, w, ex, role in nodes): acc.add("accepted_with_implicit", fsig)
      else:
        acc.count("rejected")
      tree = info[blk.__name__][-1]
      fdef = tree.body[0] if isinstance(tree, ast.Module) else tree
      new = ast.fix_missing_locations(ast.Module(body=[Wrap(table).visit(fdef)], type_ignores=[]))
      fdef.decorator_list = []
      seen_w = {}
      def probe(idx, val):
        n, w, ex, role = nodes[idx]
        if isinstance(val, Bits):
          if val.nbits != w: seen_w.setdefault(idx, ("bits", val.nbits))
        elif isinstance(val, int):
          v = int(val) - 1 if role == "slice-upper" else int(val)
          if not (-(1 << (w - 1)) <= v < (1 << w)): seen_w.setdefault(idx, ("int", int(val)))
        return val
      g = dict(mod.__dict__); g["s"] = sim; g["__probe"] = probe
      try:
        exec(compile(new, "<c10>", "exec"), g)
        fn = g[blk.__name__]
      except Exception as ex:
        raise MachineryError(f"instrumentation failed for {text}: {ex!r}")
      raised = None
      for inp in INPUTS:
        sim.in4a @= inp["in4a"]; sim.in4b @= inp["in4b"]; sim.in8 @= inp["in8"]; sim.in1 @= inp["in1"]
        sim.st @= mod.St10(inp["sta"], 1); sim.lst[1] @= 6; sim.in5 @= 21
        try: fn()
        except Exception as ex:
          if is_width_error(ex): raised = ex; break
          if isinstance(ex, (IndexError, ZeroDivisionError, AssertionError, TypeError, AttributeError, OverflowError, ValueError)): continue
          raise MachineryError(f"unexpected {type(ex).__name__} executing {text}: {ex}")
      if rejected:
        continue
      from pymtl3.passes.rtlir.behavioral import BehavioralRTLIR as _bir
      for n, w, ex, role in nodes:
        # a part select can never be wider than the signal it is taken from (the simulator raises IndexError for every index,
        # so no runtime width exists to compare with)
        if isinstance(n, _bir.Slice):
          try: bw = n.value.Type.get_dtype().get_length()
          except Exception: continue
          if w > bw:
            acc.violation(f"static-width-impossible:Slice:{fsig}", case, f"at most the {bw} bits of the sliced signal", f"{w} bits", f"`{text}`")
            break
      if seen_w:
        idx, (kind, got) = sorted(seen_w.items())[0]
        n, w, ex, role = nodes[idx]
        acc.violation(f"static-width-differs:{block_cause(up[blk])}:{type(n).__name__}:{fsig}", case, f"{w} bits ({'explicit' if ex else 'implicit'})",
                      f"runtime {kind} {_short(got)}", f"sub-expression {ast.unparse(n.ast) if hasattr(ast, 'unparse') else ''} in `{text}`")
      if raised is not None and not carve:
        acc.violation(f"accepted-block-raises:{block_cause(up[blk])}:{_errkind(raised)}:{fsig}", case, "no width / truncation error", str(raised).splitlines()[0][:120], f"`{form[0]} <- {text}`")
      if carve: acc.count("carve_out_blocks")
  finally:
    ir.unload(mod.__name__)


def _errkind(ex):
  s = str(ex)
  for m in WIDTH_MSGS:
    if m in s: return m.replace(" ", "-")
  return "other"


# ------------------------------------------------------------------ literal widths

def literal_values(tier):
  top = 1 << (14 if tier == "quick" else 20)
  vals = list(range(0, top))
  for k in range(1, 71):
    vals += [(1 << k) - 1, 1 << k, (1 << k) + 1]
  return vals


def check_literals(lo, hi, acc, tier):
  from pymtl3.passes.rtlir.rtype import RTLIRType as rt
  from pymtl3.passes.rtlir.behavioral.BehavioralRTLIRTypeCheckL1Pass import BehavioralRTLIRTypeCheckVisitorL1
  vals = literal_values(tier)[lo:hi]
  getter = rt.RTLIRGetter(cache=False)
  class _V(BehavioralRTLIRTypeCheckVisitorL1):
    def __init__(self): pass
  v1 = _V()
  for v in vals:
    want = max(1, v.bit_length())
    acc.count("evaluations"); acc.count("literals")
    try:
      got = getter.get_rtlir(v).get_dtype().get_length()
    except Exception as ex:
      acc.violation("literal-width:raised", dict(kind="literal", value=v), want, repr(ex)[:100]); continue
    if got != want:
      acc.violation(f"literal-width:get_rtlir:{'ge2^49' if v >= 1 << 49 else 'small'}", dict(kind="literal", value=v), want, got, f"value {v} = 2^{v.bit_length() - 1}+..")
    got2 = v1._get_nbits_from_value(v)
    if got2 != want:
      acc.violation(f"literal-width:typecheck-helper:{'ge2^49' if v >= 1 << 49 else 'small'}", dict(kind="literal", value=v), want, got2, f"value {v}")


# ------------------------------------------------------------------ runner API

CHUNK = 40


def all_items(tier):
  items = []
  k = 0
  for text, shape in exprs(tier):
    for form in FORMS:
      items.append((k, text, shape, form)); k += 1
  for name, w, lines in RAW:
    items.append((k, "\n".join(lines), "raw:" + name, ("raw", w))); k += 1
  return items


def shards(tier):
  n = len(all_items(tier))
  S = [("blocks", i, 64) for i in range(64)]
  nl = len(literal_values(tier))
  step = (nl + 7) // 8
  S += [("lit", lo, min(lo + step, nl)) for lo in range(0, nl, step)]
  return S


def run_shard(shard, tier, seed):
  acc = Acc()
  if shard[0] == "lit":
    check_literals(shard[1], shard[2], acc, tier)
    return acc
  items = all_items(tier)
  mine = items[shard[1]::shard[2]]
  for c in range(0, len(mine), CHUNK):
    check_chunk(mine[c:c + CHUNK], acc)
  if mine: acc.sample(dict(block=f"{mine[len(mine) // 2][3][0]} <- {mine[len(mine) // 2][1]}"))
  return acc


def replay(case):
  acc = Acc()
  if case["kind"] == "literal":
    v = case["value"]
    from pymtl3.passes.rtlir.rtype import RTLIRType as rt
    got = rt.RTLIRGetter(cache=False).get_rtlir(v).get_dtype().get_length()
    want = max(1, v.bit_length())
    return [("literal-width", want, got, "")] if got != want else []
  if case["form"] == "raw":
    form = ("raw", [w for n, w, l in RAW if "raw:" + n == case["shape"]][0])
  else:
    form = [f for f in FORMS if f[0] == case["form"]][0]
  check_chunk([(0, case["text"], case["shape"], form)], acc)
  return [(v["sig"], v["expected"], v["observed"], v["msg"]) for v in acc.violations]


def finish(acc, tier):
  if acc.n["accepted"] < 1000 or acc.n["rejected"] < 1000: raise MachineryError(f"accepted={acc.n['accepted']} rejected={acc.n['rejected']}: vacuous")
  return dict(
    evaluations=int(acc.n["evaluations"]), distinct_nontrivial=acc.size("accepted_with_implicit"),
    rule="one evaluation = one update block generated, converted, type-checked alone, and (if accepted) executed with probes over all 192 inputs, or one literal value; "
         "non-trivial = distinct accepted (form, expression shape) blocks containing at least one implicitly sized term that the checker re-sized from its context",
    exhaustive=True, blocks_accepted=int(acc.n["accepted"]), blocks_rejected=int(acc.n["rejected"]),
    accepted_blocks_checked_strictly=int(acc.n["accepted_explicit"]), accepted_blocks_in_known_class_implicit_int=int(acc.n["accepted_implicit_int"]),
    accepted_blocks_in_known_class_folded_constant=int(acc.n["accepted_folded_constant"]), carve_out_blocks=int(acc.n["carve_out_blocks"]),
    literals=int(acc.n["literals"]),
    bounds=dict(leaves=sorted(LEAVES), depth="1 full, 2 over 9 representative leaves", forms=[f[0] for f in FORMS]),
  )
