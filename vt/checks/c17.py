"""C17 -- library queues are FIFOs with their advertised same-cycle behaviour.

Explicit-state BFS to closure over the product (implementation registers,
reference list). Every transition elaborates the real queue, replays the
history and applies one letter (enq offer, msg, deq offer).
"""
import itertools

from pymtl3 import Component, update_once, U

from vt import fifo
from vt.acc import Acc, MachineryError
from vt.explore import bfs_history
from vt.simutil import make_reader

PROPERTY = "C17"
LEVEL = "model_checking"
ASSUMPTIONS = [
  "histories start after sim_reset(); reset is not a letter (the property does not speak about reset, "
  "and several 1-entry queues have no reset logic)",
  "en/rdy ports are driven protocol-legally: the harness asserts en only when the matching rdy is high, "
  "re-settling until the offers are stable (rdy may depend on the other side's en for pipe/bypass queues)",
  "reference: vt/fifo.py (a Python list with the kind's rdy/val equations)",
  "stdlib/queues/valrdy_queues.py cannot be imported on this tree (InValRdyIfc/OutValRdyIfc do not exist in stdlib.ifcs), "
  "so it defines no queue; the val/rdy interface family is covered by stdlib/stream/queues.py",
  "BypassQueue2RTL is checked twice: against the ideal 2-entry bypass FIFO (known finding: it is a chain of two 1-entry "
  "stages and is not ready with one element in the first stage) and against the two-stage composition of the 1-entry spec",
  "canonical state = every top-level signal value with all inputs zeroed + the reference list (no abstraction)",
]

# family: A queues.queues (enq/deq both en-rdy, callee side), B enrdy_queues (enq recv, deq send),
#         C valrdy_queues (val/rdy), D stream.queues (recv/send val/rdy), L cycle-level (method ports)
CATALOG = [
  # (key, module, class, family, kind, caps, arg style)
  ("A.Normal", "pymtl3.stdlib.queues.queues", "NormalQueueRTL", "A", "normal", (1, 2, 3, 4), "T,n"),
  ("A.Pipe", "pymtl3.stdlib.queues.queues", "PipeQueueRTL", "A", "pipe", (1, 2, 3, 4), "T,n"),
  ("A.Bypass", "pymtl3.stdlib.queues.queues", "BypassQueueRTL", "A", "bypass", (1, 2, 3, 4), "T,n"),
  ("B.Normal1", "pymtl3.stdlib.queues.enrdy_queues", "NormalQueue1RTL", "B", "normal", (1,), "T"),
  ("B.Pipe1", "pymtl3.stdlib.queues.enrdy_queues", "PipeQueue1RTL", "B", "pipe", (1,), "T"),
  ("B.Bypass1", "pymtl3.stdlib.queues.enrdy_queues", "BypassQueue1RTL", "B", "bypass", (1,), "T"),
  ("B.Bypass2", "pymtl3.stdlib.queues.enrdy_queues", "BypassQueue2RTL", "B", "bypass", (2,), "T"),
  ("B.Bypass2chain", "pymtl3.stdlib.queues.enrdy_queues", "BypassQueue2RTL", "B", "bypass-chain2", (2,), "T"),
  ("D.Normal", "pymtl3.stdlib.stream.queues", "NormalQueueRTL", "D", "normal", (1, 2, 3, 4), "T,n"),
  ("D.Pipe", "pymtl3.stdlib.stream.queues", "PipeQueueRTL", "D", "pipe", (1, 2, 3, 4), "T,n"),
  ("D.Bypass", "pymtl3.stdlib.stream.queues", "BypassQueueRTL", "D", "bypass", (1, 2, 3, 4), "T,n"),
  # the library leaves the callers of enq and deq of a normal CL queue unordered: both orders are explored
  ("L.Normal/enq-first", "pymtl3.stdlib.queues.cl_queues", "NormalQueueCL", "L", "normal", (1, 2, 3, 4), "n:enq<deq"),
  ("L.Normal/deq-first", "pymtl3.stdlib.queues.cl_queues", "NormalQueueCL", "L", "normal", (1, 2, 3, 4), "n:deq<enq"),
  ("L.Pipe", "pymtl3.stdlib.queues.cl_queues", "PipeQueueCL", "L", "pipe", (1, 2, 3, 4), "n"),
  ("L.Bypass", "pymtl3.stdlib.queues.cl_queues", "BypassQueueCL", "L", "bypass", (1, 2, 3, 4), "n"),
]
BYKEY = {c[0]: c for c in CATALOG}


class CLHarness(Component):
  def construct(s, Q, n, order=None):
    s.dut = Q(n)
    s.want_e = 0
    s.want_d = 0
    s.msg = 0
    s.log = {}

    @update_once
    def up_enq():
      r = s.dut.enq.rdy()
      s.log["enq_rdy"] = int(bool(r))
      if s.want_e and r:
        s.dut.enq(s.msg)
        s.log["enq_fire"] = 1

    @update_once
    def up_deq():
      r = s.dut.deq.rdy()
      s.log["deq_val"] = int(bool(r))
      if s.want_d and r:
        s.log["deq_msg"] = s.dut.deq()
        s.log["deq_fire"] = 1

    if order == "enq<deq": s.add_constraints(U(up_enq) < U(up_deq))
    elif order == "deq<enq": s.add_constraints(U(up_deq) < U(up_enq))


def entry_type(tname):
  import pymtl3
  if tname == "struct":
    from pymtl3.datatypes import mk_bitstruct
    return mk_bitstruct("QMsg", {"a": pymtl3.Bits1, "b": pymtl3.Bits1})
  return getattr(pymtl3, tname)


def mkmsg(T, m):
  if hasattr(T, "from_bits"):
    import pymtl3
    return T.from_bits(pymtl3.Bits2(m))
  return T(m)


class Impl:
  """One freshly elaborated queue + the reference list carried alongside."""
  def __init__(self, key, cap, tname):
    import importlib
    from pymtl3 import DefaultPassGroup
    _, mod, cls, fam, kind, _, style = BYKEY[key]
    Q = getattr(importlib.import_module(mod), cls)
    self.fam, self.kind, self.cap = fam, kind, cap
    self.T = T = entry_type(tname)
    if fam == "L":
      top = CLHarness(Q, cap, style.split(":")[1] if ":" in style else None)
    elif style == "T,n": top = Q(T, cap)
    elif style == "n,T": top = Q(cap, T)
    else: top = Q(T)
    top.elaborate()
    top.apply(DefaultPassGroup())
    top.sim_reset()
    self.top = top
    self.q = []
    if fam != "L":
      self.names, self.reader = make_reader(top)

  # ---- driving
  def apply(self, letter):
    e, m, d = letter
    top, fam = self.top, self.fam
    try:
      if fam == "L":
        top.want_e, top.want_d, top.msg = e, d, m
        top.log = {}
        top.sim_tick()
        obs = dict(top.log)
        obs.setdefault("enq_fire", 0); obs.setdefault("deq_fire", 0)
        if "deq_msg" in obs: obs["deq_msg"] = int(obs["deq_msg"])
        obs["count"] = None
      else:
        obs = getattr(self, "_drive_" + fam)(e, m, d)
        top.sim_tick()
    except MachineryError:
      raise
    except Exception as ex:
      obs = dict(raised=f"{type(ex).__name__}: {str(ex)[:100]}")
      self.dead = True
    spec = fifo.step(self.kind, self.cap, self.q, e, m, d)
    self.q = spec["q2"]
    return _freeze(obs), _freeze({k: v for k, v in spec.items() if k != "q2"})

  def _msgint(self, v):
    return int(v.to_bits()) if hasattr(v, "to_bits") else int(v)

  def _drive_A(self, e, m, d):
    top = self.top
    top.enq.msg @= mkmsg(self.T, m)
    top.enq.en @= 0; top.deq.en @= 0
    for _ in range(4):
      top.sim_eval_combinational()
      ne, nd = int(e and int(top.enq.rdy)), int(d and int(top.deq.rdy))
      if (ne, nd) == (int(top.enq.en), int(top.deq.en)): break
      top.enq.en @= ne; top.deq.en @= nd
    else:
      raise MachineryError("en/rdy offers did not stabilise")
    dv = int(top.deq.rdy)
    return dict(enq_rdy=int(top.enq.rdy), deq_val=dv, deq_msg=self._msgint(top.deq.ret) if dv else None,
                enq_fire=int(top.enq.en), deq_fire=int(top.deq.en), count=int(top.count))

  def _drive_B(self, e, m, d):
    top = self.top
    top.enq.msg @= mkmsg(self.T, m)
    top.deq.rdy @= d
    top.enq.en @= 0
    for _ in range(4):
      top.sim_eval_combinational()
      ne = int(e and int(top.enq.rdy))
      if ne == int(top.enq.en): break
      top.enq.en @= ne
    else:
      raise MachineryError("en/rdy offers did not stabilise")
    fire = int(top.deq.en)
    # a send interface shows "valid" only through en; deq_val is observable when the consumer is ready
    return dict(enq_rdy=int(top.enq.rdy), deq_val=(fire if d else None),
                deq_msg=self._msgint(top.deq.msg) if fire else None,
                enq_fire=int(top.enq.en), deq_fire=fire, count=None)

  def _drive_C(self, e, m, d):
    top = self.top
    top.enq.msg @= mkmsg(self.T, m)
    top.enq.val @= e
    top.deq.rdy @= d
    top.sim_eval_combinational()
    dv = int(top.deq.val)
    cnt = None
    if hasattr(top, "num_free_entries"): cnt = self.cap - int(top.num_free_entries)
    return dict(enq_rdy=int(top.enq.rdy), deq_val=dv, deq_msg=self._msgint(top.deq.msg) if dv else None,
                enq_fire=int(e and int(top.enq.rdy)), deq_fire=int(d and dv), count=cnt)

  def _drive_D(self, e, m, d):
    top = self.top
    top.recv.msg @= mkmsg(self.T, m)
    top.recv.val @= e
    top.send.rdy @= d
    top.sim_eval_combinational()
    dv = int(top.send.val)
    return dict(enq_rdy=int(top.recv.rdy), deq_val=dv, deq_msg=self._msgint(top.send.msg) if dv else None,
                enq_fire=int(e and int(top.recv.rdy)), deq_fire=int(d and dv), count=int(top.count))

  # ---- observation
  def canon(self):
    top = self.top
    if getattr(self, "dead", False):
      return ("dead", tuple(self.q))
    if self.fam == "L":
      return (tuple(int(x) for x in top.dut.queue), tuple(self.q))
    # neutral inputs so that combinational signals are a function of the registers only
    getattr(self, "_drive_" + self.fam)(0, 0, 0)
    return (self.reader(top), tuple(self.q))


def _freeze(d):
  return tuple(sorted(d.items()))


def compare(obs, spec):
  """-> list of (what, expected, observed)"""
  o, s = dict(obs), dict(spec)
  out = []
  if "raised" in o:
    return [("sim-raised", "no exception", o["raised"])]
  for k in ("enq_rdy", "deq_val", "deq_msg", "enq_fire", "deq_fire", "count"):
    if o.get(k) is None and k in ("count", "deq_val"): continue   # not observable on this interface
    if k == "deq_msg" and not s["deq_fire"]:
      # the message is only meaningful when valid; compare whenever both say valid
      if s["deq_val"] and o.get("deq_msg") is not None and o["deq_msg"] != s["deq_msg"]:
        out.append((k, s[k], o[k]))
      continue
    if o.get(k) != s[k]:
      out.append((k, s[k], o.get(k)))
  return out


def explore(key, cap, tname, msgs, acc, max_states):
  L = [(0, 0, 0), (0, 0, 1)] + [(1, m, d) for m in msgs for d in (0, 1)]
  kind = BYKEY[key][4]

  def on_step(hist, l, c, step, post):
    obs, spec = step
    diffs = compare(obs, spec)
    for what, want, got in diffs:
      acc.violation(f"{key}:cap{cap}:{what}", dict(key=key, cap=cap, T=tname, hist=[list(x) for x in hist], letter=list(l)),
                    want, got, f"{kind} queue, model list before the cycle={list(c[1])}, letter(e,m,d)={l}")
    n = len(c[1])
    if n == cap: acc.add("full_states", (key, cap, c))
    if n == 0: acc.add("empty_states", (key, cap, c))
    sd = dict(spec)
    if n == cap and sd["enq_fire"]: acc.count("enq_when_full")
    if n == 0 and sd["deq_fire"]: acc.count("deq_when_empty")
    return not diffs

  res = bfs_history(lambda: Impl(key, cap, tname), lambda im, l: im.apply(l), lambda im: im.canon(),
                    lambda c: L, on_step=on_step, max_states=max_states)
  acc.count("states", len(res.states)); acc.count("transitions", res.transitions)
  acc.count("executions", res.executions)
  if not res.closed: acc.count("not_closed"); acc.notes.append(f"{key} cap {cap} {tname}: state cap hit")
  acc.add("configs", (key, cap, tname))
  for c in res.states: acc.add("model_states", (key, cap, tname, c[1]))
  longest = max(res.states.values(), key=len)
  acc.sample(dict(queue=key, capacity=cap, entry_type=tname, letters="(enq offer, msg, deq offer)",
                  history=[list(x) for x in longest], states=len(res.states)))
  return res


# ------------------------------------------------------------------ CL <-> RTL adapter chains (stdlib/ifcs/send_recv_ifcs.py)

CHAIN_QUEUES = ("NormalQueue1RTL", "PipeQueue1RTL", "BypassQueue1RTL", "BypassQueue2RTL")


def build_chain(qname, via=None):
  """CL producer -> [RecvCL2SendRTL, inserted by connect()] -> en/rdy RTL queue -> [RecvRTL2SendCL, inserted by connect()] -> CL consumer"""
  import pymtl3.stdlib.queues.enrdy_queues as EQ
  from pymtl3 import Component, CallerIfcCL, Bits2, b2, update_once, non_blocking, connect, DefaultPassGroup

  class Src(Component):
    def construct(s):
      s.send = CallerIfcCL()
      s.want = 0; s.msg = 0; s.acc = []

      @update_once
      def up_src():
        if s.want and s.send.rdy():
          s.send(b2(s.msg)); s.acc.append(s.msg)

  class Snk(Component):
    def construct(s):
      s.ok = 0; s.got = []

    @non_blocking(lambda s: s.ok)
    def recv(s, msg):
      s.got.append(int(msg))

  class Drain(Component):
    """consumer behind a cycle-level queue: takes an element out whenever it is willing (the queue holds what arrived in between)"""
    def construct(s):
      s.ok = 0; s.got = []
      s.deq = CallerIfcCL()

      @update_once
      def up_drain():
        if s.ok and s.deq.rdy(): s.got.append(int(s.deq()))

  class Chain(Component):
    def construct(s):
      s.src = Src(); s.q = getattr(EQ, qname)(Bits2)
      connect(s.src.send, s.q.enq)
      if via is None:
        s.snk = Snk()
        connect(s.q.deq, s.snk.recv)
      else:
        import pymtl3.stdlib.queues.cl_queues as CLQ
        s.clq = getattr(CLQ, via)(3)
        s.snk = Drain()
        connect(s.q.deq, s.clq.enq)           # the RTL queue feeds a cycle-level queue that keeps the messages for a while
        connect(s.snk.deq, s.clq.deq)

  t = Chain(); t.elaborate(); t.apply(DefaultPassGroup()); t.sim_reset()
  names = {type(c).__name__ for c in t.get_all_components()}
  if not {"RecvCL2SendRTL", "RecvRTL2SendCL"} <= names: raise MachineryError(f"adapters were not inserted: {sorted(names)}")
  return t


def run_chain(qname, seq, via=None):
  """-> failures; the oracle only uses what the property states for every queue-like conduit: delivered == accepted, in order, none
  lost, duplicated or invented, bounded buffering; after the consumer has been ready for a while everything accepted is delivered"""
  t = build_chain(qname, via)
  cap = 2 + (2 if qname.endswith("2RTL") else 1) + (3 if via else 0)           # two 1-entry adapters + the queue (+ the 3-entry CL queue)
  fails = []
  def step(w, m, ok, i):
    t.src.want, t.src.msg, t.snk.ok = w, m, ok
    try: t.sim_tick()
    except Exception as ex:
      fails.append(("sim-raised", "no exception", f"{type(ex).__name__}: {str(ex)[:100]}", f"step {i}")); return False
    acc_, got = list(t.src.acc), list(t.snk.got)
    if got != acc_[:len(got)]:
      fails.append(("order-or-invented", acc_, got, f"delivered is not a prefix of accepted after step {i}")); return False
    if len(acc_) - len(got) > cap:
      fails.append(("more-buffered-than-capacity", f"<= {cap}", len(acc_) - len(got), f"step {i}")); return False
    return True
  for i, (w, m, ok) in enumerate(seq):
    if not step(w, m, ok, i): return fails
  for k in range(cap + 3):
    if not step(0, 0, 1, f"drain{k}"): return fails
  if t.snk.got != t.src.acc: fails.append(("lost", list(t.src.acc), list(t.snk.got), f"after {cap + 3} cycles with the consumer ready and nothing offered"))
  return fails


VIAS = (None, "PipeQueueCL", "NormalQueueCL", "BypassQueueCL")
WRAP_QUEUES = ("NormalQueueRTL", "PipeQueueRTL", "BypassQueueRTL")


def run_wrap(qname, seq):
  """queues.py RTL queue inside a wrapper whose enq AND deq side are cycle-level methods (RecvCL2SendRTL / GetRTL2GiveCL inserted by
  connect()); a driver block calls them: delivered is a prefix of accepted, bounded buffering, nothing lost after draining"""
  import pymtl3.stdlib.queues.queues as Q
  from pymtl3 import Component, CalleeIfcCL, Bits2, b2, update_once, connect, DefaultPassGroup

  class Wrap(Component):
    def construct(s):
      s.enq = CalleeIfcCL(); s.deq = CalleeIfcCL()
      s.q = getattr(Q, qname)(Bits2, 2)
      connect(s.enq, s.q.enq)
      connect(s.q.deq, s.deq)

  class Top(Component):
    def construct(s):
      s.w = Wrap()
      s.want = 0; s.msg = 0; s.ok = 0; s.acc = []; s.got = []

      @update_once
      def up_drive_enq():
        if s.want and s.w.enq.rdy(): s.w.enq(b2(s.msg)); s.acc.append(s.msg)

      @update_once
      def up_drive_deq():                 # a block of its own: a bypass queue orders the producer before the consumer
        if s.ok and s.w.deq.rdy(): s.got.append(int(s.w.deq()))

  fails = []
  try:
    t = Top(); t.elaborate(); t.apply(DefaultPassGroup()); t.sim_reset()
  except Exception as ex:
    return [("build-raised", "elaborates (adapters inserted by connect)", f"{type(ex).__name__}: {' '.join(str(ex).split())[:140]}", "")]
  cap = 2 + 2
  def step(w, m, ok, i):
    t.want, t.msg, t.ok = w, m, ok
    try: t.sim_tick()
    except Exception as ex:
      fails.append(("sim-raised", "no exception", f"{type(ex).__name__}: {str(ex)[:100]}", f"step {i}")); return False
    if t.got != t.acc[:len(t.got)]: fails.append(("order-or-invented", list(t.acc), list(t.got), f"step {i}")); return False
    if len(t.acc) - len(t.got) > cap: fails.append(("more-buffered-than-capacity", f"<= {cap}", len(t.acc) - len(t.got), f"step {i}")); return False
    return True
  for i, (w, m, ok) in enumerate(seq):
    if not step(w, m, ok, i): return fails
  for k in range(cap + 4):
    if not step(0, 0, 1, f"drain{k}"): return fails
  if t.got != t.acc: fails.append(("lost", list(t.acc), list(t.got), "after draining"))
  return fails


def explore_wrap(qname, tier, acc):
  L = 4 if tier == "quick" else 6
  letters = [(0, 0, 0), (0, 0, 1)] + [(1, m, ok) for m in (1, 2) for ok in (0, 1)]
  for k in range(1, L + 1):
    for seq in itertools.product(letters, repeat=k):
      fails = run_wrap(qname, seq)
      acc.count("executions"); acc.count("chain_executions"); acc.count("transitions", len(seq))
      for f in fails:
        acc.violation(f"wrap:{qname}:{f[0]}", dict(kind="wrap", queue=qname, seq=[list(x) for x in seq]), f[1], f[2], f[3])
      if fails: return
  acc.add("configs", ("wrap", qname, "Bits2"))


def explore_chain(qname, tier, acc):
  L = 4 if tier == "quick" else 6
  letters = [(0, 0, 0), (0, 0, 1)] + [(1, m, ok) for m in (1, 2) for ok in (0, 1)]
  for k in range(1, L + 1):
    for seq in itertools.product(letters, repeat=k):
      for via in ((None,) if k > (3 if tier == "quick" else 4) else VIAS):        # chains into a CL queue: sequences up to length 3 (4)
        fails = run_chain(qname, seq, via)
        acc.count("executions"); acc.count("chain_executions"); acc.count("transitions", len(seq))
        for f in fails:
          acc.violation(f"chain:{qname}:{'->' + via + ':' if via else ''}{f[0]}", dict(kind="chain", queue=qname, via=via, seq=[list(x) for x in seq]), f[1], f[2], f[3])
        if fails: return
  acc.add("configs", ("chain", qname, "Bits2"))


def shards(tier):
  S = []
  for key, _, _, fam, kind, caps, _ in CATALOG:
    for cap in caps:
      if tier == "quick":
        if cap > 3: continue
        msgs = (1, 2) if cap >= 3 and fam != "L" else (1, 2, 3)
        S.append((key, cap, "Bits2", msgs))
      else:
        S.append((key, cap, "Bits2", (1, 2, 3) if cap <= 3 or fam == "L" else (1, 2)))
    if tier != "quick" and 4 in caps:      # capacities 5 (not a power of two: pointer wrap) and 6 with two messages
      S.append((key, 5, "Bits2", (1, 2)))
      S.append((key, 6, "Bits2", (1, 2)))
    if fam != "L":
      S.append((key, caps[0] if tier == "quick" else min(caps[-1], 2), "struct", (1, 2, 3)))
  # largest first for load balance
  S.sort(key=lambda s: -(len(s[3]) + 1) ** s[1])
  return S + [("chain", q) for q in CHAIN_QUEUES] + [("wrap", q) for q in WRAP_QUEUES]


def run_shard(shard, tier, seed):
  acc = Acc()
  if shard[0] == "wrap":
    explore_wrap(shard[1], tier, acc)
    return acc
  if shard[0] == "chain":
    explore_chain(shard[1], tier, acc)
    return acc
  key, cap, tname, msgs = shard
  explore(key, cap, tname, tuple(msgs), acc, max_states=60000)
  return acc


def replay(case):
  if case.get("kind") == "wrap":
    return [(f"wrap:{case['queue']}:{f[0]}", f[1], f[2], f[3]) for f in run_wrap(case["queue"], [tuple(x) for x in case["seq"]])]
  if case.get("kind") == "chain":
    return [(f"chain:{case['queue']}:{f[0]}", f[1], f[2], f[3]) for f in run_chain(case["queue"], [tuple(x) for x in case["seq"]], case.get("via"))]
  im = Impl(case["key"], case["cap"], case["T"])
  for l in case["hist"]: im.apply(tuple(l))
  obs, spec = im.apply(tuple(case["letter"]))
  return [(f"{case['key']}:cap{case['cap']}:{w}", e, o, "") for w, e, o in compare(obs, spec)]


def finish(acc, tier):
  if acc.n["not_closed"]: raise MachineryError("BFS did not reach closure: " + "; ".join(acc.notes))
  if not acc.n["enq_when_full"] or not acc.n["deq_when_empty"]:
    raise MachineryError("never enqueued into a full pipe queue / dequeued from an empty bypass queue: vacuous")
  return dict(
    states=int(acc.n["states"]), transitions=int(acc.n["transitions"]),
    traces_validated_against_impl=int(acc.n["executions"]),
    evaluations=int(acc.n["executions"]),
    distinct_nontrivial=acc.size("full_states") + acc.size("empty_states"),
    rule="state = (all signal values with neutral inputs, reference list); letters = (enq offer, msg, deq offer); non-trivial = "
         "distinct product states with the queue full or empty (where the same-cycle rules matter)",
    exhaustive=True, closed=True,
    queue_configs=len(acc.sets["configs"]),
    distinct_model_lists=acc.size("model_states"),
    enq_when_full_transitions=int(acc.n["enq_when_full"]),
    deq_when_empty_transitions=int(acc.n["deq_when_empty"]),
    bounds=dict(capacities="1..3 quick / 1..4 thorough", messages="Bits2 in {1,2,3} ({1,2} for the largest), plus one 2-field struct type per RTL class"),
  )
