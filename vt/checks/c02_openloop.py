"""C02, OpenLoopCLPass part: top-level callee methods interleaved with update blocks.

OpenLoopCLPass turns a design with top-level callee ports into an "open loop" simulator: the update blocks and the
top-level methods form ONE linear schedule per cycle; every method call from outside runs the update blocks that
precede the method, and a call to a method that lies behind the current position finishes the cycle first.

Explored: every sequence of calls (letters) up to a bound on small designs. Recorded (sys.setprofile): every execution
of an update block and of a top-level method body / guard, with the cycle it happened in. Checked:
  * order: within one cycle no block or method runs twice, every explicit / implicit constraint A < B of the design
    (U-U, M-U, U-M, M-M, guard before method) is respected, and every COMPLETED cycle executed each update block once;
  * data: the returned values equal an independent model that replays the recorded events in their executed order
    (a list for the queues, plain ints for the push/pull design).
"""
import itertools
import sys

from vt.acc import Acc, MachineryError

M32 = 0xFFFFFFFF


# ------------------------------------------------------------------ designs

def _mk_top_method_port(fl=False):
  from pymtl3 import Component, Wire, Bits32, update, update_ff, update_once, method_port, blocking, M, U

  class OLMem(Component):
    def construct(s): pass
    @blocking
    def read(s, addr):
      return addr

  class OLTop(Component):
    def construct(s):
      if fl: s.mem = OLMem()
      s.element = None
      s.count = Wire(Bits32)
      s.amp = Wire(Bits32)
      s.value = Wire(Bits32)

      @update_ff
      def up_incr():
        s.count <<= s.count + 1

      @update
      def up_amp():
        s.amp @= s.count * 100

      if fl:
        @update_once
        def up_compose_in():
          zero = s.mem.read(0)          # a blocking call: the block is scheduled through its greenlet wrapper
          if s.element:
            s.value @= s.amp + s.element + zero
            s.element = None
          else:
            s.value @= Bits32(-1)
      else:
        @update
        def up_compose_in():
          if s.element:
            s.value @= s.amp + s.element
            s.element = None
          else:
            s.value @= Bits32(-1)

      s.add_constraints(M(s.push) < U(up_compose_in), U(up_compose_in) < M(s.pull))

    @method_port
    def push(s, ele):
      if s.element is None:
        s.element = ele

    @method_port
    def pull(s):
      return s.value

    def line_trace(s): return ""
  return OLTop()


def _mk_loop():
  """a false loop between two update blocks (disjoint nibbles of x and y) next to top-level methods: the pass has to iterate the group"""
  from pymtl3 import Component, Wire, Bits8, update, method_port, M, U

  class OLLoop(Component):
    def construct(s):
      s.v = Wire(Bits8)
      s.x = Wire(Bits8)
      s.y = Wire(Bits8)
      s.held = 0

      @update
      def up_a():
        s.x[0:4] @= s.v[0:4] + 1
        s.x[4:8] @= s.y[0:4]

      @update
      def up_b():
        s.y[0:4] @= s.x[0:4] + 2
        s.y[4:8] @= s.x[4:8]

      @update
      def up_v():
        s.v @= s.held

      s.add_constraints(M(s.push) < U(up_v), U(up_b) < M(s.pull))

    @method_port
    def push(s, e):
      s.held = e

    @method_port
    def pull(s):
      return s.y

    def line_trace(s): return ""
  return OLLoop()


class LoopModel:
  required = [("push", "up_v"), ("up_v", "up_a"), ("up_b", "pull"), ("up_a", "pull")]
  blocks = {"up_a", "up_b", "up_v"}
  scc = {"up_a", "up_b"}          # members of the iterated group may run several times per cycle

  def __init__(self):
    self.held = 0; self.v = 0; self.x = 0; self.y = 0

  def event(self, name, args, ret):
    if name == "up_v": self.v = self.held & 0xFF
    elif name == "up_a": self.x = (((self.v & 15) + 1) & 15) | ((self.y & 15) << 4)
    elif name == "up_b": self.y = (((self.x & 15) + 2) & 15) | (self.x & 0xF0)
    elif name == "push": self.held = args[0]
    elif name == "pull":
      y0 = (((self.v & 15) + 1 & 15) + 2) & 15
      fp = y0 | (y0 << 4)                                   # the unique fixed point for the current v
      if ret is None or int(ret) != self.y: return f"pull returned {ret}, the executed order gives {self.y}"
      if int(ret) != fp: return f"pull returned {ret:#x}, the fixed point of the loop for v={self.v} is {fp:#x}"
    return None


def _mk_connected_callee(chain=False):
  """a top-level callee port CONNECTED to a child's method; an internal block calls another method of that child which the child
  orders after the first one: M(q.enq) < M(q.deq) has to order top.enq before the block"""
  from pymtl3 import Component, CalleePort, update_once, method_port, M, U

  class OLQ(Component):
    def construct(s):
      s.val = None
      if chain: s.add_constraints(M(s.enq) < M(s.peek), M(s.peek) < M(s.deq))     # nobody calls peek
      else: s.add_constraints(M(s.enq) < M(s.deq))

    @method_port
    def peek(s):
      return s.val

    @method_port
    def enq(s, v):
      s.val = v

    @method_port
    def deq(s):
      v = s.val; s.val = None
      return v

  class OLConn(Component):
    def construct(s):
      s.q = OLQ()
      s.enq = CalleePort()
      s.enq //= s.q.enq
      s.out = None

      @update_once
      def up_drain():
        s.out = s.q.deq()

      s.add_constraints(U(up_drain) < M(s.pull))

    @method_port
    def pull(s):
      return s.out

    def line_trace(s): return ""
  return OLConn()


class ConnModel:
  required = [("enq", "up_drain"), ("up_drain", "pull")]
  blocks = {"up_drain"}

  def __init__(self):
    self.val = None; self.out = None

  def event(self, name, args, ret):
    if name == "enq": self.val = args[0]
    elif name == "up_drain": self.out, self.val = self.val, None
    elif name == "pull":
      if ret != self.out: return f"pull returned {ret}, the executed order gives {self.out}"
    return None


def _mk_queue(kind, cap):
  import pymtl3.stdlib.queues.cl_queues as clq
  return getattr(clq, kind)(cap)


class TopModel:
  """replays the recorded events of OLTop"""
  required = [("push", "up_compose_in"), ("up_compose_in", "pull"), ("up_amp", "up_compose_in")]
  blocks = {"up_incr", "up_amp", "up_compose_in"}

  def __init__(self):
    self.count = 0; self.amp = 0; self.element = None; self.value = 0

  def event(self, name, args, ret):
    """-> None or a failure string"""
    if name == "up_incr": self.next_count = (self.count + 1) & M32; self.count = self.next_count
    elif name == "up_amp": self.amp = (self.count * 100) & M32
    elif name == "up_compose_in":
      if self.element:
        self.value = (self.amp + self.element) & M32; self.element = None
      else: self.value = M32
    elif name == "push":
      if self.element is None: self.element = args[0]
    elif name == "pull":
      if ret is None or int(ret) != self.value: return f"pull returned {ret}, the executed order gives {self.value}"
    return None


class QueueModel:
  def __init__(self, kind, cap):
    self.kind, self.cap, self.q = kind, cap, []
    self.enq_rdy = self.deq_rdy = False
    # M(a) < M(b) on non-blocking interfaces means: a's method before b's GUARD (the guard is evaluated after a has had its effect)
    if kind == "PipeQueueCL": self.required = [("peek", "enq.rdy"), ("deq", "enq.rdy")]
    elif kind == "BypassQueueCL": self.required = [("enq", "peek.rdy"), ("enq", "deq.rdy")]
    else: self.required = [("up_pulse", "enq.rdy"), ("up_pulse", "deq.rdy"), ("peek", "deq.rdy"), ("peek", "enq.rdy")]
    self.required += [("enq.rdy", "enq"), ("deq.rdy", "deq"), ("peek.rdy", "peek")]
    self.blocks = {"up_pulse"} if kind == "NormalQueueCL" else set()

  def event(self, name, args, ret):
    live = self.kind != "NormalQueueCL"
    if name == "up_pulse":
      self.enq_rdy, self.deq_rdy = len(self.q) < self.cap, len(self.q) > 0
    elif name == "enq.rdy":
      want = (len(self.q) < self.cap) if live else self.enq_rdy
      if bool(ret) != want: return f"enq.rdy returned {ret} with {len(self.q)} of {self.cap} entries ({'live' if live else 'snapshot'})"
    elif name == "deq.rdy":
      want = (len(self.q) > 0) if live else self.deq_rdy
      if bool(ret) != want: return f"deq.rdy returned {ret} with {len(self.q)} entries"
    elif name == "peek.rdy":
      if bool(ret) != (len(self.q) > 0): return f"peek.rdy returned {ret} with {len(self.q)} entries"
    elif name == "enq":
      if len(self.q) >= self.cap: return f"enq executed on a full queue ({self.q})"
      self.q.append(args[0])
    elif name == "deq":
      if not self.q: return "deq executed on an empty queue"
      h = self.q.pop(0)
      if ret != h: return f"deq returned {ret}, FIFO head is {h}"
    elif name == "peek":
      if not self.q or ret != self.q[0]: return f"peek returned {ret}, queue {self.q}"
    return None


def designs():
  out = [("OLTop", _mk_top_method_port, TopModel, [("call", "push", 7), ("call", "push", 9), ("call", "pull")]),
         ("OLLoop", _mk_loop, LoopModel, [("call", "push", 3), ("call", "push", 9), ("call", "pull")]),
         ("OLConn", _mk_connected_callee, ConnModel, [("call", "enq", 5), ("call", "enq", 6), ("call", "pull")]),
         ("OLChain", lambda: _mk_connected_callee(True), ConnModel, [("call", "enq", 5), ("call", "enq", 6), ("call", "pull")]),
         ("OLTopFL", lambda: _mk_top_method_port(True), TopModel, [("call", "push", 7), ("call", "push", 9), ("call", "pull")])]
  for kind in ("PipeQueueCL", "BypassQueueCL", "NormalQueueCL"):
    for cap in (1, 2):
      out.append((f"{kind}({cap})", (lambda k=kind, c=cap: _mk_queue(k, c)), (lambda k=kind, c=cap: QueueModel(k, c)),
                  [("try", "enq", 1), ("try", "enq", 2), ("try", "deq"), ("try", "peek")]))
  return out


# ------------------------------------------------------------------ one execution

def run_sequence(factory, mk_model, seq, tiebreak=0):
  """-> (events [(cycle, name, args, ret)], failures [(sig, expected, observed, msg)])"""
  from pymtl3.passes.sim.GenDAGPass import GenDAGPass
  from pymtl3.passes.autotick.OpenLoopCLPass import OpenLoopCLPass
  from pymtl3.dsl import CalleePort
  top = factory()
  top.elaborate()
  top.apply(GenDAGPass())
  from pymtl3.passes.sim.WrapGreenletPass import WrapGreenletPass
  top.apply(WrapGreenletPass())                 # as in AutoTickSimPass: blocks that make blocking calls run inside greenlets
  from vt import seams
  try:
    # the pass shuffles the vertex list before its depth-first search: the tie-break is chosen here (element tiebreak % n first ... )
    with seams.shuffle_seam(lambda n: tiebreak % n):
      top.apply(OpenLoopCLPass(print_line_trace=False))
  except Exception as ex:
    return [], [("pass-raised", "the design is scheduled", f"{type(ex).__name__}: {str(ex)[:120]}", "")]
  model = mk_model()
  codes = {}
  for blk in top.get_all_update_blocks():
    codes[blk.__code__] = blk.__name__
  events = []

  def prof(frame, event, arg):
    if event == "call":
      nm = codes.get(frame.f_code)
      if nm: events.append([top._sim.simulated_cycles, nm, (), None])

  def call(name, *args):
    port = top
    for part in name.split("."): port = getattr(port, part)
    sys.setprofile(prof)
    try: ret = port(*args)
    finally: sys.setprofile(None)
    ret = int(ret) if ret is not None and not isinstance(ret, bool) else ret
    events.append([top._sim.simulated_cycles, name, tuple(args), ret])
    return ret

  fails = []
  try:
    for letter in seq:
      if letter[0] == "call": call(letter[1], *letter[2:])
      else:
        if call(letter[1] + ".rdy"): call(letter[1], *letter[2:])
  except Exception as ex:
    fails.append(("raised", "runs", f"{type(ex).__name__}: {str(ex)[:120]}", ""))
    return events, fails
  # ---- order
  # update blocks executed while a method call advanced the schedule are stamped with the cycle counter at the time they ran;
  # the blocks that FINISH a cycle run before the counter is incremented, so stamps are consistent
  last = -1
  by_cycle = {}
  for c, nm, args, ret in events:
    if c < last: fails.append(("cycle-counter-went-back", f">= {last}", c, nm)); break
    last = c
    by_cycle.setdefault(c, []).append(nm)
  req = model.required
  for c, names in sorted(by_cycle.items()):
    scc = getattr(model, "scc", set())
    dups = [n for n in names if names.count(n) > 1 and n not in scc]
    if dups:
      fails.append(("executed-twice-in-one-cycle", "at most once", dups[0], f"cycle {c}: {names}")); break
    first, pos = {}, {}
    for i, n in enumerate(names):
      first.setdefault(n, i); pos[n] = i                    # pos = LAST execution (members of an iterated group repeat)
    for a, b in req:
      if a in pos and b in first and pos[a] > first[b] and not (a in scc and b in scc):
        fails.append((f"constraint-violated:{a}<{b}", f"{a} before {b}", names, f"cycle {c}")); break
    # earliest cycle: if everything executed so far in this cycle is strictly before X in the design's partial order, every legal
    # schedule has X later in the same cycle, so the call must not have been pushed into the next cycle
    if c > 0 and (c - 1) in by_cycle:
      prev = [n for n in by_cycle[c - 1] if n not in model.blocks]
      first = next((n for n in names if n not in model.blocks), None)
      if first is not None and prev and all((p, first) in closure(req) for p in prev):
        fails.append((f"cycle-advanced-needlessly:{first}", f"{first} in the cycle of {prev}", f"pushed to cycle {c}", f"cycle {c - 1}: {by_cycle[c - 1]}")); break
    if c != last:       # a completed cycle: every update block ran exactly once
      missing = model.blocks - set(names)
      if missing: fails.append(("block-skipped-in-completed-cycle", sorted(model.blocks), names, f"cycle {c}"))
  # ---- data: replay in executed order
  for c, nm, args, ret in events:
    why = model.event(nm, args, ret)
    if why:
      fails.append((f"data:{nm}", "values of the executed order", why, f"cycle {c}")); break
  return events, fails


_closure_cache = {}


def closure(req):
  key = tuple(req)
  if key not in _closure_cache:
    R = set(req)
    changed = True
    while changed:
      changed = False
      for (a, b) in list(R):
        for (c, d) in list(R):
          if b == c and (a, d) not in R: R.add((a, d)); changed = True
    _closure_cache[key] = R
  return _closure_cache[key]


def cyclic_designs():
  """designs whose dependency graph has a cycle that cannot be iterated: OpenLoopCLPass has to refuse them with UpblkCyclicError"""
  from pymtl3 import Component, Wire, Bits8, update, update_once, method_port, non_blocking, M, U, WR

  class OnceInCycle(Component):                       # an update_once block inside a value cycle
    def construct(s):
      s.x = Wire(Bits8); s.y = Wire(Bits8)
      @update_once
      def up_a(): s.x @= s.y + 1
      @update
      def up_b(): s.y @= s.x & 1
    @method_port
    def pull(s): return int(s.x)
    def line_trace(s): return ""

  class OrderingCycle(Component):                     # a cycle closed by a pure ordering constraint
    def construct(s):
      s.x = Wire(Bits8); s.y = Wire(Bits8)
      @update
      def up_a(): s.x @= 1
      @update
      def up_b(): s.y @= 2
      s.add_constraints(WR(s.x) < U(up_b), U(up_b) < U(up_a))
    @method_port
    def pull(s): return int(s.y)
    def line_trace(s): return ""

  class MethodInCycle(Component):                     # M(pull) < up_a -> x -> up_b < M(pull)
    def construct(s):
      s.x = Wire(Bits8); s.y = Wire(Bits8)
      @update
      def up_a(): s.x @= 1
      @update
      def up_b(): s.y @= s.x
      s.add_constraints(M(s.pull) < U(up_a), U(up_b) < M(s.pull))
    @method_port
    def pull(s): return int(s.y)
    def line_trace(s): return ""

  class GuardInCycle(Component):                      # M(enq) < up_a < M(enq.rdy), and rdy comes before the method
    def construct(s):
      s.x = Wire(Bits8)
      @update
      def up_a(): s.x @= 1
      s.add_constraints(M(s.enq) < U(up_a), U(up_a) < M(s.enq.rdy))
    @non_blocking(lambda s: True)
    def enq(s, v): pass
    def line_trace(s): return ""

  return [("OnceInCycle", OnceInCycle), ("OrderingCycle", OrderingCycle), ("MethodInCycle", MethodInCycle), ("GuardInCycle", GuardInCycle)]


def check_cyclic(acc):
  from pymtl3.passes.sim.GenDAGPass import GenDAGPass
  from pymtl3.passes.sim.WrapGreenletPass import WrapGreenletPass
  from pymtl3.passes.autotick.OpenLoopCLPass import OpenLoopCLPass
  from pymtl3.dsl.errors import UpblkCyclicError
  from vt import seams
  for name, cls in cyclic_designs():
    for tb in TIEBREAKS:
      top = cls(); top.elaborate()
      got = "accepted"
      try:
        top.apply(GenDAGPass()); top.apply(WrapGreenletPass())
        with seams.shuffle_seam(lambda n: tb % n):
          top.apply(OpenLoopCLPass(print_line_trace=False))
      except UpblkCyclicError:
        got = None
      except Exception as ex:
        got = f"{type(ex).__name__}: {str(ex)[:100]}"
      acc.count("openloop_executions"); acc.count("executions")
      if got:
        acc.violation(f"openloop:{name}:cycle-not-reported", dict(mode="openloop-cyclic", design=name, tiebreak=tb), "UpblkCyclicError", got, name)
        break
    acc.count("openloop_designs")


TIEBREAKS = tuple(range(8))      # every element of the (at most 8) vertices of these designs moved to the end of the shuffled list once


def explore(tier, acc, only=None):
  L = 4 if tier == "quick" else 5
  if not only: check_cyclic(acc)
  for name, factory, mk_model, letters in designs():
    if only and only != name: continue
    n = 0
    for k in range(1, L + 1):
      for seq in itertools.product(letters, repeat=k):
        fails = []
        for tb in (TIEBREAKS if k <= 3 else (0,)):
          events, fails = run_sequence(factory, mk_model, seq, tb)
          n += 1
          acc.count("openloop_executions"); acc.count("executions"); acc.count("order_checks", len(events))
          acc.add("openloop_outcomes", (name, tuple((c, nm) for c, nm, a, r in events)))
          for f in fails:
            acc.violation(f"openloop:{name.split('(')[0]}:{f[0]}", dict(mode="openloop", design=name, seq=[list(x) for x in seq], tiebreak=tb), f[1], f[2], f[3])
          if fails: break
        if fails: break
    acc.count("openloop_designs")
    if n == 0: raise MachineryError("no open-loop sequence executed")


def replay(case):
  if case.get("mode") == "openloop-cyclic":
    from vt.acc import Acc
    acc = Acc(); check_cyclic(acc)
    return [(v["sig"], v["expected"], v["observed"], v["msg"]) for v in acc.violations if v["case"]["design"] == case["design"]][:2]
  for name, factory, mk_model, letters in designs():
    if name == case["design"]:
      events, fails = run_sequence(factory, mk_model, [tuple(x) for x in case["seq"]], case.get("tiebreak", 0))
      return [(f"openloop:{name.split('(')[0]}:{f[0]}", f[1], f[2], f[3]) for f in fails]
  return []
