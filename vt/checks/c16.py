"""C16 -- waveform dumps replay the simulation exactly.

For designs chosen for their sharing patterns (nets of top-level signals, nets
with slices, struct signals, constants, never-changing signals, children,
many nets) every input sequence up to the bound is simulated with the VCD and
text-wave passes enabled; the VCD file is read by an independent parser and
compared, signal by signal and cycle by cycle, with the values sampled from
the simulator right before each clock edge.
"""
import itertools
import os

from vt import ir, irgen, vcdparse
from vt.acc import Acc, MachineryError
from vt.ir import B, ref, c

PROPERTY = "C16"
LEVEL = "model_checking"
ASSUMPTIONS = [
  "sample of cycle t = all signal values after sim_eval_combinational() with the inputs of cycle t, immediately before sim_tick() "
  "(pure RTL designs: identical to the values at the position of the dump function inside the tick)",
  "VCD value of cycle t = value after all changes with timestamp <= 100*t; the clock must rise at 100*t and fall at 100*t+50",
  "reset is driven as an ordinary input letter; sim_reset() is not used (it dumps cycles the harness cannot sample)",
  "set iteration order inside pymtl3 (net numbering) is made deterministic with the object-hash seam; 4 different permutations are cycled over the sequences",
  "input alphabets revisit old values (a,b,a) so that change suppression is exercised; every sequence of the bound is run on a fresh design",
]


def wide_design(n):
  """n independent outputs -> more than 94 (and 188) VCD identifier codes."""
  sigs = [("in_", "in", B(8), ()), ("out", "out", B(8), (n,))]
  blk = ("up_fan", "comb", [("for", "i", 0, n, [("=", ref("out", ("v", ("lv", "i"))), ("bin", "+", ref("in_"), ("lv", "i")))])])
  return irgen.comp("Wide", sigs, blocks=[blk])


def const_design():
  """several constant-tied nets of the same width next to nets that take the same value"""
  leaf = irgen.comp("Add", [("a", "in", B(4), ()), ("b", "in", B(4), ()), ("o", "out", B(4), ())],
                    blocks=[("up_add", "comb", [("=", ref("o"), ("bin", "+", ref("a"), ref("b")))])])
  sigs = [("in_", "in", B(4), ())] + [(f"o{i}", "out", B(4), ()) for i in range(4)] + [("k", "wire", B(4), ())]
  conns = [(ref("k"), c(4, 5))]
  children = []
  for i in range(4):
    children.append((f"c{i}", leaf))
    conns += [(ref("a", path=(f"c{i}",)), ref("in_")), (ref("b", path=(f"c{i}",)), c(4, 5 if i % 2 == 0 else 9)), (ref(f"o{i}"), ref("o", path=(f"c{i}",)))]
  return irgen.comp("ConstTied", sigs, children=children, connects=conns)


PKT = ir.S("Pkt16", ("tag", B(8)), ("data", B(64)))


def cmp_design():
  """one-bit signals whose values are RESULTS OF COMPARISONS (Bits1 objects built from Python bools), directly and registered"""
  sigs = [("in_", "in", B(4), ()), ("b", "in", B(4), ()), ("eq", "out", B(1), ()), ("lt", "out", B(1), ()), ("lt_q", "out", B(1), ()), ("ne_w", "wire", B(1), ())]
  blocks = [("up_cmp", "comb", [("=", ref("eq"), ("bin", "==", ref("in_"), ref("b"))), ("=", ref("lt"), ("bin", "<", ref("in_"), ref("b"))),
                                ("=", ref("ne_w"), ("bin", "!=", ref("in_"), c(4, 9)))]),
            ("ff_cmp", "ff", [("=", ref("lt_q"), ref("lt"))])]
  return irgen.comp("CmpBits", sigs, blocks=blocks)


def wide_value_design():
  """64-bit and 72-bit (struct) nets stepped between values that are congruent modulo 2^61-1, the modulus of CPython's int hash:
  a change detector that compares hashes instead of values misses exactly these steps"""
  sigs = [("in_", "in", B(64), ()), ("pk", "in", PKT, ()), ("r", "out", B(64), ()), ("po", "out", PKT, ()), ("w", "wire", B(64), ())]
  blocks = [("ff_w", "ff", [("=", ref("r"), ref("in_"))]), ("up_w", "comb", [("=", ref("w"), ("un", "~", ref("in_")))])]
  return irgen.comp("Wide64", sigs, blocks=blocks, connects=[(ref("po"), ref("pk"))])


M61 = (1 << 61) - 1
WIDE_LETTERS = [(7, (1 << 64) | 7, 0), ((1 << 64) - 1, (1 << 64) | ((1 << 64) - 1), 0), (0, 0, 0), (M61, M61, 0), (1, (3 << 64) | 1, 0), (1 << 61, (3 << 64) | (1 << 61), 1)]


def odd_names_design():
  """children whose instance names are `s` and `top` (the name of the root scope in the dump), a child holding a child `s`, and wires
  named like the implicit clock and reset of ANOTHER level (`clk2`, plus a port list)"""
  leaf = lambda k: irgen.comp(f"Inc{k}", [("i", "in", B(4), ()), ("o", "out", B(4), ())],
                              blocks=[("up_l", "comb", [("=", ref("o"), ("bin", "+", ref("i"), c(4, k)))])])
  mid = irgen.comp("MidS", [("i", "in", B(4), ()), ("o", "out", B(4), ())], children=[("s", leaf(3))],
                   connects=[(ref("i", path=("s",)), ref("i")), (ref("o"), ref("o", path=("s",)))])
  sigs = [("in_", "in", B(4), ()), ("o1", "out", B(4), ()), ("o2", "out", B(4), ()), ("o3", "out", B(4), ())]
  return irgen.comp("OddNames", sigs, children=[("s", leaf(1)), ("top", leaf(2)), ("m", mid)],
                    connects=[(ref("i", path=("s",)), ref("in_")), (ref("i", path=("top",)), ref("in_")), (ref("i", path=("m",)), ref("in_")),
                              (ref("o1"), ref("o", path=("s",))), (ref("o2"), ref("o", path=("top",))), (ref("o3"), ref("o", path=("m",)))])


def design_list(tier):
  all_ = dict(irgen.all_designs())
  pick = ["chain:T4:w>w:flat", "chain:T4:w>s02:rchild", "chain:Sab:w>a:wchild", "chain:Npc:p>pa:rchild", "chain:SLal:w>l0:flat",
          "chain:L2:e0>ev:flat", "net:whole:0", "net:slice-to-slice:1", "net:field-to-whole:0", "net:struct-whole:1", "net:const", "net:hier2",
          "reg:rotate:3", "reg:cond-hold", "reg:struct", "reg:list-var", "reg:child-forward", "ffx:shift:p2c1g1", "ffx:struct-nested",
          "ffx:list-struct-var", "hier:parent-drives-child-fields", "fan:Sab:p1:r0r1"]
  out = [(n, all_[n]) for n in pick if n in all_]
  missing = [n for n in pick if n not in all_]
  if missing: raise MachineryError(f"design names changed: {missing}")
  out.append(("c16:const-tied", const_design()))
  out.append(("c16:cmp-bits", cmp_design()))
  out.append(("c16:w64", wide_value_design()))
  out.append(("c16:odd-names", odd_names_design()))
  out.append(("c16:wide:100", wide_design(100)))
  out.append(("c16:wide:200", wide_design(200)))
  return out


def mangle(name):
  return name.replace("[", "(").replace("]", ")").replace(":", "__")


def run_sequence(name, d, seq, acc, tag, perm=0):
  """Fresh design, one input sequence; returns failures. perm selects one of the deterministic
  object-hash permutations (vt/seams.py) that decide the iteration order of pymtl3's sets, hence the
  order in which nets receive their VCD identifier codes."""
  from vt import seams
  mult = (1, 7919, 104729, 31)[perm % 4]
  with seams.hash_seam(lambda obj, i: (i * mult + perm) % 1000003):
    return _run_sequence(name, d, seq, acc, tag)


def _run_sequence(name, d, seq, acc, tag):
  from pymtl3 import DefaultPassGroup
  from pymtl3.passes.tracing.PrintTextWavePass import PrintTextWavePass
  cls, src, modname = ir.load(d)
  fails = []
  fname = f"c16_{tag}"
  try:
    top = cls()
    top.elaborate()
    top.apply(DefaultPassGroup(vcdwave=fname, textwave=True))
    # a second design with waveform recording prepared in the same process (never simulated): it must not disturb the first one
    bystander = cls()
    bystander.elaborate()
    bystander.apply(DefaultPassGroup(textwave=True))
    keys = sorted(ir.instances(d))
    # clk is not part of the IR instance table; every component has one
    read = eval("lambda s: (" + ", ".join(f"int({ir.inst_name(k)}.to_bits())" for k in keys) + ",)")
    ins = [(n, ir.width(t), t[0] == "S") for n, k, t, dims in d["sigs"] if k == "in" and not dims]
    samples = []
    from pymtl3 import Bits
    for (v, aux, rst) in seq:
      for n, w, is_struct in ins:
        val = (v if n == "in_" else aux) & ((1 << w) - 1)
        if is_struct: exec(f"top.{n} @= top.{n}.__class__.from_bits(Bits({w}, {val}))", {"top": top, "Bits": Bits})
        else: exec(f"top.{n} @= {val}", {"top": top})
      top.reset @= rst
      top.sim_eval_combinational()
      samples.append(dict(zip(keys, read(top))))
      top.sim_tick()
    text = open(fname + ".vcd").read()
    vcd = vcdparse.parse(text)
    for e in vcd.errors[:3]: fails.append(("vcd:malformed", "well-formed VCD", e, ""))
    # declared variables per scope
    decl = {}
    for scope, nm, w, sym in vcd.vars:
      if (scope, nm) in decl: fails.append(("vcd:signal-declared-twice", 1, 2, f"{'.'.join(scope)}.{nm}"))
      decl[(scope, nm)] = (w, sym)
    insts = ir.instances(d)
    comp_paths = [p for p, _ in ir.walk_comps(d)]
    expected = {}
    for (path, sname, idx), t in insts.items():
      if sname == "reset":
        for p in comp_paths: expected[(("top",) + tuple(mangle(x) for x in p), "reset")] = (1, ((), "reset", ()))
        continue
      scope = ("top",) + tuple(mangle(x) for x in path)
      expected[(scope, mangle(sname + "".join(f"[{i}]" for i in idx)))] = (ir.width(t), (path, sname, idx))
    for key, (w, inst) in expected.items():
      if key not in decl:
        fails.append(("vcd:signal-missing", "declared", "absent", ".".join(key[0]) + "." + key[1])); continue
      if decl[key][0] != w: fails.append(("vcd:wrong-width", w, decl[key][0], ".".join(key[0]) + "." + key[1]))
    # values: every declared signal, every cycle
    nmis = 0
    for key, (w, inst) in expected.items():
      if key not in decl: continue
      sym = decl[key][1]
      for t, smp in enumerate(samples):
        want = smp[inst]
        got = vcd.value_at(sym, 100 * t)
        if got != want:
          nmis += 1
          if nmis <= 3:
            kind = "struct" if insts[inst][0] == "S" else "bits"
            fails.append((f"vcd:wrong-value:{kind}", want, got, f"{'.'.join(key[0])}.{key[1]} cycle {t} (symbol {sym!r}, {len(vcd.vars)} vars)"))
    # two different nets must not share an identifier: detected above as wrong values, but also check directly
    # (signals with the same symbol must have had identical samples in all cycles)
    bysym = {}
    for key, (w, inst) in expected.items():
      if key in decl: bysym.setdefault(decl[key][1], []).append(inst)
    # clock
    clk = decl.get((("top",), "clk"))
    if clk is None: fails.append(("vcd:clock-missing", "top.clk", "absent", ""))
    else:
      ch = [x for x in vcd.changes.get(clk[1], []) if x[0] >= 0]
      want = []
      for t in range(len(seq)): want += [(100 * t, 1), (100 * t + 50, 0)]
      want.append((100 * len(seq), 1))
      if ch != want: fails.append(("vcd:clock-edges", want[:6], ch[:6], "one rising and one falling edge per cycle"))
    # text wave record
    tw = top.get_metadata(PrintTextWavePass.textwave_dict)
    for (path, sname, idx), t in insts.items():
      nm = ir.inst_name((path, sname, idx))
      if sname == "reset" and path != (): continue
      if nm not in tw:
        if sname != "reset": fails.append(("textwave:signal-missing", nm, "absent", ""))
        continue
      w = ir.width(t)
      want = ["0b" + format(smp[(path, sname, idx)], f"0{w}b") for smp in samples]
      if list(tw[nm]) != want:
        fails.append(("textwave:wrong-values", want[:4], list(tw[nm])[:4], nm))
    btw = bystander.get_metadata(PrintTextWavePass.textwave_dict)
    touched = sorted(k for k, v in btw.items() if len(v))
    if touched: fails.append(("textwave:recorded-into-another-design", "the never-simulated design has an empty record", f"{len(btw[touched[0]])} samples of {touched[0]}", ""))
    acc.count("signal_cycles", len(expected) * len(samples))
    acc.add("nvars", (name, len(vcd.vars)))
    shared = sum(1 for s, l in bysym.items() if len(l) > 1)
    if shared: acc.add("designs_with_shared_symbols", name)
  except MachineryError:
    raise
  except Exception as ex:
    fails.append(("run-raised", "simulation with waveforms works", f"{type(ex).__name__}: {str(ex)[:200]}", ""))
  finally:
    ir.unload(modname)
    for ext in (".vcd",):
      try: os.remove(fname + ext)
      except OSError: pass
  return fails


def sequences(tier, small=False):
  L = 3 if tier == "quick" else 5
  if small == "w64":
    return [list(x) for x in itertools.product(WIDE_LETTERS, repeat=3 if tier == "quick" else 4)]
  if small: L = 2 if tier == "quick" else 3
  letters = [(0, 0, 0), (9, 1, 0), (6, 3, 0), (9, 2, 1)]
  if tier != "quick" and not small: letters.append((15, 0, 0))
  return [list(s) for s in itertools.product(letters, repeat=L)]


def check_hand(acc):
  """an interface whose members are called clk / reset / mosi (ordinary data signals with those names): all of them are in the
  text-wave record and in the VCD, with the simulated values; every sequence of the 3-letter alphabet up to length 4"""
  import itertools as it
  from pymtl3 import Component, Interface, InPort, OutPort, Wire, Bits1, Bits4, update, update_ff, DefaultPassGroup
  from pymtl3.passes.tracing.PrintTextWavePass import PrintTextWavePass

  class SpiIfc(Interface):
    def construct(s):
      s.clk = OutPort(Bits1)
      s.mosi = OutPort(Bits4)
      s.reset = InPort(Bits1)

  class Spi(Component):
    def construct(s):
      s.in_ = InPort(Bits4)
      s.spi = SpiIfc()
      s.cnt = Wire(Bits4)

      @update_ff
      def ff_cnt():
        if s.spi.reset: s.cnt <<= 0
        else: s.cnt <<= s.cnt + 1

      @update
      def up_spi():
        s.spi.clk @= s.cnt[0]
        s.spi.mosi @= s.in_ ^ s.cnt

  for L in (1, 2, 3, 4):
    for seq in it.product(((3, 0), (9, 1), (15, 0)), repeat=L):
      fname = f"c16_hand_{os.getpid()}"
      top = Spi(); top.elaborate(); top.apply(DefaultPassGroup(vcdwave=fname, textwave=True))
      want = {"s.spi.clk": [], "s.spi.mosi": [], "s.spi.reset": [], "s.in_": []}
      cnt = 0
      for v, r in seq:
        top.in_ @= v; top.spi.reset @= r
        top.sim_eval_combinational()
        want["s.spi.clk"].append(format(cnt & 1, "01b")); want["s.spi.mosi"].append(format(v ^ cnt, "04b"))
        want["s.spi.reset"].append(format(r, "01b")); want["s.in_"].append(format(v, "04b"))
        top.sim_tick()
        cnt = 0 if r else (cnt + 1) & 15
      tw = top.get_metadata(PrintTextWavePass.textwave_dict)
      acc.count("executions"); acc.count("transitions", L); acc.count("signal_cycles", 4 * L)
      case = dict(hand="spi", seq=[list(x) for x in seq])
      for nm, vals in want.items():
        if nm not in tw: acc.violation(f"textwave:signal-missing:hand:{nm}", case, nm, "absent", "interface member named like the implicit clock / reset"); break
        got = [x[2:] if x.startswith("0b") else x for x in tw[nm]]
        if got != vals: acc.violation(f"textwave:wrong-values:hand:{nm}", case, vals, got, nm); break
      text = open(fname + ".vcd").read(); os.remove(fname + ".vcd")
      vcd = vcdparse.parse(text)
      decl = {(scope, nm): sym for scope, nm, w, sym in vcd.vars}
      for nm, vals in want.items():
        key = (("top",), nm[2:])              # interface members are declared as `spi.clk` in the scope of their component
        if key not in decl: acc.violation(f"vcd:signal-missing:hand:{nm}", case, "declared", "absent", str(key)); break
        got = [format(vcd.value_at(decl[key], 100 * t), f"0{len(vals[0])}b") for t in range(L)]
        if got != vals: acc.violation(f"vcd:wrong-value:hand:{nm}", case, vals, got, nm); break


def shards(tier):
  return list(range(len(design_list(tier)))) + ["hand"]


def run_shard(shard, tier, seed):
  acc = Acc()
  if shard == "hand":
    check_hand(acc)
    return acc
  name, d = design_list(tier)[shard]
  seqs = sequences(tier, small=("w64" if name == "c16:w64" else name.startswith("c16:wide")))
  for i, seq in enumerate(seqs):
    fails = run_sequence(name, d, seq, acc, f"{os.getpid()}_{i}", perm=i)
    acc.count("executions"); acc.count("transitions", len(seq))
    if len(set(seq)) < len(seq): acc.add("revisiting", (name, tuple(seq)))
    for f in fails:
      acc.violation(f[0], dict(design=name, ir=d, seq=[list(x) for x in seq], perm=i), f[1], f[2], f[3])
    if fails: break
  acc.sample(dict(design=name, sequence=[list(x) for x in seqs[len(seqs) // 2]], letters="(in_, other inputs, reset)"))
  return acc


def replay(case):
  if case.get("hand"):
    acc = Acc(); check_hand(acc)
    return [(v["sig"], v["expected"], v["observed"], v["msg"]) for v in acc.violations if v["case"]["seq"] == case["seq"]]
  d = ir.norm_comp(case["ir"])
  return run_sequence(case["design"], d, [tuple(x) for x in case["seq"]], Acc(), f"replay_{os.getpid()}", perm=case.get("perm", 0))


def finish(acc, tier):
  if not acc.size("designs_with_shared_symbols"): raise MachineryError("no design with signals sharing a VCD symbol: vacuous")
  if max(n for _, n in acc.sets["nvars"]) < 190: raise MachineryError("no design with more than 188 VCD variables")
  return dict(
    states=int(acc.n["signal_cycles"]), transitions=int(acc.n["transitions"]),
    traces_validated_against_impl=int(acc.n["executions"]),
    evaluations=int(acc.n["executions"]), distinct_nontrivial=acc.size("revisiting"),
    rule="one execution = one (design, input sequence) simulated with vcd+textwave on a fresh design and parsed back; states = (signal, cycle) points compared; "
         "non-trivial = distinct (design, sequence) pairs that revisit an earlier input letter (change suppression matters)",
    exhaustive=True, designs=len(acc.sets["nvars"]), max_vcd_vars=max(n for _, n in acc.sets["nvars"]),
    designs_with_shared_symbols=acc.size("designs_with_shared_symbols"),
    bounds=dict(seq_len=3 if tier == "quick" else 5, letters=4 if tier == "quick" else 5),
  )
