"""C08 -- connected signals form single-writer nets independent of connect order.

A fixed hierarchy (top, two children, one grand-child) and an alphabet of
legal single connections (signal-signal at each level, slices, struct fields,
constants). Every connection multiset up to the bound that is loop-free and
single-driver by the harness's own bit-level analysis is elaborated under
every permutation of the statements of each construct, side flips and
object-hash permutations; the nets/writers reported by pymtl3 must equal the
connected components / unique drivers computed from the IR, and in simulation
every signal must carry the value the reference semantics gives it.
"""
import itertools

from vt import ir, irgen, irref, seams
from vt.acc import Acc, MachineryError
from vt.ir import B, ref, c
from vt.irgen import Sab, Npc, comp

PROPERTY = "C08"
LEVEL = "exploration"
ASSUMPTIONS = [
  "expected nets = connected components of the connection graph over exact (signal, slice/field) names; expected writer = the member the "
  "harness's bit-level driver propagation (vt/irref.py _orient) finds driven by a block, a top-level input, a constant or an overlapping driven relative",
  "connection sets that the harness's own analysis finds multi-driven, undriven or looping are outside this property (they belong to C09) and are skipped (counted)",
  "per connection set: all statement orders x {no flip, all flipped, each single flip} with identity hashes, plus 3 object-hash permutations on the identity order",
  "simulation: DefaultPassGroup, all 16 values of in_ with derived values on the other inputs, all signals compared with the reference",
]


def hierarchy(top_conns, c1_conns):
  g = comp("G", [("i", "in", B(4), ()), ("o", "out", B(4), ())],
           blocks=[("up_g", "comb", [("=", ref("o"), ("bin", "^", ref("i"), c(4, 3)))])])
  c1 = comp("C1", [("i", "in", B(4), ()), ("o", "out", B(4), ()), ("o2", "out", B(4), ()), ("si", "in", Sab, ()), ("so", "out", Sab, ())],
            children=[("g", g)], connects=list(c1_conns),
            blocks=[("up_c1", "comb", [("=", ref("o"), ("bin", "+", ref("i"), c(4, 1)))]),
                    ("up_c1s", "comb", [("=", ref("so"), ("st", "Sab", ref("si", ("f", "b")), ref("si", ("f", "a"))))])])
  c2 = comp("C2", [("i", "in", B(4), ()), ("o", "out", B(4), ()), ("p", "in", B(2), ()), ("q", "out", B(2), ())],
            blocks=[("up_c2", "comb", [("=", ref("o"), ("un", "~", ref("i")))]),
                    ("up_c2q", "comb", [("=", ref("q"), ("bin", "+", ref("p"), c(2, 1)))])])
  sigs = [("in_", "in", B(4), ()), ("in2", "in", B(2), ()), ("sin", "in", Sab, ()), ("out", "out", B(4), ()), ("o2", "out", B(2), ()),
          ("sout", "out", Sab, ()), ("w", "wire", B(4), ()), ("v", "wire", B(4), ()), ("sw", "wire", Sab, ()),
          ("u", "wire", B(8), ()), ("sx", "wire", S8, ()), ("p6", "out", B(6), ()), ("nx", "wire", Npc, ())]
  # block-driven slices of u and a block-driven struct sx: connections to overlapping / containing / contained slices
  # must find their writer through the "bit-overlapping driven relative" rule
  blocks = [("up_u", "comb", [("=", ref("u", ("s", 2, 6)), ref("in_"))]),
            ("up_uf", "comb", [("=", ref("u", ("s", 0, 2)), ref("in2")), ("=", ref("u", ("s", 6, 8)), ("un", "~", ref("in2")))]),
            ("up_sx", "comb", [("=", ref("sx"), ("st", "S8", ref("in_"), ("call", "concat", ref("in_"), ("un", "~", ref("in_")))))])]
  return comp("Top", sigs, children=[("c1", c1), ("c2", c2)], connects=list(top_conns), blocks=blocks)


S8 = ir.S("S8", ("a", B(4)), ("b", B(8)))


def P(*path): return path


def alphabet():
  r = ref
  c1, c2 = ("c1",), ("c2",)
  T = [
    (r("i", path=c1), r("in_")), (r("i", path=c2), r("in_")), (r("w"), r("in_")), (r("i", path=c2), r("o", path=c1)),
    (r("w"), r("o", path=c1)), (r("out"), r("o", path=c2)), (r("out"), r("w")), (r("out"), r("o", path=c1)),
    (r("v"), r("w")), (r("out"), r("v")), (r("i", path=c1), r("w")), (r("i", path=c2), r("v")), (r("out"), r("o2", path=c1)),
    # slices
    (r("w", ("s", 0, 2)), r("in2")), (r("w", ("s", 2, 4)), r("in2")), (r("p", path=c2), r("w", ("s", 0, 2))), (r("o2"), r("q", path=c2)),
    (r("o2"), r("w", ("s", 2, 4))), (r("p", path=c2), r("in_", ("s", 1, 3))), (r("v", ("s", 0, 2)), r("o", ("s", 2, 4), path=c1)),
    (r("v", ("s", 2, 4)), r("o", ("s", 0, 2), path=c1)), (r("o2"), r("v", ("s", 1, 3))), (r("w", ("s", 1, 3)), r("q", path=c2)),
    # struct fields
    (r("si", path=c1), r("sin")), (r("sw"), r("sin")), (r("si", path=c1), r("sw")), (r("sout"), r("so", path=c1)),
    (r("sw", ("f", "a")), r("in2")), (r("sw", ("f", "b")), r("q", path=c2)), (r("o2"), r("sw", ("f", "a"))),
    (r("p", path=c2), r("so", ("f", "b"), path=c1)), (r("sout", ("f", "a")), r("in2")), (r("sout", ("f", "b")), r("q", path=c2)),
    (r("sout"), r("sw")),
    # slices of block-driven signals: containing, contained, partially overlapping, slice of slice, slice of a struct field
    (r("p6"), r("u", ("s", 1, 7))), (r("out"), r("u", ("s", 2, 6))), (r("out"), r("u", ("s", 0, 4))), (r("o2"), r("u", ("s", 3, 5))),
    (r("o2"), r("u", ("s", 1, 7), ("s", 2, 4))), (r("o2"), r("sx", ("f", "b"), ("s", 2, 6), ("s", 1, 3))), (r("out"), r("sx", ("f", "b"), ("s", 4, 8))),
    (r("out"), r("sx", ("f", "a"))), (r("v"), r("u", ("s", 4, 8))),
    # nested struct: an intermediate struct field is the driven member, its own fields are read
    (r("nx", ("f", "p")), r("sin")), (r("o2"), r("nx", ("f", "p"), ("f", "b"))), (r("nx", ("f", "c")), r("in2")), (r("sout"), r("nx", ("f", "p"))),
    # constants
    (r("i", path=c1), c(4, 5)), (r("w"), c(4, 9)), (r("p", path=c2), c(2, 2)), (r("w", ("s", 0, 2)), c(2, 1)), (r("sw", ("f", "a")), c(2, 3)),
  ]
  C1 = [(r("i", path=("g",)), r("i")), (r("o2"), r("o", path=("g",))), (r("i", path=("g",)), c(4, 7)), (r("o2"), r("i"))]
  return [("top", x) for x in T] + [("c1", x) for x in C1]


def conn_sets(tier):
  A = alphabet()
  K = 3 if tier == "quick" else 4
  for k in range(1, K + 1):
    for combo in itertools.combinations(range(len(A)), k):
      if tier == "quick" and k == 3 and combo[0] % 3: continue     # quick: every third triple family
      if k == 4 and (combo[0] + combo[1]) % 4: continue
      yield [A[i] for i in combo]


def expected_nets(d):
  """{frozenset(member names)} -> writer name | ('const', value)  from the IR alone."""
  rs = irref.RefSim(d, check_unique=False)      # raises MachineryError for multi-driver / no-driver sets
  parent = {}
  def find(x):
    while parent.setdefault(x, x) != x:
      parent[x] = parent[parent[x]]; x = parent[x]
    return x
  const_of = {}
  dsts = set()
  names = set()
  for path, dst, src in rs.conns:
    dn = _abs(path, dst); dsts.add(dn); names.add(dn)
    if src[0] == "ref":
      sn = _abs(path, src); names.add(sn)
      parent[find(dn)] = find(sn)
    else:
      const_of[dn] = src
  # port-direction roles: inside host H its own InPort is a source and its own OutPort a sink; a child's InPort is a
  # sink and a child's OutPort a source; wires are either. An orientation that contradicts a role is not a legal design.
  def role(path, r):
    if r[0] != "ref": return "src"
    cmp = ir.comp_at(d, tuple(path) + tuple(r[1]))
    kind = ir.sig_decl(cmp, r[2])[1]
    own = len(r[1]) == 0
    if kind == "wire": return "any"
    if kind == "in": return "src" if own else "sink"
    return "sink" if own else "src"
  for path, dst, src in rs.conns:
    if role(path, dst) == "src" or role(path, src) == "sink":
      raise MachineryError("port direction")
  groups = {}
  for n in names: groups.setdefault(find(n), set()).add(n)
  out = {}
  for members in groups.values():
    cs = [const_of[m] for m in members if m in const_of]
    ws = [m for m in members if m not in dsts]
    if cs and ws or len(cs) > 1 or (not cs and len(ws) != 1):
      raise MachineryError(f"net analysis: members={sorted(members)} consts={cs} writers={ws}")
    out[frozenset(members)] = ("const", cs[0][1], cs[0][2]) if cs else ws[0]
  # loops inside a component of the connection graph (more edges than a tree) are not legal
  nedges = len(rs.conns)
  if nedges != sum(len(m) - 1 for m in groups.values()) + sum(1 for m in groups.values() if any(x in const_of for x in m)):
    raise MachineryError("connection loop")
  # the connections must not close a combinational dataflow cycle through the children's blocks
  try:
    for v in (0, 7, 15):
      rs.set_inputs(dict(in_=v, in2=v % 4, sin=v ^ 5)); rs.settle_state(rs.state)
      alt = rs.settle_state(dict(rs.state), reverse=True)
      if alt != rs.state: raise irref.NotConverged()
  except irref.NotConverged:
    raise MachineryError("dataflow cycle")
  desc = ["s" + "".join("." + p for p in path) for path, _ in ir.walk_comps(d) if path]
  for sig in ("clk", "reset"):
    out[frozenset([f"s.{sig}"] + [f"{h}.{sig}" for h in desc])] = f"s.{sig}"
  return out


def _abs(cpath, r):
  # pymtl3 names a slice of a slice by its absolute bounds on the sliced signal
  acc = []
  for a in r[3]:
    if a[0] == "s" and acc and acc[-1][0] == "s":
      lo = acc[-1][1]
      acc[-1] = ("s", lo + a[1], lo + a[2])
    else: acc.append(a)
  return ir.e_ref(("ref", tuple(cpath) + tuple(r[1]), r[2], tuple(acc)))


def observed_nets(top):
  from pymtl3.dsl.Connectable import Const
  out = {}
  for writer, sigs in top.get_all_value_nets():
    members = frozenset(repr(x) for x in sigs if not isinstance(x, Const))
    if isinstance(writer, Const):
      w = ("const", writer._dsl.Type.nbits, int(writer._dsl.const))
    else:
      w = repr(writer) if writer is not None else None
    out[members] = w
  return out


def variants(cs, tier):
  """(order, flips, hashperm) triples"""
  n = len(cs)
  idx = list(range(n))
  orders = list(itertools.permutations(idx))
  flipsets = [()] + [tuple(idx)] + [(i,) for i in idx if n > 1]
  for o in orders:
    for f in flipsets:
      yield o, f, 0
  for hp in (1, 2, 3):
    yield tuple(idx), (), hp
    if tier == "thorough":
      yield tuple(reversed(idx)), tuple(idx), hp


def make(cs, order, flips):
  top_c, c1_c = [], []
  for i in order:
    where, (a, b) = cs[i]
    pair = (b, a) if i in flips else (a, b)
    (top_c if where == "top" else c1_c).append(pair)
  return hierarchy(top_c, c1_c)


def emit_conn_flip_ok(pair):
  return True


def check_set(cs, tier, acc):
  base = make(cs, range(len(cs)), ())
  try:
    exp = expected_nets(base)
  except MachineryError:
    acc.count("skipped_illegal_sets")
    return
  case0 = dict(conns=[[w, list(map(_j, p))] for w, p in cs])
  sig_base = _shape(cs)
  first = None
  for order, flips, hp in variants(cs, tier):
    d = make(cs, order, flips)
    mult = (1, 7919, 104729, 31)[hp]
    try:
      with seams.hash_seam((lambda o, i: (i * mult + hp) % 1000003) if hp else None):
        cls, src, mod = ir.load(d)
        try:
          top = cls()
          top.elaborate()
          obs = observed_nets(top)
        finally:
          ir.unload(mod)
    except Exception as ex:
      acc.violation(f"elaborate-raised:{type(ex).__name__}:{sig_base}", dict(case0, order=list(order), flips=list(flips), hp=hp),
                    "legal connection set elaborates", f"{type(ex).__name__}: {str(ex)[:200]}")
      acc.count("evaluations")
      continue
    acc.count("evaluations")
    if obs != exp:
      only_e = {k: v for k, v in exp.items() if obs.get(k) != v}
      only_o = {k: v for k, v in obs.items() if exp.get(k) != v}
      kind = "writer" if set(only_e) == set(only_o) else "members"
      acc.violation(f"nets-differ:{kind}:{sig_base}", dict(case0, order=list(order), flips=list(flips), hp=hp),
                    sorted((sorted(k), v) for k, v in only_e.items())[:3], sorted((sorted(k), v) for k, v in only_o.items())[:3],
                    "expected = connected components / unique drivers from the IR")
    if first is None: first = obs
    elif obs != first:
      acc.violation(f"nets-depend-on-order:{sig_base}", dict(case0, order=list(order), flips=list(flips), hp=hp), "same nets for all orders", "differs")
  # simulation: members carry the writer's value (all signals equal the reference)
  from vt.dut import Dut
  from vt.checks import c01
  try:
    dut = Dut(base, "dynamic")
  except Exception as ex:
    acc.violation(f"simulate-build-raised:{sig_base}", dict(case0, order=list(range(len(cs))), flips=[], hp=0), "simulatable", repr(ex)[:200])
    return
  try:
    seqs = [[dict(in_=v, in2=v % 4, sin=(v ^ 5) & 15, reset=0)] for v in range(16)]
    c01.lockstep(dut, irref.RefSim(base), seqs, f"sim:{sig_base}", acc, dict(case0, mode="sim"))
  finally:
    dut.close()
  acc.count("sets")
  if len(exp) - 2 >= 2 or any(isinstance(v, tuple) for v in exp.values()) or any("[" in m or m.count(".") > 1 for k in exp for m in k):
    acc.count("nontrivial_sets")


def _j(x):
  return ir.tup(x) if False else x


def _shape(cs):
  kinds = set()
  for where, (a, b) in cs:
    for r in (a, b):
      if r[0] != "ref": kinds.add("const")
      elif any(x[0] == "s" for x in r[3]): kinds.add("slice")
      elif any(x[0] == "f" for x in r[3]): kinds.add("field")
  return "+".join(sorted(kinds)) or "plain"


# ------------------------------------------------------------------ hand-written connect statements the IR cannot express

def hand_cases():
  """(name, construct body, expectation): expectation = ("nets", {member name: writer name}, function in_ -> {signal: value})
  | ("error",)  -- written Python slice forms: omitted bounds mean 0 / nbits (as for Bits values), a step is not a slice of adjacent bits"""
  base = ["s.in_ = InPort( Bits8 )", "s.o4 = OutPort( Bits4 )", "s.p4 = OutPort( Bits4 )"]
  return [
    ("open-slices", base + ["s.o4 //= s.in_[:4]", "s.p4 //= s.in_[4:]"], ("sim", lambda v: {"o4": v & 15, "p4": v >> 4})),
    ("open-slices-flipped", base + ["connect( s.in_[4:], s.p4 )", "connect( s.in_[:4], s.o4 )"], ("sim", lambda v: {"o4": v & 15, "p4": v >> 4})),
    ("closed-slices(control)", base + ["s.o4 //= s.in_[0:4]", "s.p4 //= s.in_[4:8]"], ("sim", lambda v: {"o4": v & 15, "p4": v >> 4})),
    ("open-slice-of-slice", base + ["s.o4 //= s.in_[2:8][:4]", "s.p4 //= s.in_[0:6][2:]"], ("sim", lambda v: {"o4": (v >> 2) & 15, "p4": (v >> 2) & 15})),
    ("stepped-slice", base + ["s.o4 //= s.in_[0:4:2]", "s.p4 //= s.in_[4:8]"], ("error",)),
    # one constant OBJECT used for two connections and changed in between: each net keeps the value it was connected to
    ("constant-object-reused", base + ["k = Bits4( 3 )", "s.o4 //= k", "k @= 9", "s.p4 //= k"], ("sim", lambda v: {"o4": 3, "p4": 9})),
    ("constant-object-changed-later", base + ["k = Bits4( 5 )", "s.o4 //= k", "s.p4 //= s.in_[0:4]", "k @= 12"], ("sim", lambda v: {"o4": 5, "p4": v & 15})),
  ]


def check_hand(acc):
  from pymtl3 import DefaultPassGroup
  for name, body, exp in hand_cases():
    src = "from pymtl3 import *\nclass HandC( Component ):\n  def construct( s ):\n" + "".join("    " + l + "\n" for l in body)
    for hp in (0, 1, 2):
      mult = (1, 7919, 104729)[hp]
      acc.count("evaluations"); acc.count("hand_cases")
      case = dict(kind="hand", name=name, hp=hp)
      with seams.hash_seam(lambda o, i: (i * mult + hp) % 1000003):
        mod = ir.load_src(src)
        try:
          top = mod.HandC()
          top.elaborate()
          err = None
        except Exception as ex:
          err = ex
        finally:
          ir.unload(mod.__name__)
      if exp[0] == "error":
        if err is None: acc.violation(f"hand:accepted:{name}", case, "rejected (a stepped slice is not a slice of adjacent bits)", "elaborated", name)
        elif not type(err).__name__.endswith("Error") or isinstance(err, (TypeError, KeyError, AttributeError, AssertionError)):
          acc.violation(f"hand:crashed:{name}", case, "a connection error", f"{type(err).__name__}: {str(err)[:100]}", name)
        continue
      if err is not None:
        acc.violation(f"hand:raised:{name}", case, "elaborates", f"{type(err).__name__}: {str(err)[:100]}", name); continue
      top.apply(DefaultPassGroup())
      for v in (0, 0x5A, 0xC3, 0xFF, 0x0F):
        top.in_ @= v
        top.sim_tick()
        want = exp[1](v)
        got = {k: int(getattr(top, k)) for k in want}
        if got != want:
          acc.violation(f"hand:wrong-value:{name}", dict(case, v=v), want, got, name); break


def shards(tier):
  k = 64
  return [(i, k) for i in range(k)] + [("hand",)]


def run_shard(shard, tier, seed):
  acc = Acc()
  if shard[0] == "hand":
    check_hand(acc)
    return acc
  for j, cs in enumerate(conn_sets(tier)):
    if j % shard[1] != shard[0]: continue
    check_set(cs, tier, acc)
    if j % 2000 == 0: acc.sample(dict(connections=[[w, ir.e_ref(a), ir.e_ref(b) if b[0] == "ref" else f"Bits{b[1]}({b[2]})"] for w, (a, b) in cs]))
  return acc


def replay(case):
  acc = Acc()
  if case.get("kind") == "hand":
    check_hand(acc)
    return [(v["sig"], v["expected"], v["observed"], v["msg"]) for v in acc.violations if v["case"]["name"] == case["name"]][:5]
  cs = [(w, (ir.tup(p[0]), ir.tup(p[1]))) for w, p in case["conns"]]
  check_set(cs, "quick", acc)
  return [(v["sig"], v["expected"], v["observed"], v["msg"]) for v in acc.violations][:5]


def finish(acc, tier):
  if acc.n["sets"] < 200: raise MachineryError(f"only {acc.n['sets']} legal connection sets")
  return dict(
    evaluations=int(acc.n["evaluations"]), distinct_nontrivial=int(acc.n["nontrivial_sets"]),
    rule="one evaluation = one elaboration of a (connection set, statement order, side flips, hash permutation); non-trivial = distinct legal sets with >= 2 user nets, "
         "a constant, a slice/field member or a member below the top level",
    exhaustive=True, legal_sets=int(acc.n["sets"]), skipped_illegal_sets=int(acc.n["skipped_illegal_sets"]),
    bounds=dict(alphabet=len(alphabet()), max_set_size=3 if tier == "quick" else 4),
  )
