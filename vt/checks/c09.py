"""C09 -- structurally illegal designs are always rejected at elaboration.

Bounded exhaustive enumeration of small designs, each carrying at most one
structural defect (and the defect-free sibling of every case): two drivers on
a bit (block/block, block/net, net/net, through fields, nested fields,
overlapping slices, list elements, across the hierarchy), undriven nets,
connection loops, port-direction violations in blocks (Type 1-4) and in nets
(Type 5-9, loop-back), wrong assignment operators. The expected outcome
(exception class or clean elaboration) is computed by an independent bit-level
analysis of the IR; every design is elaborated under both statement orders and
several object-hash permutations.
"""
import itertools

from vt import ir, irgen, seams
from vt.acc import Acc, MachineryError
from vt.ir import B, ref, c
from vt.irgen import Sab, Npc, SLal, comp, shape_width, mk_value, fit

PROPERTY = "C09"
LEVEL = "exploration"
ASSUMPTIONS = [
  "oracle: per-bit driver sets (one driver per update block / lambda, per top-level input, per constant, per net) and a port-direction table transcribed from the "
  "rule comments [Type 1..9] and the IEEE port rules they cite; one update block is one driver however many overlapping targets it assigns",
  "each illegal design carries exactly one defect; the exception must be of the class that corresponds to it "
  "(MultiWriterError, NoWriterError, InvalidConnectionError, SignalTypeError, UpdateBlockWriteError, UpdateFFBlockWriteError, UpdateFFNonTopLevelSignalError)",
  "every case is elaborated in both block/statement orders and under 3 object-hash permutations",
]

OK = None
MW, NW, LOOP, PORT = "MultiWriterError", "NoWriterError", "InvalidConnectionError", "SignalTypeError"


# ------------------------------------------------------------------ independent analysis of an IR design

def _norm(acc):
  out = []
  for a in acc:
    if a[0] == "b": a = ("s", a[1], a[1] + 1)
    if a[0] == "s" and out and out[-1][0] == "s":
      lo = out[-1][1]; out[-1] = ("s", lo + a[1], lo + a[2])
    else: out.append(a)
  return tuple(out)


def node(cpath, r):
  return (tuple(cpath) + tuple(r[1]), r[2], _norm(r[3]))


def analyze(d):
  """-> expected exception class name or None."""
  # A. assignment operators (raised while the blocks are elaborated)
  for path, cmp in ir.walk_comps(d):
    for blk in cmp.get("blocks", []):
      for st in _stmts(blk[2]):
        if st[0] != "=": continue
        op = st[3] if len(st) > 3 else ("<<=" if blk[1] == "ff" else "@=")
        if blk[1] == "ff":
          if op != "<<=": return "UpdateFFBlockWriteError"
          if any(a[0] in ("f", "s", "b", "vb") for a in st[1][3]): return "UpdateFFNonTopLevelSignalError"
        elif op != "@=": return "UpdateBlockWriteError"
  # external drivers per bit
  drivers = {}
  def add(bits, who):
    for b in bits: drivers.setdefault(b, set()).add(who)
  for path, cmp in ir.walk_comps(d):
    for blk in cmp.get("blocks", []):
      R, W = ir.block_bits(d, path, blk)
      add(W, ("blk", path, blk[0]))
    for i, (a, b) in enumerate(cmp.get("connects", [])):
      if b[0] == "lam": add(ir.ref_bits(d, path, a), ("lam", path, i))
  for name, kind, t, dims in d["sigs"]:
    if kind == "in": add(ir.ref_bits(d, (), ref(name)), ("topin", name))
  add({(((), "reset", ()), 0)}, ("topin", "reset"))
  # B. nets: union-find over exact (normalised) references; loops
  parent, bits, edges = {}, {}, []
  def find(x):
    while parent.setdefault(x, x) != x:
      parent[x] = parent[parent[x]]; x = parent[x]
    return x
  nconst = 0
  for path, cmp in ir.walk_comps(d):
    for a, b in cmp.get("connects", []):
      if b[0] == "lam": continue
      if a[0] != "ref": a, b = b, a
      na = node(path, a); bits[na] = ir.ref_bits(d, path, a)
      if b[0] == "ref":
        nb = node(path, b); bits[nb] = ir.ref_bits(d, path, b)
        if na == nb: continue
        if any({x, y} == {na, nb} for x, y, _ in edges): continue     # connecting the same pair twice is idempotent
        if find(na) == find(nb): return LOOP
        parent[find(na)] = find(nb)
        edges.append((na, nb, path))
      else:
        nconst += 1
        cn = ("const", nconst)
        bits[cn] = set()
        parent[find(na)] = find(cn)
        bits[cn] = set(bits[na])   # the constant is the source of its net; its bits reach the member through the net
  nets = {}
  for n in bits: nets.setdefault(find(n), []).append(n)
  nets = [m for m in nets.values() if len(m) > 1]
  # C. resolve sources by propagation (tolerant to conflicts)
  resolved = {}
  pending = list(range(len(nets)))
  progress = True
  while pending and progress:
    progress = False
    rest = []
    for i in pending:
      members = nets[i]
      srcs = []
      for m in members:
        if m[0] == "const": srcs.append(m); continue
        who = set()
        for b in bits[m]: who |= {w for w in drivers.get(b, ()) if w != ("net", i)}
        # a constant connected to m is accounted for by the const node itself
        who = {w for w in who if not (isinstance(w, tuple) and w[0] == "const")}
        if who: srcs.append(m)
      if len(srcs) >= 2: return MW
      if len(srcs) == 1:
        resolved[i] = srcs[0]
        for m in members:
          if m != srcs[0] and m[0] != "const": add(bits[m], ("net", i))
        progress = True
      else: rest.append(i)
    pending = rest
  # two different drivers on one bit
  for b, who in drivers.items():
    # a block writing a top-level input port is a port-rule violation (Type 2), reported below
    if any(w[0] == "topin" for w in who) and all(w[0] in ("topin", "blk", "lam") for w in who) and len([w for w in who if w[0] != "topin"]) == 1:
      continue
    if len(who) > 1: return MW
  # D. port rules for accesses in update blocks
  for path, cmp in ir.walk_comps(d):
    for blk in cmp.get("blocks", []):
      reads, writes = [], []
      ir.stmt_access(blk[2], reads, writes)
      for r in reads:
        if r[2] in ("reset", "clk"): continue
        k = ir.sig_decl(ir.comp_at(d, tuple(path) + tuple(r[1])), r[2])[1]
        if k == "wire" and len(r[1]) > 0: return PORT                      # Type 1
      for w in writes:
        k = ir.sig_decl(ir.comp_at(d, tuple(path) + tuple(w[1])), w[2])[1]
        depth = len(w[1])
        if k == "in" and depth != 1: return PORT                           # Type 2
        if k == "out" and depth != 0: return PORT                          # Type 3
        if k == "wire" and depth != 0: return PORT                         # Type 4
    for a, b in cmp.get("connects", []):
      if b[0] == "lam":
        k = ir.sig_decl(ir.comp_at(d, tuple(path) + tuple(a[1])), a[2])[1]
        depth = len(a[1])
        if (k == "in" and depth != 1) or (k in ("out", "wire") and depth != 0): return PORT
  if pending: return NW
  # E. port rules along every net, walking from the writer over the connection edges
  adj = {}
  for na, nb, path in edges:
    adj.setdefault(na, []).append((nb, path)); adj.setdefault(nb, []).append((na, path))
  def kind_host(n):
    if n[0] == "const": return "const", None
    return ir.sig_decl(ir.comp_at(d, n[0]), n[1])[1], n[0]
  for i, members in enumerate(nets):
    src = resolved[i]
    start = src
    if src[0] == "const":
      # the constant's neighbour is reached first; a constant may drive anything it is legally connected to
      start = [m for m in members if m[0] != "const" and bits[m] == bits[src]][0] if any(m[0] != "const" for m in members) else None
      if start is None: continue
      ks, hs = kind_host(start)
    seen = {start}
    stack = [start]
    while stack:
      u = stack.pop()
      ku, hu = kind_host(u)
      for v, where in adj.get(u, ()):
        if v in seen: continue
        seen.add(v); stack.append(v)
        kv, hv = kind_host(v)
        if hu == hv:
          if kv in ("out", "wire"): continue
          if ku == "out" and kv == "in" and tuple(where) == tuple(hu[:-1]) and len(hu) > 0: continue   # loop-back made in the parent
          return PORT if not (ku == "out" and kv == "in") else LOOP
        if hv == hu[:-1] and len(hu) > 0:                   # reader's host is the writer host's parent
          if ku == "out" and kv in ("out", "wire"): continue
          return PORT
        if hu == hv[:-1] and len(hv) > 0:                   # writer's host is the reader host's parent
          if kv == "in": continue
          return PORT
        if len(hu) > 0 and len(hv) > 0 and hu[:-1] == hv[:-1]:
          if ku == "out" and kv == "in": continue
          return PORT
        return PORT
  return OK


def _stmts(stmts):
  for st in stmts:
    yield st
    if st[0] == "if": yield from _stmts(st[2]); yield from _stmts(st[3])
    elif st[0] == "for": yield from _stmts(st[4])


# ------------------------------------------------------------------ case generators

CARR = [
  ("T4", B(4), (), [(), (("s", 0, 2),), (("s", 2, 4),), (("s", 1, 3),), (("b", 0),), (("b", 3),), (("s", 0, 4),), (("s", 1, 2),)]),
  ("Sab", Sab, (), [(), (("f", "a"),), (("f", "b"),), (("f", "a"), ("s", 0, 1))]),
  ("Npc", Npc, (), [(), (("f", "p"),), (("f", "p"), ("f", "a")), (("f", "c"),)]),
  ("L2", B(2), (2,), [(("i", 0),), (("i", 1),), (irgen.VI,)]),
  ("SLal", SLal, (), [(), (("f", "l"), ("i", 0)), (("f", "l"), ("i", 1)), (("f", "a"),)]),
]


def _wr(name, kind, target, t, dims, op=None):
  w, wt = shape_width(t, dims, target[3])
  val = mk_value(wt, ref("in_"), 4)
  st = ("=", target, val) if op is None else ("=", target, val, op)
  return (name, kind, [st])


def gen_block_block():
  """two writes to the same carrier: same block / two comb blocks / comb+ff / comb+lambda"""
  for label, t, dims, shapes in CARR:
    for s1, s2 in itertools.product(shapes, repeat=2):
      base = [("in_", "in", B(4), ()), ("sel", "in", B(2), ()), ("X", "wire", t, dims)]
      X1, X2 = ref("X", *s1), ref("X", *s2)
      w1 = _wr("blkA", "comb", X1, t, dims)
      w2 = _wr("blkB", "comb", X2, t, dims)
      yield f"bb:{label}:{s1}|{s2}:two-blocks", comp("BB", base, blocks=[w1, w2])
      # the same two assignments inside ONE block are one driver
      yield f"bb:{label}:{s1}|{s2}:same-block", comp("BS", base, blocks=[("blkA", "comb", w1[2] + w2[2])])
      plain2 = not any(a[0] in ("f", "s", "b", "vb") for a in s2)
      if plain2:
        yield f"bb:{label}:{s1}|{s2}:comb+ff", comp("BF", base, blocks=[w1, _wr("blkB", "ff", X2, t, dims)])
      if not any(a[0] in ("v", "vb") for a in s2):
        w2t = shape_width(t, dims, s2)[1]
        yield f"bb:{label}:{s1}|{s2}:comb+lambda", comp("BL", base, blocks=[w1], connects=[(X2, ("lam", mk_value(w2t, ref("in_"), 4)))])


def gen_block_net():
  """a block write and a connection into the same carrier (from a top input, a constant, a driven wire)"""
  for label, t, dims, shapes in CARR:
    for s1, s2 in itertools.product(shapes, repeat=2):
      if any(a[0] in ("v", "vb") for a in s2): continue
      w2, t2 = shape_width(t, dims, s2)
      base = [("in_", "in", B(4), ()), ("sel", "in", B(2), ()), ("X", "wire", t, dims), ("src", "in", t2, ()), ("dw", "wire", t2, ())]
      X1, X2 = ref("X", *s1), ref("X", *s2)
      blk = _wr("blkA", "comb", X1, t, dims)
      yield f"bn:{label}:{s1}|{s2}:from-input", comp("BN", base, blocks=[blk], connects=[(X2, ref("src"))])
      if t2[0] == "B":
        yield f"bn:{label}:{s1}|{s2}:from-const", comp("BC", base, blocks=[blk], connects=[(X2, c(w2, 1))])
      drv = ("blkD", "comb", [("=", ref("dw"), mk_value(t2, ("un", "~", ref("in_")), 4))])
      yield f"bn:{label}:{s1}|{s2}:from-driven-wire", comp("BW", base, blocks=[blk, drv], connects=[(ref("dw"), X2)])


def gen_net_net():
  for label, t, dims, shapes in CARR:
    for s1, s2 in itertools.product(shapes, repeat=2):
      if any(a[0] in ("v", "vb") for a in s1 + s2): continue
      w1, t1 = shape_width(t, dims, s1)
      w2, t2 = shape_width(t, dims, s2)
      base = [("in_", "in", B(4), ()), ("X", "wire", t, dims), ("a", "in", t1, ()), ("b", "in", t2, ())]
      yield f"nn:{label}:{s1}|{s2}", comp("NN", base, connects=[(ref("X", *s1), ref("a")), (ref("b"), ref("X", *s2))])


def gen_hier():
  """the carrier is a port of a child; writers sit in the child, the parent, the grand-parent"""
  for label, t, dims, shapes in CARR:
    if dims: continue
    for s1, s2 in itertools.product(shapes[:4], repeat=2):
      if any(a[0] in ("v", "vb") for a in s1 + s2): continue
      w2, t2 = shape_width(t, dims, s2)
      for pk in ("out", "in"):
        ch = comp("Ch", [("in_", "in", B(4), ()), ("X", pk, t, ())], blocks=[_wr("blkC", "comb", ref("X", *s1), t, dims)])
        top = comp("HP", [("in_", "in", B(4), ())], children=[("c", ch)], connects=[(ref("in_", path=("c",)), ref("in_"))],
                   blocks=[_wr("blkP", "comb", ref("X", *s2, path=("c",)), t, dims)])
        yield f"hier:{label}:{pk}:{s1}|{s2}:child+parent-block", top
      # child drives its out port; parent connects it to a wire AND writes the wire
      ch = comp("Ch", [("in_", "in", B(4), ()), ("X", "out", t, ())], blocks=[_wr("blkC", "comb", ref("X"), t, dims)])
      top = comp("HN", [("in_", "in", B(4), ()), ("Y", "wire", t, ())], children=[("c", ch)],
                 connects=[(ref("in_", path=("c",)), ref("in_")), (ref("Y", *s1), ref("X", *s1, path=("c",)))],
                 blocks=[_wr("blkP", "comb", ref("Y", *s2), t, dims)])
      yield f"hier:{label}:{s1}|{s2}:child-net+parent-block", top
  # grand-parent reaching two levels down
  leaf = comp("Lf", [("i", "in", B(4), ()), ("o", "out", B(4), ()), ("w", "wire", B(4), ())],
              blocks=[("up_l", "comb", [("=", ref("o"), ref("i"))]), ("up_w", "comb", [("=", ref("w"), ref("i"))])])
  mid = lambda extra_b=(), extra_c=(): comp("Md", [("i", "in", B(4), ()), ("o", "out", B(4), ())], children=[("l", leaf)],
                   connects=[(ref("i", path=("l",)), ref("i")), (ref("o"), ref("o", path=("l",)))] + list(extra_c), blocks=list(extra_b))
  tsig = [("in_", "in", B(4), ()), ("out", "out", B(4), ()), ("t", "wire", B(4), ())]
  tcon = [(ref("i", path=("m",)), ref("in_")), (ref("out"), ref("o", path=("m",)))]
  yield "hier2:ok", comp("H2", tsig, children=[("m", mid())], connects=tcon)
  yield "hier2:type1-read-grandchild-wire", comp("H2", tsig, children=[("m", mid())], connects=tcon,
        blocks=[("up_t", "comb", [("=", ref("t"), ref("w", path=("m", "l")))])])
  yield "hier2:type1-read-child-wire", comp("H2", tsig, children=[("m", mid(extra_b=[("up_x", "comb", [("=", ref("o", path=()), ref("w", path=("l",)))])], extra_c=[]))], connects=tcon[:1])
  yield "hier2:read-grandchild-outport-ok", comp("H2", tsig, children=[("m", mid())], connects=tcon,
        blocks=[("up_t", "comb", [("=", ref("t"), ref("o", path=("m", "l")))])])
  yield "hier2:type2-write-grandchild-inport", comp("H2", tsig, children=[("m", mid())], connects=tcon[1:] + [(ref("i", path=("m",)), ref("in_"))],
        blocks=[("up_t", "comb", [("=", ref("i", path=("m", "l")), ref("in_"))])])
  yield "hier2:type2-write-own-inport", comp("H2w", tsig + [("in2", "in", B(4), ())], children=[("m", mid())], connects=tcon,
        blocks=[("up_t", "comb", [("=", ref("in2"), ref("in_"))])])
  yield "hier2:type3-write-child-outport", comp("H2", tsig, children=[("m", mid())], connects=tcon[:1],
        blocks=[("up_t", "comb", [("=", ref("o", path=("m",)), ref("in_"))])])
  yield "hier2:type4-write-child-wire", comp("H2", tsig, children=[("m", mid())], connects=tcon,
        blocks=[("up_t", "comb", [("=", ref("w", path=("m", "l")), ref("in_"))])])
  yield "hier2:write-child-inport-ok", comp("H2", tsig, children=[("m", mid())], connects=tcon[1:],
        blocks=[("up_t", "comb", [("=", ref("i", path=("m",)), ref("in_"))])])


def gen_nets_structure():
  sig = [("in_", "in", B(4), ()), ("out", "out", B(4), ())] + [(n, "wire", B(4), ()) for n in "abcd"]
  drv = ("up_a", "comb", [("=", ref("a"), ref("in_"))])
  o = (ref("out"), ref("d"))
  yield "net:chain-ok", comp("NS", sig, blocks=[drv], connects=[(ref("b"), ref("a")), (ref("c"), ref("b")), (ref("d"), ref("c")), o])
  yield "net:no-driver", comp("NS", sig, connects=[(ref("b"), ref("a")), (ref("c"), ref("b")), (ref("d"), ref("c")), o])
  yield "net:no-driver-pair", comp("NS", sig, blocks=[drv], connects=[(ref("c"), ref("d"))])
  yield "net:loop3", comp("NS", sig, blocks=[drv], connects=[(ref("b"), ref("a")), (ref("c"), ref("b")), (ref("a"), ref("c"))])
  yield "net:loop4", comp("NS", sig, blocks=[drv], connects=[(ref("b"), ref("a")), (ref("c"), ref("b")), (ref("d"), ref("c")), (ref("a"), ref("d"))])
  yield "net:duplicate-connection-ok", comp("NS", sig, blocks=[drv], connects=[(ref("b"), ref("a")), (ref("a"), ref("b")), (ref("out"), ref("b"))])
  yield "net:two-constants", comp("NS", sig, connects=[(ref("a"), c(4, 1)), (ref("a"), c(4, 2))])
  yield "net:const-and-block", comp("NS", sig, blocks=[drv], connects=[(ref("a"), c(4, 1))])
  yield "net:const-and-input", comp("NS", sig, connects=[(ref("a"), ref("in_")), (ref("a"), c(4, 1))])
  yield "net:two-block-driven-members", comp("NS", sig, blocks=[drv, ("up_b", "comb", [("=", ref("b"), ref("in_"))])], connects=[(ref("b"), ref("a"))])
  yield "net:slice-loop-free-ok", comp("NS", sig, blocks=[drv], connects=[(ref("b", ("s", 0, 2)), ref("a", ("s", 2, 4))), (ref("b", ("s", 2, 4)), ref("a", ("s", 0, 2))), (ref("out"), ref("b"))])
  yield "net:overlapping-slice-nets", comp("NS", sig, blocks=[drv], connects=[(ref("b", ("s", 0, 3)), ref("a", ("s", 0, 3))), (ref("b", ("s", 2, 4)), ref("a", ("s", 2, 4)))])
  yield "net:adjacent-slice-nets-ok", comp("NS", sig, blocks=[drv], connects=[(ref("b", ("s", 0, 2)), ref("a", ("s", 0, 2))), (ref("b", ("s", 2, 4)), ref("a", ("s", 2, 4)))])
  yield "net:chained-through-slices-ok", comp("NS", sig, blocks=[drv], connects=[(ref("b"), ref("a")), (ref("c", ("s", 0, 2)), ref("b", ("s", 1, 3))), (ref("c", ("s", 2, 4)), c(2, 1)), (ref("d"), ref("c")), o])
  yield "net:reader-slice-also-written", comp("NS", sig, blocks=[drv, ("up_b", "comb", [("=", ref("b", ("s", 3, 4)), ref("in_", ("b", 0)))])],
                                              connects=[(ref("b", ("s", 0, 4)), ref("a"))])


def gen_port_nets():
  leaf = comp("PL", [("i", "in", B(4), ()), ("i2", "in", B(4), ()), ("o", "out", B(4), ()), ("o2", "out", B(4), ())],
              blocks=[("up_l", "comb", [("=", ref("o"), ("bin", "+", ref("i"), ref("i2")))])])
  leafd = comp("PD", [("i", "in", B(4), ()), ("i2", "in", B(4), ()), ("o", "out", B(4), ()), ("o2", "out", B(4), ())],
               blocks=[("up_l", "comb", [("=", ref("o"), ("bin", "+", ref("i"), ref("i2")))]), ("up_2", "comb", [("=", ref("o2"), ref("i"))])])
  sig = [("in_", "in", B(4), ()), ("out", "out", B(4), ()), ("w", "wire", B(4), ())]
  def top(conns, blocks=(), kids=(("a", leaf), ("b", leaf))):
    return comp("PN", sig, children=list(kids), connects=list(conns), blocks=list(blocks))
  a, b = ("a",), ("b",)
  drvw = ("up_w", "comb", [("=", ref("w"), ref("in_"))])
  yield "pn:ok-parent-to-child-in", top([(ref("i", path=a), ref("in_")), (ref("i2", path=a), ref("w"))], [drvw])
  yield "pn:ok-sibling-out-to-in", top([(ref("i", path=a), ref("in_")), (ref("i", path=b), ref("o", path=a)), (ref("out"), ref("o", path=b))])
  yield "pn:ok-child-out-to-parent-out", top([(ref("i", path=a), ref("in_")), (ref("out"), ref("o", path=a))])
  yield "pn:type5-own-inport-driven-by-wire", comp("PN5", sig + [("in2", "in", B(4), ())], blocks=[drvw], connects=[(ref("in2"), ref("w"))])
  yield "pn:type6-child-inport-drives-parent-wire", top([(ref("w"), ref("i", path=a))], kids=(("a", comp("PI", [("i", "in", B(4), ()), ("o", "out", B(4), ())],
        connects=[(ref("i"), c(4, 3))])),))
  yield "pn:type7-parent-drives-child-outport", top([(ref("o2", path=a), ref("w"))], [drvw])
  yield "pn:type8-sibling-out-to-out", top([(ref("o2", path=b), ref("o", path=a)), (ref("i", path=a), ref("in_"))])
  yield "pn:type8-sibling-in-to-in", top([(ref("i", path=a), ref("in_")), (ref("i", path=b), ref("i", path=a))])
  # loop-back: a component's own out port feeding its own in port
  yield "pn:loopback-in-parent-ok", top([(ref("i", path=a), ref("o2", path=a)), (ref("i2", path=a), ref("in_"))], kids=(("a", leafd),))
  lb = comp("LB", [("i", "in", B(4), ()), ("i2", "in", B(4), ()), ("o", "out", B(4), ()), ("o2", "out", B(4), ())],
            blocks=[("up_2", "comb", [("=", ref("o2"), ref("i2"))])], connects=[(ref("i"), ref("o2"))])
  yield "pn:loopback-inside-component", top([(ref("i2", path=a), ref("in_"))], kids=(("a", lb),))
  # too far apart
  mid = comp("PM", [("i", "in", B(4), ()), ("o", "out", B(4), ())], children=[("l", leaf)],
             connects=[(ref("i", path=("l",)), ref("i")), (ref("o"), ref("o", path=("l",)))])
  yield "pn:type9-grandchild-direct", comp("PN9", sig, children=[("m", mid)], connects=[(ref("i", path=("m",)), ref("in_")), (ref("out"), ref("o", path=("m", "l")))])


def gen_operators():
  sig = [("in_", "in", B(4), ()), ("x", "wire", B(4), ()), ("y", "wire", Sab, ()), ("l", "wire", B(4), (2,))]
  def one(kind, target, op, pre=None):
    st = [("=", target, ref("in_") if target[2] != "y" or target[3] else ("st", "Sab", ref("in_", ("s", 0, 2)), ref("in_", ("s", 2, 4))), op)]
    if target[2] == "y" and target[3]: st = [("=", target, ref("in_", ("s", 0, 2)), op)]
    if target[3] and target[3][-1][0] == "s": st = [("=", target, ref("in_", ("s", 0, 2)), op)]
    return comp("OP", sig, blocks=[("blk", kind, (pre or []) + st)])
  for kind in ("comb", "ff"):
    for op in ("@=", "<<=", "="):
      yield f"op:{kind}:{op}:whole", one(kind, ref("x"), op)
      yield f"op:{kind}:{op}:list-elem", one(kind, ref("l", ("i", 1)), op)
      yield f"op:{kind}:{op}:slice", one(kind, ref("x", ("s", 0, 2)), op)
      yield f"op:{kind}:{op}:field", one(kind, ref("y", ("f", "a")), op)
      good = "<<=" if kind == "ff" else "@="
      # a correct write to the same signal first, then the one under test
      yield f"op:{kind}:{op}:after-correct-write", one(kind, ref("x"), op, pre=[("=", ref("x"), c(4, 0), good)])


def gen_three_writers():
  """thorough tier: three writes to one carrier over every multiset of three access shapes: three comb blocks, two in one block + one,
  two blocks + a connection from an input (only one defect class -- several drivers -- can arise)"""
  for label, t, dims, shapes in CARR:
    for i1, i2, i3 in itertools.combinations_with_replacement(range(len(shapes)), 3):
      s1, s2, s3 = shapes[i1], shapes[i2], shapes[i3]
      base = [("in_", "in", B(4), ()), ("sel", "in", B(2), ()), ("X", "wire", t, dims)]
      wa = _wr("blkA", "comb", ref("X", *s1), t, dims)
      wb = _wr("blkB", "comb", ref("X", *s2), t, dims)
      wc = _wr("blkC", "comb", ref("X", *s3), t, dims)
      yield f"b3:{label}:{s1}|{s2}|{s3}:three-blocks", comp("B3", base, blocks=[wa, wb, wc])
      yield f"b3:{label}:{s1}|{s2}|{s3}:two-in-one-block", comp("B3s", base, blocks=[("blkA", "comb", wa[2] + wb[2]), wc])
      yield f"b3:{label}:{s1}|{s2}|{s3}:one-block", comp("B3o", base, blocks=[("blkA", "comb", wa[2] + wb[2] + wc[2])])
      if not any(a[0] in ("v", "vb") for a in s3):
        w3, t3 = shape_width(t, dims, s3)
        yield f"b3:{label}:{s1}|{s2}|{s3}:two-blocks+net", comp("B3n", base + [("src", "in", t3, ())], blocks=[wa, wb], connects=[(ref("X", *s3), ref("src"))])


GENS = [gen_block_block, gen_block_net, gen_net_net, gen_hier, gen_nets_structure, gen_port_nets, gen_operators]
TIER = ["quick"]


def all_cases():
  for g in GENS + ([gen_three_writers] if TIER[0] == "thorough" else []):
    yield from g()


# ------------------------------------------------------------------ running

def reorder(d, variant):
  """variant 1: reversed block and connection order in every component; variants 2.. (thorough): the other permutations of <= 3 blocks."""
  if variant == 0: return d
  def rec(cmp):
    out = dict(cmp)
    blocks = list(cmp.get("blocks", []))
    if variant == 1 or len(blocks) < 3:
      out["blocks"] = list(reversed(blocks)) if variant % 2 else blocks
    else:
      perms = [p for p in itertools.permutations(range(len(blocks))) if list(p) not in (list(range(len(blocks))), list(reversed(range(len(blocks)))))]
      out["blocks"] = [blocks[k] for k in perms[(variant - 2) % len(perms)]]
    out["connects"] = list(reversed(cmp.get("connects", []))) if variant % 2 else list(cmp.get("connects", []))
    out["children"] = [(n, rec(ch)) for n, ch in cmp.get("children", [])]
    return out
  return rec(d)


def elaborate(d, hp):
  mult = (1, 7919, 104729, 31, 65537, 999983)[hp]
  with seams.hash_seam(lambda o, i: (i * mult + hp) % 1000003):
    cls, src, mod = ir.load(d)
    try:
      top = cls()
      top.elaborate()
      return None
    except Exception as ex:
      return ex
    finally:
      ir.unload(mod)


def check_case(name, d, acc):
  try:
    want = analyze(d)
  except Exception as ex:
    raise MachineryError(f"analysis failed on {name}: {ex!r}")
  fam = name.split(":")[0]
  thorough = TIER[0] == "thorough"
  for variant in ((0, 1, 2, 3, 4, 5) if thorough and name.startswith("b3:") else (0, 1)):
    dd = reorder(d, variant)
    for hp in ((0, 1, 2, 3, 4, 5) if thorough else (0, 1, 2)):
      ex = elaborate(dd, hp)
      got = type(ex).__name__ if ex is not None else None
      acc.count("evaluations")
      if got != want:
        if want is None: sig = f"{fam}:legal-design-rejected:{got}"
        elif got is None: sig = f"{fam}:illegal-design-accepted:{want}"
        else: sig = f"{fam}:wrong-error:{want}->{got}"
        acc.violation(sig + ":" + _detail(name), dict(name=name, ir=d, variant=variant, hp=hp), want, got if ex is None else f"{got}: {str(ex)[:140]}", name)
  acc.count("cases")
  acc.add("expect", (fam, want))
  acc.count("illegal" if want else "legal")


def _detail(name):
  parts = name.split(":")
  return parts[-1] if parts[0] in ("bb", "bn", "hier", "b3") else ":".join(parts[1:])


# ------------------------------------------------------------------ hand-written designs: writes through @s.func functions

FUNC_HEAD = """from pymtl3 import *

class FuncD( Component ):
  def construct( s ):
    s.in_ = InPort( Bits4 )
    s.x = Wire( Bits4 )
    s.y = Wire( Bits4 )
    s.out = OutPort( Bits4 )
"""
F_DEFS = {
  "f": ["@s.func", "def f():", "  s.x @= s.in_"],
  "g": ["@s.func", "def g():", "  f()"],                      # g -> f
  "h": ["@s.func", "def h():", "  f()", "  s.y @= s.in_"],    # h -> f, and writes y itself
  "fy": ["@s.func", "def fy():", "  s.y @= s.in_ + 1"],
}


def func_cases():
  """(name, [function names], [(block name, [statements])], expected exception class name | None); a function's writes count for
  EVERY update block that reaches it through calls; one block reaching it twice is still one driver"""
  rd = ("up_rd", ["s.out @= s.x + s.y"])
  yd = ("up_y", ["s.y @= s.in_"])
  C = [
    ("one-caller", ["f"], [("upA", ["f()"]), yd, rd], None),
    ("two-callers", ["f"], [("upA", ["f()"]), ("upB", ["f()"]), yd, rd], "MultiWriterError"),
    ("caller+direct-writer", ["f"], [("upA", ["f()"]), ("upB", ["s.x @= 3"]), yd, rd], "MultiWriterError"),
    ("nested+direct-call", ["f", "g"], [("upA", ["g()"]), ("upB", ["f()"]), yd, rd], "MultiWriterError"),
    ("two-nested", ["f", "g", "h"], [("upA", ["g()"]), ("upB", ["h()"]), rd], "MultiWriterError"),
    ("diamond-in-one-block", ["f", "g", "h"], [("upA", ["g()", "h()"]), rd], None),
    ("called-twice-in-one-block", ["f"], [("upA", ["f()", "f()"]), yd, rd], None),
    ("different-functions", ["f", "fy"], [("upA", ["f()"]), ("upB", ["fy()"]), rd], None),
    ("second-caller-of-other-function-writes-y-too", ["f", "fy", "h"], [("upA", ["h()"]), ("upB", ["fy()"]), rd], "MultiWriterError"),
    ("three-callers", ["f"], [("upA", ["f()"]), ("upB", ["f()"]), ("upC", ["f()"]), yd, rd], "MultiWriterError"),
  ]
  for name, fns, blocks, want in C:
    for order in (0, 1):
      bl = list(reversed(blocks)) if order else blocks
      lines = []
      for fn in fns: lines += F_DEFS[fn]
      for bn, stmts in bl:
        lines += ["@update", f"def {bn}():"] + ["  " + st for st in stmts]
      yield f"func:{name}:order{order}", FUNC_HEAD + "".join("    " + l + "\n" for l in lines), want


def check_func_case(name, src, want, acc):
  for hp in (0, 1, 2):
    mult = (1, 7919, 104729)[hp]
    with seams.hash_seam(lambda o, i: (i * mult + hp) % 1000003):
      mod = ir.load_src(src)
      try:
        top = mod.FuncD()
        top.elaborate()
        got = None
      except Exception as ex:
        got = type(ex).__name__
        msg = str(ex)[:140]
      finally:
        ir.unload(mod.__name__)
    acc.count("evaluations")
    if got != want:
      sig = f"func:legal-design-rejected:{got}" if want is None else (f"func:illegal-design-accepted:{want}" if got is None else f"func:wrong-error:{want}->{got}")
      acc.violation(sig + ":" + name.split(":")[1], dict(name=name, kind="func", hp=hp), want, got if got is None else f"{got}: {msg}", name)
  acc.count("cases")
  acc.add("expect", ("func", want))
  acc.count("illegal" if want else "legal")


# ------------------------------------------------------------------ hand-written designs: shapes the IR does not express

HAND_HEAD = """from pymtl3 import *
i = 0      # a module-level name that update blocks shadow with their own loop variable

@bitstruct
class HSt:
  a: Bits4
  b: Bits4

"""


def _cls(name, body, base="Component"):
  return f"class {name}( {base} ):\n  def construct( s ):\n" + "".join("    " + l + "\n" for l in body)


def hand_cases():
  """(name, source, class to elaborate, expected exception class name | None, classes to elaborate BEFORE it)"""
  C = []
  def add(name, body, want, pre=(), extra=""): C.append((name, HAND_HEAD + extra + _cls("HandD", body), want, pre))
  # one block writes a signal whole and one of its parts; a net reads / drives another part
  add("whole+field-same-block:net-reads-other-field", ["s.in_ = InPort( HSt )", "s.x = Wire( HSt )", "s.out = OutPort( Bits4 )",
      "@update", "def up():", "  s.x @= s.in_", "  s.x.a @= 1", "connect( s.x.b, s.out )"], None)
  add("whole+slice-same-block:net-reads-overlapping-slice", ["s.in_ = InPort( Bits8 )", "s.w = Wire( Bits8 )", "s.out = OutPort( Bits7 )",
      "@update", "def up():", "  s.w @= s.in_", "  s.w[1:7] @= 1", "connect( s.out, s.w[1:8] )"], None)
  add("whole+slice-same-block:net-drives-other-slice", ["s.in_ = InPort( Bits8 )", "s.w = Wire( Bits8 )",
      "@update", "def up():", "  s.w @= 1", "  s.w[7:8] @= 1", "connect( s.in_[6:8], s.w[2:4] )"], "MultiWriterError")
  add("whole+field-same-block:net-drives-other-field", ["s.in_ = InPort( HSt )", "s.x = Wire( HSt )", "s.k = InPort( Bits4 )",
      "@update", "def up():", "  s.x @= s.in_", "  s.x.a @= 1", "connect( s.k, s.x.b )"], "MultiWriterError")
  # augmented assignments other than @= / <<=
  for op in ("+=", "|=", "&=", "^=", ">>="):
    add(f"operator:{op}:update", ["s.in_ = InPort( Bits8 )", "s.out = OutPort( Bits8 )", "@update", "def up():", f"  s.out {op} s.in_"], "UpdateBlockWriteError")
    add(f"operator:{op}:update_ff", ["s.in_ = InPort( Bits8 )", "s.out = OutPort( Bits8 )", "@update_ff", "def up():", f"  s.out {op} s.in_"], "UpdateFFBlockWriteError")
  # the operator rule inside a function that an update block calls
  add("operator-in-func:<<=", ["s.in_ = InPort( Bits8 )", "s.out = OutPort( Bits8 )", "@s.func", "def f():", "  s.out <<= s.in_", "@update", "def up():", "  f()"], "UpdateBlockWriteError")
  add("operator-in-func:=", ["s.in_ = InPort( Bits8 )", "s.out = OutPort( Bits8 )", "@s.func", "def f():", "  s.out = s.in_", "@update", "def up():", "  f()"], "UpdateBlockWriteError")
  add("operator-in-func:@=(control)", ["s.in_ = InPort( Bits8 )", "s.out = OutPort( Bits8 )", "@s.func", "def f():", "  s.out @= s.in_", "@update", "def up():", "  f()"], None)
  # connection loops
  add("loop:self-connection", ["s.in_ = InPort( Bits8 )", "s.w = Wire( Bits8 )", "connect( s.w, s.in_ )", "connect( s.w, s.w )"], "InvalidConnectionError")
  # a loop variable that shadows a module-level name: the block writes BOTH list elements
  add("shadowed-loop-variable:second-writer-of-element-1", ["s.in_ = InPort( Bits8 )", "s.out = [ OutPort( Bits8 ) for _ in range(2) ]",
      "@update", "def up_loop():", "  for i in range(2):", "    s.out[i] @= s.in_", "@update", "def up_one():", "  s.out[1] @= 0"], "MultiWriterError")
  add("shadowed-loop-variable:single-writer", ["s.in_ = InPort( Bits8 )", "s.out = [ OutPort( Bits8 ) for _ in range(2) ]",
      "@update", "def up_loop():", "  for i in range(2):", "    s.out[i] @= s.in_"], None)
  add("unshadowed-loop-variable:second-writer-of-element-1", ["s.in_ = InPort( Bits8 )", "s.out = [ OutPort( Bits8 ) for _ in range(2) ]",
      "@update", "def up_loop():", "  for jj in range(2):", "    s.out[jj] @= s.in_", "@update", "def up_one():", "  s.out[1] @= 0"], "MultiWriterError")
  # signals written through a local name of the block (plain assignment, zip, nested loops, if / else)
  P2 = ["s.in_ = InPort( Bits8 )", "s.out = OutPort( Bits8 )", "s.outs = [ OutPort( Bits8 ) for _ in range(2) ]", "s.ins = [ InPort( Bits8 ) for _ in range(2) ]",
        "s.g = [ [ Wire( Bits8 ) for _ in range(2) ] for _ in range(2) ]"]
  alias_forms = {
    "assign":      (["  x = s.out", "  x @= s.in_", "  for i in range(2):", "    s.outs[i] @= 0", "    for j in range(2):", "      s.g[i][j] @= 0"], "s.out"),
    "zip":         (["  for i_, o_ in zip( s.ins, s.outs ):", "    o_ @= i_", "  s.out @= 0", "  for i in range(2):", "    for j in range(2):", "      s.g[i][j] @= 0"], "s.outs[1]"),
    "nested-loop": (["  for row in s.g:", "    for w in row:", "      w @= s.in_", "  s.out @= 0", "  for i in range(2):", "    s.outs[i] @= 0"], "s.g[1][0]"),
    "branch":      (["  if s.in_[0]:", "    x = s.outs[0]", "    y = s.outs[1]", "  else:", "    x = s.outs[1]", "    y = s.outs[0]", "  x @= s.in_", "  y @= 0", "  s.out @= 0",
                     "  for i in range(2):", "    for j in range(2):", "      s.g[i][j] @= 0"], "s.outs[0]"),
    "tuple":       (["  x, y = s.out, s.outs[0]", "  x @= s.in_", "  y @= 0", "  s.outs[1] @= 0", "  for i in range(2):", "    for j in range(2):", "      s.g[i][j] @= 0"], "s.outs[0]"),
  }
  for form, (body, victim) in alias_forms.items():
    add(f"local-alias:{form}:single-writer", P2 + ["@update", "def up_al():"] + body, None)
    add(f"local-alias:{form}:second-writer", P2 + ["@update", "def up_al():"] + body + ["@update", "def up_two():", f"  {victim} @= 1"], "MultiWriterError")
  add("local-alias:assign:wrong-operator:update", ["s.in_ = InPort( Bits8 )", "s.out = OutPort( Bits8 )", "@update", "def up_al():", "  x = s.out", "  x <<= s.in_"], "UpdateBlockWriteError")
  add("local-alias:assign:wrong-operator:update_ff", ["s.in_ = InPort( Bits8 )", "s.out = OutPort( Bits8 )", "@update_ff", "def up_al():", "  x = s.out", "  x @= s.in_"], "UpdateFFBlockWriteError")
  add("local-alias:loop:wrong-operator:update", ["s.in_ = InPort( Bits8 )", "s.outs = [ OutPort( Bits8 ) for _ in range(2) ]", "@update", "def up_al():", "  for o_ in s.outs:", "    o_ <<= s.in_"], "UpdateBlockWriteError")
  # other forms found by the fourth audit
  lbc = _cls("HLeaf", ["s.in_ = InPort( Bits8 )", "s.out = OutPort( Bits8 )", "s.in_ //= s.out", "@update", "def up_l():", "  s.out @= 1"])
  C.append(("loopback:made-by-the-component-itself", HAND_HEAD + lbc + _cls("HandD", ["s.c = HLeaf()"]), "InvalidConnectionError", ()))
  C.append(("loopback:made-by-the-component-and-by-its-parent", HAND_HEAD + lbc + _cls("HandD", ["s.c = HLeaf()", "s.c.in_ //= s.c.out"]), "InvalidConnectionError", ()))
  add("placeholder:connect", ["s.in_ = InPort( Bits8 )", "s.out = OutPort( Bits8 )", "s.out //= s.in_"], "InvalidPlaceholderError", extra="class HandD_unused: pass\n")
  C[-1] = (C[-1][0], C[-1][1].replace("class HandD( Component )", "class HandD( Component, Placeholder )"), C[-1][2], C[-1][3])
  add("func-then-block-same-name", ["s.in_ = InPort( Bits8 )", "s.o1 = OutPort( Bits8 )", "s.o2 = OutPort( Bits8 )", "@s.func", "def f():", "  s.o1 @= 1", "@update", "def f():", "  s.o2 @= s.in_",
      "@update", "def g():", "  s.o2 @= 0"], "UpblkFuncSameNameError")
  add("block-then-func-same-name", ["s.in_ = InPort( Bits8 )", "s.o1 = OutPort( Bits8 )", "s.o2 = OutPort( Bits8 )", "@update", "def f():", "  s.o2 @= s.in_", "@s.func", "def f():", "  s.o1 @= 1"], "UpblkFuncSameNameError")
  add("value-method:uint-clone(legal)", ["s.in_ = InPort( Bits8 )", "s.out = OutPort( Bits8 )", "s.o2 = OutPort( Bits8 )", "@update", "def up():", "  s.out @= s.in_.uint() + 1", "  s.o2 @= s.in_.clone()"], None)
  add("value-method:to_bits(legal)", ["s.in_ = InPort( HSt )", "s.out = OutPort( Bits8 )", "@update", "def up():", "  s.out @= s.in_.to_bits()"], None)
  add("value-method:second-writer", ["s.in_ = InPort( Bits8 )", "s.out = OutPort( Bits8 )", "@update", "def up():", "  s.out @= s.in_.uint() + 1", "@update", "def up2():", "  s.out @= 0"], "MultiWriterError")
  add("bits-typed-index(legal)", ["s.in_ = InPort( Bits8 )", "s.out = OutPort( Bits8 )", "s.o1 = OutPort( Bits1 )", "idx = b3(2)", "lo = b4(2)", "hi = b4(4)",
      "@update", "def up():", "  s.o1 @= s.in_[idx]", "  s.out @= 0", "  s.out[lo:hi] @= s.in_[0:2]"], None)
  add("bits-typed-index:second-writer", ["s.in_ = InPort( Bits8 )", "s.out = OutPort( Bits8 )", "lo = b4(2)", "hi = b4(4)",
      "@update", "def up():", "  s.out[lo:hi] @= s.in_[0:2]", "@update", "def up2():", "  s.out[3] @= 0"], "MultiWriterError")
  add("lambda-text:else-default(legal)", ["s.in_ = InPort( Bits8 )", "s.out = OutPort( Bits8 )", "default = Bits8( 3 )", "s.out //= lambda: s.in_ if s.in_[0] else default"], None)
  add("closure-name:second-writer", ["s.in_ = InPort( Bits8 )", "s.outs = [ OutPort( Bits8 ) for _ in range(2) ]", "outs = s.outs", "@update", "def up():", "  outs[0] @= s.in_", "  outs[1] @= 0",
      "@update", "def up2():", "  s.outs[0] @= 1"], "MultiWriterError")
  add("closure-name:wrong-operator", ["s.in_ = InPort( Bits8 )", "s.outs = [ OutPort( Bits8 ) for _ in range(2) ]", "outs = s.outs", "@update", "def up():", "  outs[0] <<= s.in_", "  outs[1] <<= 0"], "UpdateBlockWriteError")
  for form, body in (("comprehension-read(legal)", ["  vs = [ p for p in s.ins ]", "  s.out @= vs[0] + vs[1]"]), ("list-display-loop", ["  for o_ in [ s.outs[0], s.outs[1] ]:", "    o_ @= s.in_"]),
                     ("slice-of-list-loop", ["  for o_ in s.outs[0:2]:", "    o_ @= s.in_"]), ("conditional-expression", ["  x = s.outs[0] if s.in_[0] else s.outs[1]", "  y = s.outs[1] if s.in_[0] else s.outs[0]", "  x @= 1", "  y @= 0"]),
                     ("loop-carried", ["  x = s.outs[1]", "  for k in range(2):", "    x @= s.in_", "    x = s.outs[0]", "  s.outs[1] @= 0" if False else "  pass"])):
    decl = ["s.in_ = InPort( Bits8 )", "s.out = OutPort( Bits8 )", "s.outs = [ OutPort( Bits8 ) for _ in range(2) ]", "s.ins = [ InPort( Bits8 ) for _ in range(2) ]"]
    if form.endswith("(legal)"):
      add(f"local-alias2:{form}", decl + ["@update", "def up_al():"] + body, None)
    else:
      add(f"local-alias2:{form}:second-writer", decl + ["@update", "def up_al():"] + body + ["@update", "def up_two():", "  s.outs[0] @= 1"], "MultiWriterError")
  # index expressions: provably disjoint writes from two blocks
  add("index-expression:N-1", ["s.in_ = InPort( Bits8 )", "s.out = [ OutPort( Bits8 ) for _ in range(2) ]", "N = 2",
      "@update", "def up_a():", "  s.out[0] @= s.in_", "@update", "def up_b():", "  s.out[N-1] @= 0"], None)
  add("index-expression:slice-N:2N", ["s.in_ = InPort( Bits4 )", "s.out = OutPort( Bits8 )", "N = 4",
      "@update", "def up_a():", "  s.out[0:N] @= s.in_", "@update", "def up_b():", "  s.out[N:2*N] @= 0"], None)
  # a subclass whose block has the name of a block of its base class (the base class is elaborated first)
  base = _cls("HBase", ["s.in_ = InPort( Bits8 )", "s.out = OutPort( Bits8 )", "@update", "def up():", "  s.out @= s.in_"])
  C.append(("subclass-same-block-name:two-writers", HAND_HEAD + base + _cls("HandD", ["s.in_ = InPort( Bits8 )", "s.out = OutPort( Bits8 )", "s.out2 = OutPort( Bits8 )",
      "@update", "def up():", "  s.out @= s.in_", "  s.out2 @= s.in_", "@update", "def up2():", "  s.out2 @= 0"], base="HBase"), "MultiWriterError", ("HBase",)))
  C.append(("subclass-same-block-name:legal", HAND_HEAD + base + _cls("HandD", ["s.in_ = InPort( Bits8 )", "s.out = OutPort( Bits8 )", "s.out2 = OutPort( Bits8 )",
      "@update", "def up():", "  s.out @= s.in_", "  s.out2 @= s.in_"], base="HBase"), None, ("HBase",)))
  # port rules for connections made by a component that owns neither side
  leaf = _cls("HLeaf", ["s.in_ = InPort( Bits8 )", "s.out = OutPort( Bits8 )", "s.w1 = Wire( Bits8 )", "s.w2 = Wire( Bits8 )", "@update", "def up_l():", "  s.w1 @= s.in_"])
  leaf2 = _cls("HLeaf", ["s.in_ = InPort( Bits8 )", "s.out = OutPort( Bits8 )", "@update", "def up_l():", "  s.out @= s.in_"])
  mid = _cls("HMid", ["s.in_ = InPort( Bits8 )", "s.l = HLeaf()", "s.l.in_ //= s.in_"])
  C.append(("port-rule:grandparent-loopback", HAND_HEAD + leaf2 + _cls("HMid", ["s.l = HLeaf()"]) + _cls("HandD", ["s.m = HMid()", "s.m.l.in_ //= s.m.l.out"]), "InvalidConnectionError", ()))
  # ... between two grandchildren, and a child's out port driven by its parent from the child's own in port / wire
  leaf3 = _cls("HLeaf", ["s.in_ = InPort( Bits8 )", "s.out = OutPort( Bits8 )", "s.w = Wire( Bits8 )", "@update", "def up_l():", "  s.w @= s.in_"])
  mid2 = _cls("HMid", ["s.in_ = InPort( Bits8 )", "s.b1 = HLeaf()", "s.b2 = HLeaf()", "s.b1.in_ //= s.in_"])
  leaf2o = _cls("HLeaf", ["s.in_ = InPort( Bits8 )", "s.out = OutPort( Bits8 )", "@update", "def up_l():", "  s.out @= s.in_"])
  C.append(("port-rule:grandparent-connects-two-grandchildren", HAND_HEAD + leaf2o + mid2 + _cls("HandD", ["s.in_ = InPort( Bits8 )", "s.a = HMid()", "s.a.in_ //= s.in_", "s.a.b2.in_ //= s.a.b1.out"]),
            "InvalidConnectionError", ()))
  C.append(("port-rule:parent-drives-child-out-from-child-in", HAND_HEAD + _cls("HLeaf", ["s.in_ = InPort( Bits8 )", "s.out = OutPort( Bits8 )"]) +
            _cls("HandD", ["s.in_ = InPort( Bits8 )", "s.a = HLeaf()", "s.a.in_ //= s.in_", "s.a.out //= s.a.in_"]), "SignalTypeError", ()))
  C.append(("port-rule:parent-drives-child-wire", HAND_HEAD + _cls("HLeaf", ["s.in_ = InPort( Bits8 )", "s.w = Wire( Bits8 )"]) +
            _cls("HandD", ["s.in_ = InPort( Bits8 )", "s.a = HLeaf()", "s.a.in_ //= s.in_", "s.a.w //= s.a.in_"]), "SignalTypeError", ()))
  # two interfaces of which one has a member (or a longer list) the other lacks: refused whichever is written first
  ifcs = ("class IA( Interface ):\n  def construct( s ):\n    s.x = InPort( Bits8 )\n    s.l = [ InPort( Bits8 ) for _ in range(2) ]\n\n"
          "class IB( Interface ):\n  def construct( s ):\n    s.x = OutPort( Bits8 )\n    s.l = [ OutPort( Bits8 ) for _ in range(2) ]\n    s.extra = OutPort( Bits8 )\n\n"
          "class IC( Interface ):\n  def construct( s ):\n    s.x = OutPort( Bits8 )\n    s.l = [ OutPort( Bits8 ) for _ in range(3) ]\n\n")
  prod = lambda I: _cls("HProd", [f"s.o = {I}()"])
  cons = _cls("HCons", ["s.i = IA()"])
  for I, why in (("IB", "extra-member"), ("IC", "longer-list")):
    for order, stmt in (("consumer-first", "connect( s.c.i, s.p.o )"), ("producer-first", "connect( s.p.o, s.c.i )")):
      C.append((f"interface-mismatch:{why}:{order}", HAND_HEAD + ifcs + prod(I) + cons + _cls("HandD", ["s.p = HProd()", "s.c = HCons()", stmt]), "InvalidConnectionError", ()))
  # partly driven net sources
  add("partial-driver:disjoint-slice(control)", ["s.in_ = InPort( Bits4 )", "s.y = Wire( Bits8 )", "s.out = OutPort( Bits4 )", "s.y[0:4] //= s.in_", "s.out //= s.y[4:8]"], "NoWriterError")
  add("partial-driver:overlapping-slice", ["s.in_ = InPort( Bits4 )", "s.y = Wire( Bits8 )", "s.out = OutPort( Bits4 )", "s.y[0:4] //= s.in_", "s.out //= s.y[2:6]"], "NoWriterError")
  add("partial-driver:struct-with-one-driven-field", ["s.in_ = InPort( Bits4 )", "s.x = Wire( HSt )", "s.out = OutPort( HSt )", "s.x.a //= s.in_", "s.out //= s.x"], "NoWriterError")
  # overlapping slices that are both READERS of one net
  add("overlapping-readers:one-net", ["s.x = InPort( Bits4 )", "s.y = Wire( Bits8 )", "connect( s.x, s.y[0:4] )", "connect( s.x, s.y[2:6] )"], "MultiWriterError")
  add("overlapping-readers:two-nets(control)", ["s.x = InPort( Bits4 )", "s.x2 = InPort( Bits4 )", "s.y = Wire( Bits8 )", "connect( s.x, s.y[0:4] )", "connect( s.x2, s.y[2:6] )"], "MultiWriterError")
  add("disjoint-readers:one-net(control)", ["s.x = InPort( Bits4 )", "s.y = Wire( Bits8 )", "connect( s.x, s.y[0:4] )", "connect( s.x, s.y[4:8] )"], None)
  # names of the blocks generated for `//= lambda`
  add("lambda-names:field-vs-underscore", ["s.in_ = InPort( Bits4 )", "s.a = OutPort( HSt )", "s.a_b = OutPort( Bits4 )", "s.a.b //= lambda: s.in_ + 1", "s.a.a //= 0", "s.a_b //= lambda: s.in_ + 2"], None)
  add("lambda-names:list-vs-underscore", ["s.in_ = InPort( Bits4 )", "s.o = [ OutPort( Bits4 ) for _ in range(2) ]", "s.o_0_ = OutPort( Bits4 )", "s.o[0] //= lambda: s.in_ + 1", "s.o[1] //= 0", "s.o_0_ //= lambda: s.in_ + 2"], None)
  return C


def check_hand_case(name, src, want, pre, acc, nperm=8):
  fam = "hand"
  for hp in range(nperm):
    mult = (1, 7919, 104729, 31, 65537, 999983, 17, 524287)[hp]
    with seams.hash_seam(lambda o, i: (i * mult + hp) % 1000003):
      mod = ir.load_src(src)
      try:
        for c in pre:
          b = getattr(mod, c)(); b.elaborate()
        top = mod.HandD()
        top.elaborate()
        got, msg = None, ""
      except Exception as ex:
        got, msg = type(ex).__name__, str(ex).strip()[:140]
      finally:
        ir.unload(mod.__name__)
    acc.count("evaluations")
    if got != want:
      sig = f"hand:legal-design-rejected:{got}" if want is None else (f"hand:illegal-design-accepted:{want}" if got is None else f"hand:wrong-error:{want}->{got}")
      acc.violation(sig + ":" + name, dict(name=name, kind="hand", hp=hp), want, got if got is None else f"{got}: {msg}", name)
  acc.count("cases")
  acc.add("expect", ("hand", want))
  acc.count("illegal" if want else "legal")


def shards(tier):
  k = 48
  return [(i, k) for i in range(k)] + [("func",), ("hand",)]


def run_shard(shard, tier, seed):
  acc = Acc()
  TIER[0] = tier
  if shard[0] == "func":
    for name, src, want in func_cases(): check_func_case(name, src, want, acc)
    return acc
  if shard[0] == "hand":
    for name, src, want, pre in hand_cases(): check_hand_case(name, src, want, pre, acc)
    return acc
  for j, (name, d) in enumerate(all_cases()):
    if j % shard[1] != shard[0]: continue
    check_case(name, d, acc)
    if j % 700 == 0: acc.sample(dict(case=name, expected=analyze(d), source=ir.emit(d, "x")[0].splitlines()[-10:]))
  return acc


def replay(case):
  acc = Acc()
  if case.get("kind") == "hand":
    for name, src, want, pre in hand_cases():
      if name == case["name"]: check_hand_case(name, src, want, pre, acc)
    return [(v["sig"], v["expected"], v["observed"], v["msg"]) for v in acc.violations][:4]
  if case.get("kind") == "func":
    for name, src, want in func_cases():
      if name == case["name"]: check_func_case(name, src, want, acc)
    return [(v["sig"], v["expected"], v["observed"], v["msg"]) for v in acc.violations][:4]
  TIER[0] = "thorough" if case["name"].startswith("b3:") or case.get("hp", 0) > 2 else "quick"
  check_case(case["name"], ir.norm_comp(case["ir"]), acc)
  return [(v["sig"], v["expected"], v["observed"], v["msg"]) for v in acc.violations][:4]


def finish(acc, tier):
  if acc.n["legal"] < 50 or acc.n["illegal"] < 50: raise MachineryError("legal/illegal mix is vacuous")
  return dict(
    evaluations=int(acc.n["evaluations"]), distinct_nontrivial=int(acc.n["illegal"]),
    rule="one case = one small design (with its expected verdict from the bit-level analysis) elaborated under 2 statement orders x 3 hash permutations (thorough: 6 permutations, all block orders of the three-writer designs); "
         "non-trivial = distinct designs that carry a defect (their defect-free siblings are the other cases)",
    exhaustive=True, cases=int(acc.n["cases"]), legal=int(acc.n["legal"]), illegal=int(acc.n["illegal"]),
    verdict_classes=sorted(f"{f}:{w}" for f, w in acc.sets["expect"]),
  )
