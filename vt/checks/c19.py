"""C19 -- round-robin arbiters grant exactly one requester, fairly.

Explicit-state BFS to closure over the priority register; every transition is
a real sim_eval_combinational()+sim_tick() of a freshly elaborated arbiter
after replaying the history. Oracle: pointer model (an int). Fairness is
checked as a safety property on the product (pointer, requester, waited) using
the recorded transition table of the implementation.
"""
from vt.acc import Acc, MachineryError
from vt.explore import bfs_history

PROPERTY = "C19"
LEVEL = "model_checking"
ASSUMPTIONS = [
  "histories start after sim_reset(); the pre-reset register value 0 is not a state of the property",
  "granting cycle = a cycle in which a grant is issued and the priority pointer advances "
  "(for the enabled variant: en high); fairness bound: waited < nreqs granting cycles",
  "reference model: one integer pointer; grant = first requester at or after the pointer, cyclically",
]

CLASSES = ("RoundRobinArbiter", "RoundRobinArbiterEn")


def make(cls, n):
  from pymtl3 import DefaultPassGroup
  import pymtl3.stdlib.basic_rtl.arbiters as A
  top = getattr(A, cls)(n)
  top.elaborate()
  top.apply(DefaultPassGroup())
  top.sim_reset()
  return top


def apply(top, letter):
  reqs, en, reset = letter
  try:
    top.reqs @= reqs
    if hasattr(top, "en"): top.en @= en
    top.reset @= reset
    top.sim_eval_combinational()
    g = int(top.grants)
    top.sim_tick()
  except Exception as ex:             # the implementation crashed: a verdict, not a machinery error
    top._vt_dead = f"{type(ex).__name__}: {str(ex)[:100]}"
    return -1
  return g


def canon(top):
  if getattr(top, "_vt_dead", None): return -1
  return int(top.priority_reg.out)


def ref_step(n, ptr_onehot, letter, has_en):
  """-> (grants, next pointer one-hot)"""
  reqs, en, reset = letter
  p = ptr_onehot.bit_length() - 1
  g = 0
  for k in range(n):
    i = (p + k) % n
    if (reqs >> i) & 1:
      g = 1 << i
      break
  nxt = ptr_onehot
  if reset: nxt = 1
  elif g and (en or not has_en):
    i = g.bit_length() - 1
    nxt = 1 << ((i + 1) % n)
  return g, nxt


def step_fails(cls, n, c, letter, g, post):
  has_en = cls.endswith("En")
  fails = []
  reqs = letter[0]
  if g == -1 or post == -1:
    return [(f"{cls}:sim-raised", "no exception", "simulation raised", f"n={n} ptr={c} letter={letter}")]
  if c <= 0 or c & (c - 1) or c >= (1 << n):
    fails.append((f"{cls}:pointer-not-onehot", "one-hot", c, f"n={n}"))
    return fails
  wg, wn = ref_step(n, c, letter, has_en)
  if (g == 0) != (reqs == 0): fails.append((f"{cls}:grant-iff-request", int(reqs != 0), g, f"n={n} ptr={c} letter={letter}"))
  if g & (g - 1): fails.append((f"{cls}:grant-not-onehot", "one-hot", g, f"n={n} ptr={c} letter={letter}"))
  if g & ~reqs: fails.append((f"{cls}:grant-non-requester", reqs, g, f"n={n} ptr={c} letter={letter}"))
  if g != wg: fails.append((f"{cls}:grant-not-first-after-pointer", wg, g, f"n={n} ptr={c} letter={letter}"))
  if post != wn:
    why = "reset" if letter[2] else ("advance" if wn != c else "hold")
    fails.append((f"{cls}:pointer-{why}", wn, post, f"n={n} ptr={c} letter={letter}"))
  return fails


def explore(cls, n, acc):
  has_en = cls.endswith("En")
  L = [(r, e, rs) for r in range(1 << n) for e in ((0, 1) if has_en else (1,)) for rs in (0, 1)]

  def on_step(hist, l, c, g, post):
    fs = step_fails(cls, n, c, l, g, post)
    for f in fs:
      acc.violation(f[0], dict(cls=cls, n=n, hist=[list(x) for x in hist], letter=list(l)), f[1], f[2], f[3])
    return not fs

  res = bfs_history(lambda: make(cls, n), apply, canon, lambda c: L, on_step=on_step)
  acc.count("states", len(res.states)); acc.count("transitions", res.transitions)
  acc.count("executions", res.executions)
  if not res.closed: acc.count("not_closed")
  for c in res.states: acc.add("outcomes", (cls, n, c))
  wrapped = [c for c, h in res.states.items() if c == 1 and h]  # pointer back at 0 after advancing
  acc.count("states_pointer_wrapped", sum(1 for c in res.states if c == 1 << (n - 1)))
  # fairness on the product graph built from the implementation's recorded transitions
  worst = 0
  for i in range(n):
    seen = set()
    stack = [(c, 0) for c in res.states]
    while stack:
      c, w = stack.pop()
      if (c, w) in seen: continue
      seen.add((c, w))
      acc.count("fairness_product_states")
      for l in L:
        if not (l[0] >> i) & 1 or l[2]: continue      # i keeps requesting, no reset
        g, post = res.table[(c, l)]
        if post not in res.states: continue            # pruned after an oracle failure
        if g == 1 << i: continue                       # granted: obligation met
        granting = g != 0 and post != c
        w2 = w + (1 if granting else 0)
        worst = max(worst, w2)
        if w2 >= n:
          acc.violation(f"{cls}:unfair", dict(cls=cls, n=n, hist=[list(x) for x in res.states[c]], letter=list(l), requester=i),
                        f"granted within {n} granting cycles", f"waited {w2}", f"ptr={c}")
          continue
        stack.append((post, w2))
  acc.count("fairness_worst_wait", 0)
  acc.add("worst", (cls, n, worst))
  acc.sample(dict(cls=cls, nreqs=n, history=[list(x) for x in max(res.states.values(), key=len)],
                  reachable_pointers=sorted(res.states)))
  return res


def shards(tier):
  ns = range(2, 7) if tier == "quick" else range(2, 11)
  return [(c, n) for c in CLASSES for n in ns]


def run_shard(shard, tier, seed):
  acc = Acc()
  explore(shard[0], shard[1], acc)
  acc.add("configs", shard)
  return acc


def replay(case):
  cls, n = case["cls"], case["n"]
  top = make(cls, n)
  for l in case["hist"]: apply(top, tuple(l))
  c = canon(top)
  l = tuple(case["letter"])
  g = apply(top, l)
  post = canon(top)
  fails = step_fails(cls, n, c, l, g, post)
  if "requester" in case and not fails:
    # fairness counterexamples are re-derived by exploration, not by a single step
    acc = Acc()
    explore(cls, n, acc)
    fails = [(v["sig"], v["expected"], v["observed"], v["msg"]) for v in acc.violations if v["sig"].endswith("unfair")][:1]
  return fails


def finish(acc, tier):
  if acc.n["not_closed"]: raise MachineryError("BFS did not reach closure")
  if acc.n["states_pointer_wrapped"] < 2: raise MachineryError("pointer never reached the last requester: vacuous")
  return dict(
    states=int(acc.n["states"]), transitions=int(acc.n["transitions"]),
    traces_validated_against_impl=int(acc.n["executions"]),
    evaluations=int(acc.n["executions"]),
    distinct_nontrivial=acc.size("outcomes"),
    rule="state = priority register value; letters = every (reqs,en,reset) vector; one fresh elaboration + history replay per transition; "
         "non-trivial = distinct reachable (class, nreqs, pointer) states",
    exhaustive=True, closed=True,
    fairness_product_states=int(acc.n["fairness_product_states"]),
    fairness_worst_wait=sorted(acc.sets["worst"]),
    bounds=dict(nreqs=sorted({s[1] for s in acc.sets["configs"]}), classes=list(CLASSES)),
  )
