"""C05 -- slices, concat, extension, reduce and clog2 address exactly the named bits.

Bounded exhaustive enumeration against bit-level definitions on Python ints.
"""
import itertools

from vt.acc import Acc, MachineryError

PROPERTY = "C05"
LEVEL = "exploration"
ASSUMPTIONS = [
  "oracle: (x >> lo) mod 2^(hi-lo) on Python ints; frame condition on writes; clog2(N) == (N-1).bit_length()",
  "any exception type counts as 'raises an error'; after a rejected write the target must be unchanged",
  "a slice step of 0 is not in the alphabet (Python itself treats slice(a,b,0) as malformed)",
  "int values written into a w-bit slice follow the constructor range -2^(w-1)..2^w-1 (C04)",
  "zext/sext to a narrower width and trunc to a wider width are undefined at bit level: any outcome accepted",
]


def _bits(n, x):
  from pymtl3.datatypes import Bits
  return Bits(n, x)


def _bound(form, v, n):
  """Materialise a slice bound: form 'i' int, 'b' Bits wide enough, 'n' None."""
  if form == "n" or v is None: return None
  if form == "i": return v
  w = max(n.bit_length() + 1, 3)
  return _bits(w, v)                      # only called with 0 <= v < 2^w


def check_getslice(case):
  _, n, x, lo, hi, step, lf, hf = case
  a = _bits(n, x)
  L = 0 if lo is None else lo
  H = n if hi is None else hi
  valid = step is None and 0 <= L < H <= n
  try:
    r = a[slice(_bound(lf, lo, n), _bound(hf, hi, n), step)]
    exc = None
  except Exception as e:
    r, exc = None, e
  tag = _tag(lo, hi, step, n)
  fails = []
  if valid:
    want = (x >> L) & ((1 << (H - L)) - 1)
    if exc is not None: fails.append((f"getslice:{tag}:raised", want, repr(exc), f"Bits{n}({x})[{lo}:{hi}]"))
    elif r.nbits != H - L or int(r._uint) != want or not (0 <= int(r._uint) < (1 << (H - L))):
      fails.append((f"getslice:{tag}:wrong", (H - L, want), (r.nbits, int(r._uint)), f"Bits{n}({x})[{lo}:{hi}]"))
  elif exc is None:
    fails.append((f"getslice:{tag}:no-error", "IndexError", repr(r), f"Bits{n}({x})[{lo}:{hi}:{step}] forms {lf}{hf}"))
  if int(a._uint) != x: fails.append((f"getslice:{tag}:mutated", x, int(a._uint), ""))
  return fails


def _tag(lo, hi, step, n):
  if step is not None: return "stepped"
  L = 0 if lo is None else lo
  H = n if hi is None else hi
  if 0 <= L < H <= n: return "valid"
  if hi == 0: return "explicit-zero-stop"
  if L < 0 or H < 0: return "negative-bound"
  if H > n: return "stop-beyond-width"
  if L >= H: return "empty-or-reversed"
  return "invalid"


def check_setslice(case):
  _, n, x, lo, hi, step, lf, hf, vk, vw, vv = case       # vk 'B'/'I'
  a = _bits(n, x)
  L = 0 if lo is None else lo
  H = n if hi is None else hi
  boundsok = step is None and 0 <= L < H <= n
  w = H - L
  if vk == "B":
    val = _bits(vw, vv)
    valok = boundsok and vw == w
    vbits = vv
  else:
    val = vv
    valok = boundsok and -(1 << (w - 1)) <= vv <= (1 << w) - 1
    vbits = vv % (1 << w) if boundsok else 0
  try:
    a[slice(_bound(lf, lo, n), _bound(hf, hi, n), step)] = val
    exc = None
  except Exception as e:
    exc = e
  tag = _tag(lo, hi, step, n)
  got = int(a._uint)
  fails = []
  if valok:
    mask = ((1 << w) - 1) << L
    want = (x & ~mask) | (vbits << L)
    if exc is not None: fails.append((f"setslice:{tag}:raised", want, repr(exc), f"Bits{n}({x})[{lo}:{hi}]={vk}{vw}:{vv}"))
    elif got != want: fails.append((f"setslice:{tag}:wrong", want, got, f"Bits{n}({x})[{lo}:{hi}]={vk}{vw}:{vv}"))
  else:
    why = tag if not boundsok else "value-width"
    if exc is None: fails.append((f"setslice:{why}:no-error", "error", got, f"Bits{n}({x})[{lo}:{hi}:{step}]={vk}{vw}:{vv}"))
    elif got != x: fails.append((f"setslice:{why}:error-but-mutated", x, got, ""))
  return fails


def check_index(case):
  _, n, x, i, form, setv = case      # setv None -> read ; else ('I',v) / ('B',w,v)
  a = _bits(n, x)
  if form == "b" and i < 0: return []
  idx = i if form == "i" else (i + 0.5 if form == "f" else _bits(max(n.bit_length() + 1, 3), i))
  valid = 0 <= i < n and form != "f"          # form "f": the float i + 0.5 is not a bit position
  fails = []
  if setv is None:
    try: r, exc = a[idx], None
    except Exception as e: r, exc = None, e
    if valid:
      want = (x >> i) & 1
      if exc is not None: fails.append(("getbit:valid:raised", want, repr(exc), f"Bits{n}({x})[{i}]"))
      elif r.nbits != 1 or int(r._uint) != want: fails.append(("getbit:valid:wrong", want, repr(r), f"Bits{n}({x})[{i}]"))
    elif exc is None:
      fails.append((f"getbit:{'non-integral' if form == 'f' else 'negative' if i < 0 else 'beyond'}:no-error", "IndexError", repr(r), f"Bits{n}({x})[{idx}]"))
    return fails
  setv = tuple(setv)
  if setv[0] == "I":
    val, ok, bit = setv[1], valid and -1 <= setv[1] <= 1, setv[1] & 1
  else:
    val, ok, bit = _bits(setv[1], setv[2]), valid and setv[1] == 1, setv[2] & 1
  try: a[idx] = val; exc = None
  except Exception as e: exc = e
  got = int(a._uint)
  if ok:
    want = (x & ~(1 << i)) | (bit << i)
    if exc is not None: fails.append(("setbit:valid:raised", want, repr(exc), f"Bits{n}({x})[{i}]={setv}"))
    elif got != want: fails.append(("setbit:valid:wrong", want, got, f"Bits{n}({x})[{i}]={setv}"))
  else:
    why = "value" if valid else ("non-integral" if form == "f" else "negative" if i < 0 else "beyond")
    if exc is None: fails.append((f"setbit:{why}:no-error", "error", got, f"Bits{n}({x})[{i}]={setv}"))
    elif got != x: fails.append((f"setbit:{why}:error-but-mutated", x, got, ""))
  return fails


def check_helper(case):
  import pymtl3.datatypes as dt
  k = case[1]
  fails = []
  if k == "concat":
    ops = [tuple(o) for o in case[2]]
    objs = [_bits(n, x) for n, x in ops]
    want_n = sum(n for n, _ in ops)
    want = 0
    for n, x in ops: want = (want << n) | x
    try: r, exc = dt.concat(*objs), None
    except Exception as e: r, exc = None, e
    if want_n > 1023:
      if exc is None: fails.append(("concat:too-wide:no-error", "error", repr(r), ""))
    elif exc is not None: fails.append(("concat:raised", want, repr(exc), str(ops)))
    elif r.nbits != want_n or int(r._uint) != want: fails.append(("concat:wrong", (want_n, want), (r.nbits, int(r._uint)), str(ops)))
  elif k in ("zext", "sext", "trunc"):
    _, _, n, m, x, tform = case
    a = _bits(n, x)
    tgt = m if tform == "int" else dt.mk_bits(m)
    try: r, exc = getattr(dt, k)(a, tgt), None
    except Exception as e: r, exc = None, e
    if k == "trunc": ok, want = m <= n, x & ((1 << m) - 1)
    elif k == "zext": ok, want = m >= n, x
    else:
      ok = m >= n
      want = (x - (1 << n) if x >> (n - 1) else x) % (1 << m)
    if ok:
      if exc is not None: fails.append((f"{k}:raised", want, repr(exc), f"{k}(Bits{n}({x}),{m}) {tform}"))
      elif r.nbits != m or int(r._uint) != want: fails.append((f"{k}:wrong", (m, want), (r.nbits, int(r._uint)), f"{k}(Bits{n}({x}),{m}) {tform}"))
    # extending to a narrower / truncating to a wider width has no bit-level definition:
    # outside the property, any outcome is accepted (the property names no error for it)
    if int(a._uint) != x: fails.append((f"{k}:mutated", x, int(a._uint), ""))
  elif k == "reduce":
    _, _, n, x = case
    a = _bits(n, x)
    for nm, want in (("reduce_and", int(x == (1 << n) - 1)), ("reduce_or", int(x != 0)),
                     ("reduce_xor", bin(x).count("1") & 1)):
      try: r, exc = getattr(dt, nm)(a), None
      except Exception as e: r, exc = None, e
      if exc is not None: fails.append((f"{nm}:raised", want, repr(exc), f"Bits{n}({x})"))
      elif getattr(r, "nbits", None) != 1 or int(r) != want: fails.append((f"{nm}:wrong", want, repr(r), f"Bits{n}({x})"))
  elif k == "clog2":
    lo, hi = case[2], case[3]
    for N in range(lo, hi):
      f = _clog2(N)
      if f: fails.append(f)
      if len(fails) > 3: break
  elif k == "clog2pow":
    for kk in range(case[2], case[3]):
      for N in ((1 << kk) - 1, 1 << kk, (1 << kk) + 1):
        if N >= 1:
          f = _clog2(N)
          if f: fails.append(f)
  return fails


def _clog2(N):
  from pymtl3.datatypes import clog2
  want = (N - 1).bit_length()
  try: r = clog2(N)
  except Exception as e:
    return ("clog2:raised", want, repr(e), f"N={N if N < 1 << 64 else hex(N)[:20]}")
  if r == want and N < (1 << 1023):
    # the same number held in a fixed-width value
    from pymtl3.datatypes import Bits
    try: r = clog2(Bits(max(N.bit_length(), 1), N))
    except Exception as e:
      return ("clog2:bits-argument:raised", want, repr(e), f"N=Bits({N if N < 1 << 64 else hex(N)[:20]})")
    if r != want: return ("clog2:bits-argument:wrong", want, r, f"N=Bits{N.bit_length()}({N if N < 1 << 64 else hex(N)[:20]})")
  if r != want:
    k = N.bit_length() - 1
    shape = "2^k" if N == 1 << k else ("2^k+1" if N == (1 << k) + 1 else ("2^k-1" if N == (1 << (k + 1)) - 1 else "other"))
    return (f"clog2:wrong:{shape}", want, r, f"N={N if N < 1 << 64 else f'2^{k}..'}")
  return None


def check_case(case):
  case = tuple(case)
  k = case[0]
  if k == "getslice": return check_getslice(case)
  if k == "setslice": return check_setslice(case)
  if k == "index": return check_index(case)
  if k == "helper": return check_helper(case)
  raise KeyError(k)


# --------------------------------------------------------------- enumeration

def bounds_alphabet(n):
  return [None] + list(range(-2, n + 3))


def forms_for(v):
  if v is None: return ("n",)
  return ("i", "b") if v >= 0 else ("i",)


def gen_slices(n, values, sets=True):
  B = bounds_alphabet(n)
  for lo in B:
    for hi in B:
      for step in (None, 1, 2, 0):
        for lf in forms_for(lo):
          for hf in forms_for(hi):
            if step is not None and (lf, hf) != (forms_for(lo)[0], forms_for(hi)[0]): continue
            for x in values:
              yield ("getslice", n, x, lo, hi, step, lf, hf)
            if not sets: continue
            L = 0 if lo is None else lo
            H = n if hi is None else hi
            w = H - L
            xs = (values[0], values[-1], values[len(values) // 2])
            if 0 <= L < H <= n and step is None:
              vals = [("I", 0, v) for v in range(-(1 << (w - 1)) - 2, (1 << w) + 3)] if w <= 6 else \
                     [("I", 0, v) for v in (-(1 << (w - 1)) - 1, -(1 << (w - 1)), -1, 0, 1, (1 << w) - 1, 1 << w)]
              for vw in (w - 1, w, w + 1):
                if 1 <= vw <= 1023:
                  vs = range(1 << vw) if vw <= 5 else (0, 1, (1 << vw) - 1, 1 << (vw - 1))
                  vals += [("B", vw, v) for v in vs]
            else:
              ww = max(1, min(abs(w), n)) if w else 1
              vals = [("I", 0, 0), ("I", 0, 1), ("B", ww, 1), ("B", 1, 1), ("B", n, (1 << n) - 1)]
            for x in xs:
              for vk, vw, vv in vals:
                yield ("setslice", n, x, lo, hi, step, lf, hf, vk, vw, vv)


def gen_index(n, values):
  for i in range(-3, n + 3):
    for form in ("i", "b", "f"):
      if form == "f" and not -1 <= i <= n: continue
      for x in values:
        yield ("index", n, x, i, form, None)
      for x in (values[0], values[-1], values[len(values) // 2]):
        for v in (-2, -1, 0, 1, 2): yield ("index", n, x, i, form, ("I", v))
        for bw, bv in ((1, 0), (1, 1), (2, 1), (2, 3)): yield ("index", n, x, i, form, ("B", bw, bv))


def wide_values(n):
  M = 1 << n
  alt = int("01" * n, 2) & (M - 1)
  return [0, alt, M - 1]


def gen_wide(n):
  vals = wide_values(n)
  Bn = [None, -1, 0, 1, 2, n // 2, n - 1, n, n + 1]
  for lo in Bn:
    for hi in Bn:
      for lf in forms_for(lo):
        for hf in forms_for(hi):
          for x in vals:
            yield ("getslice", n, x, lo, hi, None, lf, hf)
          L = 0 if lo is None else lo
          H = n if hi is None else hi
          w = H - L
          if 0 <= L < H <= n:
            for vk, vw, vv in (("I", 0, 0), ("I", 0, (1 << w) - 1), ("I", 0, 1 << w), ("I", 0, -1),
                               ("B", w, (1 << w) - 1), ("B", w, 0)) + ((("B", w + 1, 1),) if w < 1023 else ()) + ((("B", w - 1, 1),) if w > 1 else ()):
              for x in vals: yield ("setslice", n, x, lo, hi, None, lf, hf, vk, vw, vv)
          else:
            for x in vals:
              yield ("setslice", n, x, lo, hi, None, lf, hf, "I", 0, 0)
              yield ("setslice", n, x, lo, hi, None, lf, hf, "B", 1, 1)
  for i in (-1, 0, 1, n - 1, n, n + 1):
    for form in ("i", "b"):
      for x in vals:
        yield ("index", n, x, i, form, None)
        yield ("index", n, x, i, form, ("I", 1)); yield ("index", n, x, i, form, ("I", 0))
  for m in (1, n - 1, n, n + 1, 1023):
    if 1 <= m <= 1023:
      for x in vals:
        for k in ("zext", "sext", "trunc"):
          for tf in ("int", "type"): yield ("helper", k, n, m, x, tf)
  for x in vals: yield ("helper", "reduce", n, x)
  yield ("helper", "concat", [(n, vals[1]), (1, 1)])
  yield ("helper", "concat", [(1, 1), (n, vals[1])]) if n < 1023 else ("helper", "concat", [(n, 1)])


def gen_helpers(W):
  ws = (1, 2, 3) if W <= 6 else (1, 2, 3, 4)
  for k in (1, 2, 3):
    for widths in itertools.product(ws, repeat=k):
      for vals in itertools.product(*[range(1 << w) for w in widths]):
        yield ("helper", "concat", list(zip(widths, vals)))
  if W > 6:      # four operands over the small widths
    for widths in itertools.product((1, 2, 3), repeat=4):
      for vals in itertools.product(*[range(1 << w) for w in widths]):
        yield ("helper", "concat", list(zip(widths, vals)))
  for n in range(1, W + 1):
    for m in range(1, W + 2):
      for x in range(1 << n):
        for k in ("zext", "sext", "trunc"):
          for tf in ("int", "type"): yield ("helper", k, n, m, x, tf)
  for n in range(1, 9 if W <= 6 else 13):
    for x in range(1 << n): yield ("helper", "reduce", n, x)


WIDE = (8, 31, 32, 33, 64, 65, 512, 1023)


def shards(tier):
  if tier == "quick":
    S = [("slices", n) for n in range(1, 7)] + [("slices", 7, c, 4) for c in range(4)] + [("index", n) for n in range(1, 8)]
    S += [("wide", n) for n in WIDE] + [("helpers", 6)]
    top, nsh = 1 << 17, 16
  else:
    S = [("slices", n) for n in range(1, 8)] + [("slices", n, c, 16) for n in range(8, 12) for c in range(16)] + [("slices", n, c, 64) for n in (12, 13) for c in range(64)]
    S += [("index", n) for n in range(1, 13)]
    S += [("wide", n) for n in range(8, 1024)] + [("helpers", 9)]
    top, nsh = 1 << 24, 64
  step = top // nsh
  S += [("clog2", lo, min(lo + step, top + 1)) for lo in range(1, top + 1, step)]
  S += [("clog2pow", lo, lo + 100) for lo in range(0, 1100, 100)]
  return S


def gen(shard):
  k = shard[0]
  if k == "slices":
    vals = list(range(1 << shard[1]))
    if len(shard) == 4: vals = vals[shard[2]::shard[3]]
    return gen_slices(shard[1], vals)
  if k == "index": return gen_index(shard[1], list(range(1 << shard[1])))
  if k == "wide": return gen_wide(shard[1])
  if k == "helpers": return gen_helpers(shard[1])
  if k == "clog2": return [("helper", "clog2", shard[1], shard[2])]
  if k == "clog2pow": return [("helper", "clog2pow", shard[1], shard[2])]
  raise KeyError(k)


def _nontrivial(case):
  k = case[0]
  if k in ("getslice", "setslice"):
    _, n, x, lo, hi = case[:5]
    return not (lo in (None, 0) and hi in (None, n)) or case[5] is not None
  if k == "index": return True
  if k == "helper":
    if case[1] in ("zext", "sext", "trunc"): return case[2] != case[3]
    if case[1] == "concat": return len(case[2]) > 1
    return True
  return False


def run_shard(shard, tier, seed):
  acc = Acc()
  i = 0
  for case in gen(shard):
    fails = check_case(case)
    if case[1] == "clog2": acc.count("evaluations", case[3] - case[2]); acc.count("nontrivial", case[3] - case[2])
    elif case[1] == "clog2pow": acc.count("evaluations", 3 * (case[3] - case[2])); acc.count("nontrivial", 3 * (case[3] - case[2]))
    else:
      acc.count("evaluations")
      if _nontrivial(case): acc.count("nontrivial")
    acc.count("cases_" + case[0])
    for f in fails:
      acc.violation(f[0], list(case), f[1], f[2], f[3])
    if i in (11, 4001): acc.sample(list(case))
    i += 1
  return acc


def replay(case):
  return check_case(case)


def finish(acc, tier):
  if acc.n["evaluations"] == 0: raise MachineryError("nothing evaluated")
  return dict(
    evaluations=int(acc.n["evaluations"]),
    distinct_nontrivial=int(acc.n["nontrivial"]),
    rule="each case is one distinct (operation, width, value, bounds, bound-form, written value) tuple; non-trivial = "
         "the selection is a proper part of the word, a bound is invalid/explicit, a step is present, widths differ "
         "(extension/truncation), >=2 concat operands, or any clog2/reduce argument",
    exhaustive=True,
    bounds=dict(full_widths=7 if tier == "quick" else 13, bound_values="None,-2..n+2 as int and Bits",
                wide_widths=list(WIDE) if tier == "quick" else "every width 8..1023", clog2_range=f"1..2^{17 if tier == 'quick' else 24} and 2^k-1,2^k,2^k+1 for k<1100"),
  )
