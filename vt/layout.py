"""E4 -- bitstruct packing specification (independent of pymtl3).

Type description:  ("B", n) | ("S", name, ((field, T), ...)) | ("L", T, n)   (same as vt/ir.py)
Value tree:        int | {field: tree} | [tree, ...]
Layout: first field most significant; list element 0 least significant inside
its field; total width = sum of leaf widths.
"""


def width(t):
  if t[0] == "B": return t[1]
  if t[0] == "S": return sum(width(ft) for _, ft in t[2])
  return t[2] * width(t[1])


def pack(t, v):
  if t[0] == "B": return v & ((1 << t[1]) - 1)
  if t[0] == "S":
    out = 0
    for fn, ft in t[2]:
      out = (out << width(ft)) | pack(ft, v[fn])
    return out
  out = 0
  w = width(t[1])
  for k in reversed(range(t[2])):        # element 0 ends up least significant
    out = (out << w) | pack(t[1], v[k])
  return out


def unpack(t, b):
  if t[0] == "B": return b & ((1 << t[1]) - 1)
  if t[0] == "S":
    out = {}
    rest = width(t)
    for fn, ft in t[2]:
      w = width(ft)
      rest -= w
      out[fn] = unpack(ft, (b >> rest) & ((1 << w) - 1))
    return out
  w = width(t[1])
  return [unpack(t[1], (b >> (k * w)) & ((1 << w) - 1)) for k in range(t[2])]


def leaf_paths(t, prefix=()):
  """Paths (tuples of field names / indices) to every Bits leaf, with widths, in MSB-first order."""
  if t[0] == "B":
    yield prefix, t[1]
  elif t[0] == "S":
    for fn, ft in t[2]: yield from leaf_paths(ft, prefix + (fn,))
  else:
    for k in reversed(range(t[2])): yield from leaf_paths(t[1], prefix + (k,))


def get(v, path):
  for p in path: v = v[p]
  return v


def put(v, path, x):
  for p in path[:-1]: v = v[p]
  v[path[-1]] = x
