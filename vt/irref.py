"""E2 -- reference semantics of the design IR (shares no code with pymtl3).

State: {instance key -> packed int}. Combinational settle = run every comb
block and every (oriented) connection until nothing changes; the fixed point
of a single-driver, acyclic, total design is unique and is additionally
re-derived in reverse order as a self-check. Tick = every ff block evaluated on
the pre-edge state, last assignment wins, commit at once, settle.
"""
from vt import ir
from vt.acc import MachineryError


class NotConverged(Exception):
  pass


def mask(w): return (1 << w) - 1


class RefSim:
  def __init__(self, top, check_unique=True):
    self.top = top
    self.inst = ir.instances(top)
    self.state = {k: 0 for k in self.inst}
    self.comb, self.ff = [], []
    for path, cmp in ir.walk_comps(top):
      for blk in cmp.get("blocks", []):
        (self.ff if blk[1] == "ff" else self.comb).append((path, blk))
    self.conns = self._orient()
    self.check_unique = check_unique
    self.inputs = [k for k in self.inst if k[0] == () and (k[1] == "reset" or ir.sig_decl(top, k[1])[1] == "in")]

  # ---------------------------------------------------------------- connections
  def _orient(self):
    top = self.top
    driven = set()
    for path, blk in self.comb + self.ff:
      driven |= ir.block_bits(top, path, blk)[1]
    for name, kind, t, dims in top["sigs"]:
      if kind == "in":
        driven |= ir.ref_bits(top, (), ir.ref(name))
    driven.add((((), "reset", ()), 0))
    pend = []
    for path, cmp in ir.walk_comps(top):
      for a, b in cmp.get("connects", []):
        pend.append((path, a, b))
    out = []
    progress = True
    while pend and progress:
      progress = False
      rest = []
      for path, a, b in pend:
        if a[0] != "ref": a, b = b, a           # constant written on the left-hand side
        if b[0] != "ref":
          ba = ir.ref_bits(top, path, a)
          if ba & driven: raise MachineryError(f"generator bug: constant connected to driven bits: {a}")
          out.append((path, a, b)); driven |= ba; progress = True
          continue
        ba, bb = ir.ref_bits(top, path, a), ir.ref_bits(top, path, b)
        da, db = ba <= driven, bb <= driven
        if da and not db:
          if bb & driven: raise MachineryError(f"generator bug: connection into partly driven bits: {b}")
          out.append((path, b, a)); driven |= bb; progress = True
        elif db and not da:
          if ba & driven: raise MachineryError(f"generator bug: connection into partly driven bits: {a}")
          out.append((path, a, b)); driven |= ba; progress = True
        elif da and db: raise MachineryError(f"generator bug: both sides of a connection are driven: {a} {b}")
        else: rest.append((path, a, b))
      pend = rest
    if pend:
      raise MachineryError(f"generator bug: connection without driver: {pend[0]}")
    return out

  # ---------------------------------------------------------------- evaluation
  def resolve(self, cpath, r, env, st):
    _, path, name, acc = r
    if name in ("reset", "clk"): return ((), name, ()), 0, 1, ir.B(1)
    ap = tuple(cpath) + tuple(path)
    cmp = ir.comp_at(self.top, ap)
    _, kind, t, dims = ir.sig_decl(cmp, name)
    acc = list(acc)
    idx = []
    for d in dims:
      a = acc.pop(0)
      if a[0] == "i": idx.append(a[1])
      else:
        v = self.ev(cpath, a[1], env, st)[0]
        if not 0 <= v < d: raise IndexError(f"list index {v} out of range")
        idx.append(v)
    lo, hi, cur = 0, ir.width(t), t
    for a in acc:
      k = a[0]
      if k == "f": l, h, cur = ir.field_range(cur, a[1])
      elif k == "i": l, h, cur = ir.elem_range(cur, a[1])
      elif k == "v":
        v = self.ev(cpath, a[1], env, st)[0]
        if not 0 <= v < cur[2]: raise IndexError(f"list index {v} out of range")
        l, h, cur = ir.elem_range(cur, v)
      elif k == "s": l, h, cur = a[1], a[2], ir.B(a[2] - a[1])
      elif k == "b": l, h, cur = a[1], a[1] + 1, ir.B(1)
      elif k == "vb":
        v = self.ev(cpath, a[1], env, st)[0]
        if not 0 <= v < hi - lo: raise IndexError(f"bit index {v} out of range")
        l, h, cur = v, v + 1, ir.B(1)
      lo, hi = lo + l, lo + h
    return (ap, name, tuple(idx)), lo, hi, cur

  def ev(self, cpath, e, env, st):
    k = e[0]
    if k == "ref":
      key, lo, hi, t = self.resolve(cpath, e, env, st)
      return (st[key] >> lo) & mask(hi - lo), hi - lo
    if k == "c": return e[2] & mask(e[1]), e[1]
    if k == "i": return e[1], None
    if k in ("lv", "tv"): return env[e[1]]
    if k == "un":
      v, w = self.ev(cpath, e[2], env, st)
      if e[1] == "~": return (~v) & mask(w), w
      raise KeyError(e[1])
    if k == "ife":
      cv, _ = self.ev(cpath, e[1], env, st)
      return self.ev(cpath, e[2] if cv else e[3], env, st)
    if k == "bin":
      op = e[1]
      a, wa = self.ev(cpath, e[2], env, st)
      b, wb = self.ev(cpath, e[3], env, st)
      if op in ("<<", ">>"):
        w = wa
        if op == "<<": r = 0 if (w is not None and b >= w) else a << b
        else: r = a >> b
        return (r & mask(w), w) if w is not None else (r, None)
      w = wa if wa is not None else wb
      if wa is not None and wb is not None and wa != wb:
        raise MachineryError(f"generator bug: width mismatch {wa} vs {wb} in {e}")
      if op in ("==", "!=", "<", "<=", ">", ">="):
        r = {"==": a == b, "!=": a != b, "<": a < b, "<=": a <= b, ">": a > b, ">=": a >= b}[op]
        return int(r), 1
      r = {"+": a + b, "-": a - b, "*": a * b, "&": a & b, "|": a | b, "^": a ^ b}[op]
      return (r & mask(w), w) if w is not None else (r, None)
    if k == "call":
      fn = e[1]
      if fn in ("zext", "sext", "trunc"):
        v, w = self.ev(cpath, e[2], env, st)
        n = e[3][1]
        if fn == "zext": return v, n
        if fn == "trunc": return v & mask(n), n
        return ((v - (1 << w)) if v >> (w - 1) else v) & mask(n), n
      if fn.startswith("Bits"):               # size cast BitsN( e ): zero-extends or truncates
        v, w = self.ev(cpath, e[2], env, st)
        n = int(fn[4:])
        return v & mask(n), n
      if fn == "concat":
        val, tw = 0, 0
        for a in e[2:]:
          v, w = self.ev(cpath, a, env, st)
          val, tw = (val << w) | v, tw + w
        return val, tw
      v, w = self.ev(cpath, e[2], env, st)
      if fn == "reduce_and": return int(v == mask(w)), 1
      if fn == "reduce_or": return int(v != 0), 1
      if fn == "reduce_xor": return bin(v).count("1") & 1, 1
      raise KeyError(fn)
    if k == "lst":
      val, tw = 0, 0
      for a in reversed(e[1:]):             # element 0 is least significant
        v, w = self.ev(cpath, a, env, st)
        val, tw = (val << w) | v, tw + w
      return val, tw
    if k == "st":
      t = self._structs()[e[1]]
      val = 0
      for (fn, ft), a in zip(t[2], e[2:]):
        v, w = self.ev(cpath, a, env, st)
        fw = ir.width(ft)
        val = (val << fw) | (v & mask(fw))
      return val, ir.width(t)
    raise KeyError(e)

  def _structs(self):
    if not hasattr(self, "_st"):
      self._st = {}
      def rec(t):
        if t[0] == "S":
          self._st[t[1]] = t
          for _, ft in t[2]: rec(ft)
        elif t[0] == "L": rec(t[1])
      for t in self.inst.values(): rec(t)
    return self._st

  def run(self, cpath, stmts, env, rd, wr, ff=False):
    for s in stmts:
      k = s[0]
      if k == "=":
        key, lo, hi, t = self.resolve(cpath, s[1], env, rd)
        v, w = self.ev(cpath, s[2], env, rd)
        W = hi - lo
        if w is not None and w != W:
          raise MachineryError(f"generator bug: assigning width {w} to {W}: {s}")
        v &= mask(W)
        base = wr.get(key, rd[key]) if ff else wr[key]
        wr[key] = (base & ~(mask(W) << lo)) | (v << lo)
      elif k == "tmp": env[s[1]] = self.ev(cpath, s[2], env, rd)
      elif k == "if":
        cv, _ = self.ev(cpath, s[1], env, rd)
        self.run(cpath, s[2] if cv else s[3], env, rd, wr, ff)
      elif k == "for":
        for i in range(s[2], s[3]):
          env[s[1]] = (i, None)
          self.run(cpath, s[4], env, rd, wr, ff)

  def _conn(self, cpath, dst, src, st):
    key, lo, hi, t = self.resolve(cpath, dst, {}, st)
    v, w = self.ev(cpath, src, {}, st)
    W = hi - lo
    if w is not None and w != W: raise MachineryError(f"generator bug: connection width {w} vs {W}")
    st[key] = (st[key] & ~(mask(W) << lo)) | ((v & mask(W)) << lo)

  def _pass(self, st, order):
    for kind, cpath, item in order:
      if kind == "b": self.run(cpath, item[2], {}, st, st)
      else: self._conn(cpath, item[0], item[1], st)

  def settle_state(self, st, reverse=False, cap=None):
    order = [("b", p, b) for p, b in self.comb] + [("c", p, (d, s)) for p, d, s in self.conns]
    if reverse: order.reverse()
    cap = cap or len(order) + 3
    for _ in range(cap):
      before = dict(st)
      self._pass(st, order)
      if st == before: return st
    raise NotConverged()

  def settle(self):
    if self.check_unique:
      alt = self.settle_state(dict(self.state), reverse=True)
    self.settle_state(self.state)
    if self.check_unique and alt != self.state:
      raise MachineryError("reference fixed point depends on evaluation order (generator bug: design not single-driver/total/acyclic)")

  def set_inputs(self, values):
    """values: {signal name or key: int} for top-level inputs (and 'reset')."""
    for k, v in values.items():
      key = k if isinstance(k, tuple) else ((), k, ())
      self.state[key] = v & mask(ir.width(self.inst[key]))

  def tick(self):
    self.settle()
    pre = dict(self.state)
    nxt = {}
    for cpath, blk in self.ff:
      self.run(cpath, blk[2], {}, pre, nxt, ff=True)
    self.state.update(nxt)
    self.settle()

  def obs(self):
    return dict(self.state)
