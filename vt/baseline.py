"""Run the repository's own test suite on a tree and compare with BASELINE.json.

  python -m vt.baseline [tree=/repo] [--jobs 12] [--only substr,...]

The suite is split by test file over worker processes (no xdist in the image);
test ids are <classname>::<name> as in the baseline's junit parser. Exit 0 iff
every test of BASELINE.stable_pass that was selected passed.
"""
import glob
import json
import os
import subprocess
import sys
import tempfile
import xml.etree.ElementTree as ET


def parse(files):
  passed, failed = set(), set()
  for fn in files:
    try: root = ET.parse(fn).getroot()
    except Exception: continue
    for tc in root.iter("testcase"):
      tid = (tc.get("classname") or "") + "::" + (tc.get("name") or "")
      if tc.find("failure") is not None or tc.find("error") is not None: failed.add(tid)
      elif tc.find("skipped") is not None: pass
      else: passed.add(tid)
  return passed - failed, failed


def _untracked(tree):
  r = subprocess.run(["git", "-C", tree, "ls-files", "--others", "--exclude-standard"], capture_output=True, text=True)
  return set(r.stdout.split("\n")) - {""} if r.returncode == 0 else set()


def main(argv):
  tree = "/repo"
  jobs = 12
  only = None
  args = list(argv)
  while args:
    a = args.pop(0)
    if a == "--jobs": jobs = int(args.pop(0))
    elif a == "--only": only = args.pop(0).split(",")
    else: tree = a
  tree = os.path.abspath(tree)
  base = json.load(open("/root/.vp/BASELINE.json"))
  stable = set(base["stable_pass"])
  files = sorted(glob.glob(os.path.join(tree, "**", "*_test.py"), recursive=True))
  files = [os.path.relpath(f, tree) for f in files]
  if only:
    files = [f for f in files if any(o in f for o in only)]
  env = dict(os.environ)
  env.pop("PYMTL3_VERIF", None)
  env["PYTHONDONTWRITEBYTECODE"] = "1"
  env.pop("PYTHONPATH", None)
  r = subprocess.run(["/venv/bin/python", "-B", "-c", "import pymtl3;print(pymtl3.__file__)"],
                     cwd=tree, env=env, capture_output=True, text=True)
  where = r.stdout.strip()
  if not where.startswith(tree + "/"):
    print(f"baseline: pymtl3 imported from {where}, not from {tree}")
    return 2
  untracked_before = _untracked(tree)
  groups = [files[i::jobs] for i in range(jobs)]
  out = tempfile.mkdtemp(prefix="vt-baseline-", dir="/var/tmp")
  procs = []
  for i, g in enumerate(groups):
    if not g: continue
    xml = os.path.join(out, f"r{i}.xml")
    log = open(os.path.join(out, f"r{i}.log"), "w")
    cmd = ["/venv/bin/python", "-B", "-m", "pytest", "-q", "-p", "no:cacheprovider", "--timeout=900",
           "--continue-on-collection-errors", f"--junitxml={xml}"] + g
    procs.append((subprocess.Popen(cmd, cwd=tree, env=env, stdout=log, stderr=subprocess.STDOUT), xml))
  for p, _ in procs: p.wait()
  passed, failed = parse([x for _, x in procs])
  selected = stable
  if only:
    mods = {f[:-3].replace("/", ".") for f in files}
    selected = {t for t in stable if any(t.startswith(m + "::") or t.startswith(m + ".") for m in mods)}
  missing = sorted(selected - passed)
  if missing and len(missing) <= 40:
    # a few tests are flaky under parallel load (they share generated files in the cwd): retry their files serially
    mods = sorted({t.split("::")[0] for t in missing})
    refiles = sorted({f for f in files for m in mods if m.startswith(f[:-3].replace("/", "."))})
    xml = os.path.join(out, "retry.xml")
    subprocess.run(["/venv/bin/python", "-B", "-m", "pytest", "-q", "-p", "no:cacheprovider", "--timeout=900",
                    "--continue-on-collection-errors", f"--junitxml={xml}"] + refiles, cwd=tree, env=env,
                   stdout=subprocess.DEVNULL, stderr=subprocess.STDOUT)
    p2, f2 = parse([xml])
    print(f"baseline: retried {len(refiles)} files serially for {len(missing)} tests: {len(set(missing) & p2)} now pass")
    passed |= p2
    missing = sorted(selected - passed)
  newpass = sorted(passed - stable)
  print(f"baseline: tree={tree} files={len(files)} passed={len(passed)} failed={len(failed)} "
        f"stable_selected={len(selected)} stable_not_passing={len(missing)} newly_passing={len(newpass)}")
  for t in missing[:30]: print("  NOT PASSING:", t)
  import shutil
  shutil.rmtree(out, ignore_errors=True)
  # the tests write generated files (*.v, *.vcd ...) into the cwd, which is the tree: remove what they added, so that a later
  # "git add" in the tree cannot pick them up
  for f in sorted(_untracked(tree) - untracked_before):
    try: os.remove(os.path.join(tree, f))
    except OSError: pass
  return 1 if missing else 0


if __name__ == "__main__":
  sys.exit(main(sys.argv[1:]))
