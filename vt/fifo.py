"""E4 -- FIFO specification with exact same-cycle ready/valid equations.

State: a Python list (head first). One cycle:

  step(kind, cap, q, e, m, d) -> dict(enq_rdy, deq_val, deq_msg, enq_fire, deq_fire, q2)

  e  the producer offers message m this cycle (val, or en-if-rdy)
  d  the consumer is willing to take a message this cycle (rdy, or en-if-rdy)

  normal : enq_rdy = not full            deq_val = not empty
  pipe   : enq_rdy = not full or a dequeue happens this cycle
  bypass : deq_val = not empty or an enqueue is offered this cycle (the
           message then passes through combinationally)
"""


def step(kind, cap, q, e, m, d):
  if kind == "bypass-chain2":
    return _chain2(q, e, m, d)
  n = len(q)
  if kind == "normal":
    enq_rdy, deq_val = n < cap, n > 0
  elif kind == "pipe":
    deq_val = n > 0
    enq_rdy = n < cap or (deq_val and d)
  elif kind == "bypass":
    enq_rdy = n < cap
    deq_val = n > 0 or (e and enq_rdy)
  else:
    raise KeyError(kind)
  enq_fire = bool(e and enq_rdy)
  deq_fire = bool(d and deq_val)
  deq_msg = (q[0] if n > 0 else m) if deq_val else None
  q2 = list(q)
  if deq_fire and n > 0:
    q2.pop(0)
    if enq_fire: q2.append(m)
  elif deq_fire:            # bypass through an empty queue
    pass
  elif enq_fire:
    q2.append(m)
  return dict(enq_rdy=int(bool(enq_rdy)), deq_val=int(bool(deq_val)), deq_msg=deq_msg,
              enq_fire=int(enq_fire), deq_fire=int(deq_fire), q2=q2, count=n)


def _chain2(q, e, m, d):
  """Two 1-entry bypass stages in series. q is a list of (stage, msg) with stage 2
  (output side) entries first; the abstract content is the messages in order."""
  s2 = [x[1] for x in q if x[0] == 2]
  s1 = [x[1] for x in q if x[0] == 1]
  rdy2 = len(s2) < 1
  a = step("bypass", 1, s1, e, m, rdy2)
  b = step("bypass", 1, s2, a["deq_fire"], a["deq_msg"], d)
  q2 = [(2, x) for x in b["q2"]] + [(1, x) for x in a["q2"]]
  return dict(enq_rdy=a["enq_rdy"], deq_val=b["deq_val"], deq_msg=b["deq_msg"], enq_fire=a["enq_fire"],
              deq_fire=b["deq_fire"], q2=q2, count=len(q))
