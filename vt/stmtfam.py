"""Statement / construct family for the translation checks (C03 / C12): hand-written PyMTL components, each with an
independent reference function in plain Python ints, covering translator paths the design IR cannot express:
variable indices on the left side, loop-variable part selects, nested / strided / descending loops, if inside for,
elif chains, free variables (ints, Bits, lists, bitstruct instances), struct construction inside a block, struct and
list registers, register files, children and interfaces driven from blocks, constructor parameters, boolean operators,
lambda connections.

Every design has the inputs a, b : Bits8, sel : Bits2, en : Bits1 (+ clk/reset) and Bits outputs (or lists of them).
REF[name](state, a, b, sel, en, reset) -> (state', {output name: value}) gives the outputs AFTER one sim_tick that was
started with those inputs and register state `state` (state None = all registers zero).
Three parties are compared every tick: PyMTL simulation, the interpreted translation, the reference function.
"""
from pymtl3 import *

M8 = 0xFF
DESIGNS = {}
REF = {}


def design(ref):
  def deco(cls):
    DESIGNS[cls.__name__] = cls
    REF[cls.__name__] = ref
    return cls
  return deco


def bit(x, i): return (x >> i) & 1


class Base(Component):
  def ports(s):
    s.a = InPort(Bits8)
    s.b = InPort(Bits8)
    s.sel = InPort(Bits2)
    s.en = InPort(Bits1)


@bitstruct
class Pst:
  x: Bits4
  y: Bits4


@bitstruct
class Qst:
  p: Pst
  z: Bits2


# ------------------------------------------------------------------ left-hand sides

def _lhs_var_idx(n):
  def ref(st, a, b, sel, en, reset):
    k = sel if n == 4 else sel & 1
    return None, {f"out[{i}]": (a if i == k else b) for i in range(n)}
  return ref


def mk_lhs_var_idx(n):
  class LhsVarIdx(Base):
    def construct(s):
      s.ports()
      s.out = [OutPort(Bits8) for _ in range(n)]
      if n == 4:
        @update
        def up_lvi4():
          for i in range(n):
            s.out[i] @= s.b
          s.out[s.sel] @= s.a
      else:
        @update
        def up_lvi2():
          for i in range(n):
            s.out[i] @= s.b
          s.out[s.sel[0]] @= s.a
  LhsVarIdx.__name__ = f"LhsVarIdx{n}"
  return design(_lhs_var_idx(n))(LhsVarIdx)


mk_lhs_var_idx(2); mk_lhs_var_idx(4)


@design(lambda st, a, b, sel, en, reset: (None, {"o": (b & ~(1 << (a & 7)) & M8) | (en << (a & 7))}))
class LhsVarBit(Base):
  def construct(s):
    s.ports()
    s.o = OutPort(Bits8)

    @update
    def up_lvb():
      s.o @= s.b
      s.o[s.a[0:3]] @= s.en


def _chunks_rev(w):
  def ref(st, a, b, sel, en, reset):
    n = 8 // w
    o = 0
    for i in range(n):
      o |= ((a >> ((n - 1 - i) * w)) & ((1 << w) - 1)) << (i * w)
    return None, {"o": o}
  return ref


def mk_lhs_loop_part(w):
  n = 8 // w

  class LhsLoopPart(Base):
    def construct(s):
      s.ports()
      s.o = OutPort(Bits8)

      @update
      def up_llp():
        for i in range(n):
          s.o[i * w:i * w + w] @= s.a[(n - 1 - i) * w:(n - 1 - i) * w + w]
  LhsLoopPart.__name__ = f"LhsLoopPart{w}"
  return design(_chunks_rev(w))(LhsLoopPart)


mk_lhs_loop_part(2); mk_lhs_loop_part(4)


@design(lambda st, a, b, sel, en, reset: (None, {"o": ((a & 0xF) << 4) | (b >> 4), "q": ((b & 3) << 2 | (a >> 6)) ^ (0xF if en else 0)}))
class LhsFields(Base):
  """struct wire written field by field (and a nested one), read as a whole and by field"""
  def construct(s):
    s.ports()
    s.w = Wire(Pst)
    s.n = Wire(Qst)
    s.o = OutPort(Bits8)
    s.q = OutPort(Bits4)

    @update
    def up_lf1():
      s.w.x @= s.a[0:4]
      s.w.y @= s.b[4:8]
      s.n.p.x @= s.b[0:4]
      s.n.p.y @= s.a[4:8]
      s.n.z @= s.a[6:8]

    @update
    def up_lf2():
      s.o @= concat(s.w.x, s.w.y)
      if s.en:
        s.q @= ~concat(s.n.p.x[0:2], s.n.z)
      else:
        s.q @= concat(s.n.p.x[0:2], s.n.z)


# ------------------------------------------------------------------ control flow

def _nested(n, m):
  def ref(st, a, b, sel, en, reset):
    o = 0
    for i in range(n):
      for j in range(m):
        o |= (bit(a, i) ^ bit(b, j)) << (i * m + j)
    return None, {"o": o}
  return ref


def mk_nested_for(n, m):
  class NestedFor(Base):
    def construct(s):
      s.ports()
      s.o = OutPort(Bits8)

      @update
      def up_nf():
        s.o @= 0
        for i in range(n):
          for j in range(m):
            s.o[i * m + j] @= s.a[i] ^ s.b[j]
  NestedFor.__name__ = f"NestedFor{n}x{m}"
  return design(_nested(n, m))(NestedFor)


mk_nested_for(2, 4); mk_nested_for(4, 2); mk_nested_for(2, 3)


@design(lambda st, a, b, sel, en, reset: (None, {"o": bin(a).count("1"), "p": sum(1 for i in range(8) if bit(a, i) and not bit(b, i))}))
class IfInFor(Base):
  """population count by conditional accumulation (block reads what it wrote)"""
  def construct(s):
    s.ports()
    s.o = OutPort(Bits8)
    s.p = OutPort(Bits4)

    @update
    def up_iif():
      s.o @= 0
      s.p @= 0
      for i in range(8):
        if s.a[i]:
          s.o @= s.o + 1
          if ~s.b[i]:
            s.p @= s.p + 1


def _for_step(lo, hi, st_):
  def ref(st, a, b, sel, en, reset):
    o = b
    for i in range(lo, hi, st_):
      o = (o & ~(1 << i)) | (bit(a, 7 - i) << i)
    return None, {"o": o & M8}
  return ref


def mk_for_step(lo, hi, st_):
  class ForStep(Base):
    def construct(s):
      s.ports()
      s.o = OutPort(Bits8)

      @update
      def up_fs():
        s.o @= s.b
        for i in range(lo, hi, st_):
          s.o[i] @= s.a[7 - i]
  ForStep.__name__ = f"ForStep_{lo}_{hi}_{st_}".replace("-", "m")
  return design(_for_step(lo, hi, st_))(ForStep)


for _r in ((0, 8, 2), (1, 8, 3), (7, -1, -1), (6, -1, -2), (7, 2, -3), (2, 6, 1), (5, 1, -1)):
  mk_for_step(*_r)


def _elif_ref(st, a, b, sel, en, reset):
  if sel == 0: o = a
  elif sel == 1: o = (a + b) & M8
  elif sel == 2 and en: o = (a - b) & M8
  else: o = 0x3C
  return None, {"o": o}


@design(_elif_ref)
class ElifChain(Base):
  def construct(s):
    s.ports()
    s.o = OutPort(Bits8)

    @update
    def up_elif():
      if s.sel == 0:
        s.o @= s.a
      elif s.sel == 1:
        s.o @= s.a + s.b
      elif (s.sel == 2) & s.en:
        s.o @= s.a - s.b
      else:
        s.o @= 0x3C


@design(lambda st, a, b, sel, en, reset: (None, {"o": a if en else (b if sel == 1 else 7), "p": 1 if (a > 3 and en) or b == 0 else 0, "q": 0 if a else 1}))
class TernaryBits(Base):
  """nested conditional expressions; conditions combined with bitwise operators on Bits1"""
  def construct(s):
    s.ports()
    s.o = OutPort(Bits8)
    s.p = OutPort(Bits1)
    s.q = OutPort(Bits1)

    @update
    def up_tb():
      s.o @= s.a if s.en else (s.b if s.sel == 1 else 7)
      if ((s.a > 3) & s.en) | (s.b == 0):
        s.p @= 1
      else:
        s.p @= 0
      s.q @= 0
      if ~(s.a != 0):
        s.q @= 1


@design(lambda st, a, b, sel, en, reset: (None, {"p": 1 if (a > 3 and en) or b == 0 else 0}))
class BoolOps(Base):
  """Python and / or / not (the translator refuses them; the simulation is still compared with the reference)"""
  def construct(s):
    s.ports()
    s.p = OutPort(Bits1)

    @update
    def up_bo():
      if ((s.a > 3) and s.en) or (not (s.b != 0)):
        s.p @= 1
      else:
        s.p @= 0


@design(lambda st, a, b, sel, en, reset: (None, {"o": (a << sel) & M8, "p": a >> (b & 7), "q": ((a < b) & (sel == 2)) | ((a >= b) & en), "r": (a * b) & M8}))
class ShiftCmp(Base):
  def construct(s):
    s.ports()
    s.o = OutPort(Bits8)
    s.p = OutPort(Bits8)
    s.q = OutPort(Bits1)
    s.r = OutPort(Bits8)

    @update
    def up_sc():
      s.o @= s.a << zext(s.sel, 8)
      s.p @= s.a >> zext(s.b[0:3], 8)
      s.q @= ((s.a < s.b) & (s.sel == 2)) | ((s.a >= s.b) & s.en)
      s.r @= s.a * s.b


# ------------------------------------------------------------------ free variables

TBL = [3, 141, 59, 26]
BTBL = [Bits8(0x11), Bits8(0xEE), Bits8(0x80), Bits8(0x7F)]
KP = Pst(9, 6)
STRUCT_BEHAVIORAL = ("StructBuild", "StructReg", "LhsFields", "FreeScalars", "ChildStructPorts", "FieldCmpExt", "IfcStructMsg", "SextArrayField", "TmpStructField", "FieldNamedLikeMethod", "ConstStructInnerField")     # MemberConsts has struct CONSTANTS only: checked strictly     # designs whose blocks touch struct-typed signals / constants (signature class of the Yosys struct findings)
K5 = 5
KB = Bits8(0xC3)


@design(lambda st, a, b, sel, en, reset: (None, {"p": int(BTBL[sel]) ^ a, "r": int(BTBL[2]) | sel}))
class FreeBitsList(Base):
  """a closure list of Bits constants indexed by a signal and by a constant"""
  def construct(s):
    s.ports()
    s.p = OutPort(Bits8)
    s.r = OutPort(Bits8)
    btbl = BTBL

    @update
    def up_fbl():
      s.p @= btbl[s.sel] ^ s.a
      s.r @= btbl[2] | zext(s.sel, 8)


@design(lambda st, a, b, sel, en, reset: (None, {"o": TBL[sel], "q": sum(TBL[i] for i in range(4) if bit(a, i)) & M8}))
class FreeIntList(Base):
  """a closure list of plain ints indexed by a signal and by a loop variable"""
  def construct(s):
    s.ports()
    s.o = OutPort(Bits8)
    s.q = OutPort(Bits8)
    tbl = TBL

    @update
    def up_fil():
      s.o @= tbl[s.sel]
      s.q @= 0
      for i in range(4):
        if s.a[i]:
          s.q @= s.q + tbl[i]


@design(lambda st, a, b, sel, en, reset: (None, {"q": sum(TBL[i] for i in range(4) if bit(a, i)) & M8}))
class FreeIntListLoop(Base):
  """a closure list of plain ints indexed by a loop variable only"""
  def construct(s):
    s.ports()
    s.q = OutPort(Bits8)
    tbl = TBL

    @update
    def up_fill():
      s.q @= 0
      for i in range(4):
        if s.a[i]:
          s.q @= s.q + tbl[i]


@design(lambda st, a, b, sel, en, reset: (None, {"o": ((a + K5) & M8) ^ 0xC3, "p": (9 << 4 | 6) if en else (6 << 4 | 9), "q": (a >> K5) | (1 << K5)}))
class FreeScalars(Base):
  def construct(s):
    s.ports()
    s.o = OutPort(Bits8)
    s.p = OutPort(Bits8)
    s.q = OutPort(Bits8)
    k5, kb, kp = K5, KB, KP

    @update
    def up_fsc():
      s.o @= (s.a + k5) ^ kb
      if s.en:
        s.p @= concat(kp.x, kp.y)
      else:
        s.p @= concat(kp.y, kp.x)
      s.q @= (s.a >> k5) | (1 << k5)


def _param_ref(k, w):
  def ref(st, a, b, sel, en, reset):
    return None, {"o": ((a & ((1 << w) - 1)) + k) & ((1 << w) - 1), "p": (a << (k & 7)) & M8}
  return ref


def mk_param(k, w):
  T = mk_bits(w)

  class Param(Base):
    def construct(s, k, T):
      s.ports()
      s.o = OutPort(T)
      s.p = OutPort(Bits8)
      nb = T.nbits

      @update
      def up_par():
        s.o @= s.a[0:nb] + T(k)
        s.p @= s.a << (k & 7)

  class ParamTop(Base):
    def construct(s):
      s.ports()
      s.o = OutPort(T)
      s.p = OutPort(Bits8)
      s.c = Param(k, T)
      s.c.a //= s.a
      s.c.b //= s.b
      s.c.sel //= s.sel
      s.c.en //= s.en
      s.o //= s.c.o
      s.p //= s.c.p
  ParamTop.__name__ = f"Param_{k}_{w}"
  return design(_param_ref(k, w))(ParamTop)


mk_param(3, 4); mk_param(200, 8); mk_param(1, 1); mk_param(9, 6)


# ------------------------------------------------------------------ structs built in blocks, struct lists

@design(lambda st, a, b, sel, en, reset: (None, {"o": ((a & 0xF) << 4) | (b & 0xF), "p": ((b >> 4) << 4) | (a >> 4) if en else ((a & 0xF) << 4) | (b & 0xF)}))
class StructBuild(Base):
  def construct(s):
    s.ports()
    s.w = Wire(Pst)
    s.v = [Wire(Pst) for _ in range(2)]
    s.o = OutPort(Bits8)
    s.p = OutPort(Bits8)

    @update
    def up_sb1():
      s.w @= Pst(s.a[0:4], s.b[0:4])
      s.v[0] @= Pst(s.a[0:4], s.b[0:4])
      s.v[1] @= Pst(s.b[4:8], s.a[4:8])

    @update
    def up_sb2():
      s.o @= concat(s.w.x, s.w.y)
      s.p @= concat(s.v[s.en].x, s.v[s.en].y)


# ------------------------------------------------------------------ sequential

def _counter_ref(st, a, b, sel, en, reset):
  c = st or 0
  if reset: c = 0
  elif en: c = (c + (a & 3) + 1) & M8
  return c, {"o": c, "z": 1 if c == 0 else 0}


@design(_counter_ref)
class Counter(Base):
  def construct(s):
    s.ports()
    s.o = OutPort(Bits8)
    s.z = OutPort(Bits1)
    s.r = Wire(Bits8)

    @update_ff
    def up_cnt():
      if s.reset:
        s.r <<= 0
      elif s.en:
        s.r <<= s.r + zext(s.a[0:2], 8) + 1

    @update
    def up_cnt_o():
      s.o @= s.r
      s.z @= s.r == 0


def _shift_ref(st, a, b, sel, en, reset):
  r = list(st or [0, 0, 0, 0])
  if reset: r = [0, 0, 0, 0]
  elif en: r = [a] + r[:3]
  return r, {"o": r[sel], "t": r[3]}


@design(_shift_ref)
class ShiftReg(Base):
  """list register shifted by a loop; read with a variable index"""
  def construct(s):
    s.ports()
    s.o = OutPort(Bits8)
    s.t = OutPort(Bits8)
    s.r = [Wire(Bits8) for _ in range(4)]

    @update_ff
    def up_shr():
      if s.reset:
        for i in range(4):
          s.r[i] <<= 0
      elif s.en:
        s.r[0] <<= s.a
        for i in range(1, 4):
          s.r[i] <<= s.r[i - 1]

    @update
    def up_shr_o():
      s.o @= s.r[s.sel]
      s.t @= s.r[3]


def _rf_ref(st, a, b, sel, en, reset):
  r = list(st or [0, 0, 0, 0])
  if en: r[sel] = a
  return r, {"o": r[b & 3], "p": r[(b >> 2) & 3]}


@design(_rf_ref)
class RegFile(Base):
  """variable-index write in update_ff, two variable-index reads"""
  def construct(s):
    s.ports()
    s.o = OutPort(Bits8)
    s.p = OutPort(Bits8)
    s.rf = [Wire(Bits8) for _ in range(4)]

    @update_ff
    def up_rf():
      if s.en:
        s.rf[s.sel] <<= s.a

    @update
    def up_rf_o():
      s.o @= s.rf[s.b[0:2]]
      s.p @= s.rf[s.b[2:4]]


def _sreg_ref(st, a, b, sel, en, reset):
  x, y = st or (0, 0)
  if reset: x, y = 0, 0
  else:
    if en: x, y = a & 0xF, (y + 1) & 0xF
    else: x, y = y, x
  return (x, y), {"o": (x << 4) | y}


@design(_sreg_ref)
class StructReg(Base):
  """struct-typed register: whole-struct and swap updates"""
  def construct(s):
    s.ports()
    s.o = OutPort(Bits8)
    s.r = Wire(Pst)

    @update_ff
    def up_sreg():
      if s.reset:
        s.r <<= Pst(0, 0)
      elif s.en:
        s.r <<= Pst(s.a[0:4], s.r.y + 1)
      else:
        s.r <<= Pst(s.r.y, s.r.x)

    @update
    def up_sreg_o():
      s.o @= concat(s.r.x, s.r.y)


# ------------------------------------------------------------------ children and interfaces driven from blocks

class AddK(Component):
  def construct(s, k=1):
    s.in_ = InPort(Bits8)
    s.out = OutPort(Bits8)

    @update
    def up_addk():
      s.out @= s.in_ + k


@design(lambda st, a, b, sel, en, reset: (None, {"o": ((a + 1) & M8) ^ ((a + 1 + 2) & M8) ^ ((b + 3) & M8), "p": [(a + 1) & M8, (a + 3) & M8, (b + 3) & M8][sel % 3] if sel < 3 else 0}))
class ChildInBlock(Base):
  """children whose inputs are written and whose outputs are read by the parent's blocks (constant and loop indices)"""
  def construct(s):
    s.ports()
    s.o = OutPort(Bits8)
    s.p = OutPort(Bits8)
    s.c = [AddK(k + 1) for k in range(3)]

    @update
    def up_cib1():
      s.c[0].in_ @= s.a
      s.c[1].in_ @= s.a + 1
      s.c[2].in_ @= s.b

    @update
    def up_cib2():
      s.o @= s.c[0].out ^ s.c[1].out ^ s.c[2].out
      s.p @= 0
      for i in range(3):
        if s.sel == i:
          s.p @= s.c[i].out


class ReqIfc(Interface):
  def construct(s):
    s.msg = OutPort(Bits8)
    s.val = OutPort(Bits1)
    s.rdy = InPort(Bits1)


class RespIfc(Interface):
  def construct(s):
    s.msg = InPort(Bits8)
    s.val = InPort(Bits1)
    s.rdy = OutPort(Bits1)


class Producer(Component):
  def construct(s):
    s.x = InPort(Bits8)
    s.go = InPort(Bits1)
    s.req = ReqIfc()
    s.took = OutPort(Bits1)

    @update
    def up_prod():
      s.req.msg @= s.x + 1
      s.req.val @= s.go
      s.took @= s.go & s.req.rdy


class Consumer(Component):
  def construct(s):
    s.resp = RespIfc()
    s.ok = InPort(Bits1)
    s.got = OutPort(Bits8)

    @update
    def up_cons():
      s.resp.rdy @= s.ok
      s.got @= 0
      if s.resp.val & s.ok:
        s.got @= s.resp.msg


@design(lambda st, a, b, sel, en, reset: (None, {"o": ((a + 1) & M8) if en and (sel & 1) else 0, "t": 1 if en and (sel & 1) else 0}))
class IfcInBlock(Base):
  """interfaces of two children joined member by member through connections made in the parent"""
  def construct(s):
    s.ports()
    s.o = OutPort(Bits8)
    s.t = OutPort(Bits1)
    s.pr = Producer()
    s.co = Consumer()
    s.pr.x //= s.a
    s.pr.go //= s.en
    s.co.ok //= s.sel[0]
    s.co.resp.msg //= s.pr.req.msg
    s.co.resp.val //= s.pr.req.val
    s.pr.req.rdy //= s.co.resp.rdy
    s.o //= s.co.got
    s.t //= s.pr.took


@design(lambda st, a, b, sel, en, reset: (None, {"o": (a + b) & M8, "p": (a & 0xF0) | (b & 0x0F), "q": 1 if a == b else 0}))
class Lambdas(Base):
  def construct(s):
    s.ports()
    s.o = OutPort(Bits8)
    s.p = OutPort(Bits8)
    s.q = OutPort(Bits1)
    s.o //= lambda: s.a + s.b
    s.p //= lambda: (s.a & 0xF0) | (s.b & 0x0F)
    s.q //= lambda: s.a == s.b


@design(lambda st, a, b, sel, en, reset: (None, {"o": ((a & 0xF) | ((b & 0xF) << 4)), "p": (a >> 2) & 0xF}))
class SliceWriters(Base):
  """two blocks write disjoint slices of one wire; a third reads overlapping parts"""
  def construct(s):
    s.ports()
    s.w = Wire(Bits8)
    s.o = OutPort(Bits8)
    s.p = OutPort(Bits4)

    @update
    def up_sw1():
      s.w[0:4] @= s.a[0:4]

    @update
    def up_sw2():
      s.w[4:8] @= s.b[0:4]

    @update
    def up_sw3():
      s.o @= s.w
      s.p @= s.w[2:6] & 0xF if s.en else s.w[2:6]
      s.p @= s.a[2:6]


@design(lambda st, a, b, sel, en, reset: (None, {"o": (a if a < b else b), "p": [a, b, a ^ b, 0xAA][sel]}))
class WireArray(Base):
  """an unpacked array of wires filled by a loop in one block and read by another"""
  def construct(s):
    s.ports()
    s.o = OutPort(Bits8)
    s.p = OutPort(Bits8)
    s.t = [Wire(Bits8) for _ in range(4)]

    @update
    def up_wa1():
      s.t[0] @= s.a
      s.t[1] @= s.b
      s.t[2] @= s.a ^ s.b
      s.t[3] @= 0xAA

    @update
    def up_wa2():
      s.p @= s.t[s.sel]
      s.o @= s.t[1]
      if s.t[0] < s.t[1]:
        s.o @= s.t[0]


@design(lambda st, a, b, sel, en, reset: (None, {"o": sel, "p": (sel << 6) | sel, "q": (0xFC | sel) if en else sel}))
class Casts(Base):
  """zext with a type argument, concat with constants, sext of a concat"""
  def construct(s):
    s.ports()
    s.o = OutPort(Bits8)
    s.p = OutPort(Bits8)
    s.q = OutPort(Bits8)

    @update
    def up_cast():
      s.o @= zext(s.sel, Bits8)
      s.p @= concat(s.sel, Bits4(0), s.sel)
      s.q @= zext(s.sel, 8)
      if s.en:
        s.q @= sext(concat(Bits2(3), s.sel), 8)


@design(lambda st, a, b, sel, en, reset: (None, {"o": ((a + 2) & M8) ^ ((a + 1 + 2) & M8) ^ ((b + 2) & M8)}))
class ChildInBlockHomo(Base):
  """as ChildInBlock with identically parameterised children"""
  def construct(s):
    s.ports()
    s.o = OutPort(Bits8)
    s.c = [AddK(2) for k in range(3)]

    @update
    def up_cibh1():
      s.c[0].in_ @= s.a
      s.c[1].in_ @= s.a + 1
      s.c[2].in_ @= s.b

    @update
    def up_cibh2():
      s.o @= s.c[0].out ^ s.c[1].out ^ s.c[2].out


def _mat_ref(st, a, b, sel, en, reset):
  m = [[(a + 3 * i + j) & M8 if (i + j) % 2 == 0 else (b ^ (i * 2 + j)) for j in range(2)] for i in range(3)]
  return None, {"o": m[sel % 3 if sel < 3 else 0][en] if sel < 3 else 0, "p": m[2][1]}


@design(_mat_ref)
class Mat2D(Base):
  """3 x 2 array of wires written through two loop variables, read with a signal and a constant index"""
  def construct(s):
    s.ports()
    s.o = OutPort(Bits8)
    s.p = OutPort(Bits8)
    s.m = [[Wire(Bits8) for _ in range(2)] for _ in range(3)]

    @update
    def up_mat1():
      for i in range(3):
        for j in range(2):
          if (i + j) % 2 == 0:
            s.m[i][j] @= s.a + (3 * i + j)
          else:
            s.m[i][j] @= s.b ^ (i * 2 + j)

    @update
    def up_mat2():
      s.p @= s.m[2][1]
      s.o @= 0
      for i in range(3):
        if s.sel == i:
          s.o @= s.m[i][s.en]


@design(lambda st, a, b, sel, en, reset: (None, {"o": ((a + 1) & M8) if en and (b & 1) else 0xEE, "t": 1 if en and (b & 1) else 0}))
class ChildIfcBlock(Base):
  """the parent's block reads interface members of one child and writes interface members of another"""
  def construct(s):
    s.ports()
    s.o = OutPort(Bits8)
    s.t = OutPort(Bits1)
    s.pr = Producer()
    s.co = Consumer()
    s.pr.x //= s.a
    s.pr.go //= s.en
    s.co.ok //= s.b[0]
    s.t //= s.pr.took

    @update
    def up_cifc():
      s.co.resp.msg @= s.pr.req.msg
      s.co.resp.val @= s.pr.req.val
      s.pr.req.rdy @= s.co.resp.rdy
      if s.pr.req.val & s.co.resp.rdy:
        s.o @= s.co.got
      else:
        s.o @= 0xEE


def _ffnest_ref(st, a, b, sel, en, reset):
  r = list(st or [0, 0, 0])
  if reset: r = [0, 0, 0]
  else:
    old = list(r)
    for i in range(3):
      if bit(a, i):
        if en: r[i] = (old[i] + b) & M8
        else: r[i] = old[(i + 1) % 3]
  return r, {"o": r[0] ^ r[1] ^ r[2], "p": r[sel] if sel < 3 else 0x55}


@design(_ffnest_ref)
class FFNest(Base):
  """update_ff with for / if / else nesting, rotating reads of the same register list"""
  def construct(s):
    s.ports()
    s.o = OutPort(Bits8)
    s.p = OutPort(Bits8)
    s.r = [Wire(Bits8) for _ in range(3)]

    @update_ff
    def up_ffn():
      if s.reset:
        for i in range(3):
          s.r[i] <<= 0
      else:
        for i in range(3):
          if s.a[i]:
            if s.en:
              s.r[i] <<= s.r[i] + s.b
            else:
              s.r[i] <<= s.r[(i + 1) % 3]

    @update
    def up_ffn_o():
      s.o @= s.r[0] ^ s.r[1] ^ s.r[2]
      s.p @= 0x55
      for i in range(3):
        if s.sel == i:
          s.p @= s.r[i]


def _wide_ref(st, a, b, sel, en, reset):
  w = (a << 8 | b) * 3 + sel
  w &= 0xFFFFF
  return None, {"o": (w >> 4) & M8, "p": 1 if (w & 0xFF) == 0 or bin(a).count("1") % 2 else 0, "q": (w >> 12) & M8}


@design(_wide_ref)
class WidthMix(Base):
  """zext / trunc / concat chains across 8, 16 and 20 bits; reductions as conditions"""
  def construct(s):
    s.ports()
    s.o = OutPort(Bits8)
    s.p = OutPort(Bits1)
    s.q = OutPort(Bits8)
    s.w = Wire(Bits20)

    @update
    def up_wm1():
      s.w @= zext(concat(s.a, s.b), 20) * 3 + zext(s.sel, 20)

    @update
    def up_wm2():
      s.o @= s.w[4:12]
      s.q @= trunc(s.w >> 12, 8)
      s.p @= (~reduce_or(s.w[0:8])) | reduce_xor(s.a)


class Lane(Component):
  def construct(s):
    s.in_ = InPort(Bits8)
    s.out = [OutPort(Bits8) for _ in range(2)]

    @update
    def up_lane():
      s.out[0] @= s.in_ + 1
      s.out[1] @= ~s.in_


@design(lambda st, a, b, sel, en, reset: (None, {"o[0]": [(a + 1) & M8, ~a & M8][sel & 1], "o[1]": [(b + 1) & M8, ~b & M8][sel & 1], "p": ~b & M8}))
class LanePick(Base):
  """a port array inside a component array: component index = loop variable, port index = a signal of the parent"""
  def construct(s):
    s.ports()
    s.o = [OutPort(Bits8) for _ in range(2)]
    s.p = OutPort(Bits8)
    s.lane = [Lane() for _ in range(2)]

    @update
    def up_lp1():
      s.lane[0].in_ @= s.a
      s.lane[1].in_ @= s.b

    @update
    def up_lp2():
      for i in range(2):
        s.o[i] @= s.lane[i].out[s.sel[0]]
      s.p @= s.lane[1].out[1]


class Lane2D(Component):
  def construct(s):
    s.in_ = InPort(Bits8)
    s.out = [[OutPort(Bits8) for _ in range(3)] for _ in range(2)]

    @update
    def up_lane2d():
      for j in range(2):
        for k in range(3):
          s.out[j][k] @= s.in_ + (3 * j + k)


@design(lambda st, a, b, sel, en, reset: (None, {"o[0]": (a + 5) & M8, "o[1]": (b + 5) & M8, "p": (b + 1) & M8, "q": (b + 3 * en + 1) & M8}))
class Lane2DPick(Base):
  """a 2-D port array inside a component array, read with constant, loop-variable and signal indices"""
  def construct(s):
    s.ports()
    s.o = [OutPort(Bits8) for _ in range(2)]
    s.p = OutPort(Bits8)
    s.q = OutPort(Bits8)
    s.inner = [Lane2D() for _ in range(2)]
    s.inner[0].in_ //= s.a
    s.inner[1].in_ //= s.b

    @update
    def up_l2d():
      for i in range(2):
        s.o[i] @= s.inner[i].out[1][2]
      s.p @= s.inner[1].out[0][1]
      s.q @= s.inner[1].out[s.en][1]


@design(lambda st, a, b, sel, en, reset: (None, {"o": (((a + 1) & M8) ^ b), "p": ((a + 1) & M8) if en else ((a + 2) & M8)}))
class FuncCalls(Base):
  """update blocks that read and write through @s.func functions (directly and nested): the callers inherit the functions' accesses"""
  def construct(s):
    s.ports()
    s.o = OutPort(Bits8)
    s.p = OutPort(Bits8)
    s.t = Wire(Bits8)
    s.u = Wire(Bits8)
    s.v = Wire(Bits8)

    @s.func
    def inc_u():
      s.u @= s.t + 1

    @s.func
    def pick_v():
      if s.en:
        s.v @= s.u
      else:
        s.v @= s.u + 1

    @s.func
    def outer():
      pick_v()

    @update
    def up_fc_o():
      s.o @= s.u ^ s.b
      s.p @= s.v

    @update
    def up_fc_v():
      outer()

    @update
    def up_fc_u():
      inc_u()

    @update
    def up_fc_t():
      s.t @= s.a


class StructLeaf(Component):
  """child with struct-typed ports"""
  def construct(s):
    s.sp_in = InPort(Pst)
    s.sp_out = OutPort(Pst)
    s.k = InPort(Bits4)

    @update
    def up_sleaf():
      s.sp_out @= Pst(s.sp_in.y + s.k, s.sp_in.x)


@design(lambda st, a, b, sel, en, reset: (None, {"o": ((((b & 0xF) + sel) & 0xF) << 4) | (a & 0xF), "p": (((b >> 4) + 1) & 0xF) ^ (a >> 4)}))
class ChildStructPorts(Base):
  """the parent's blocks write a child's struct in-port (whole and by constructor) and read fields of a child's struct out-port"""
  def construct(s):
    s.ports()
    s.o = OutPort(Bits8)
    s.p = OutPort(Bits4)
    s.c = [StructLeaf() for _ in range(2)]
    s.c[0].k //= lambda: zext(s.sel, 4)
    s.c[1].k //= 1

    @update
    def up_csp1():
      s.c[0].sp_in @= Pst(s.a[0:4], s.b[0:4])
      s.c[1].sp_in @= Pst(s.a[4:8], s.b[4:8])

    @update
    def up_csp2():
      s.o @= concat(s.c[0].sp_out.x, s.c[0].sp_out.y)
      s.p @= s.c[1].sp_out.x ^ s.c[1].sp_out.y


@design(lambda st, a, b, sel, en, reset: (None, {"o": (a + 5) & M8 if en else (b ^ 0xC3), "p": (0x21 if sel & 1 else 0x43)}))
class MemberConsts(Base):
  """constants stored as attributes of the component (not closure variables): Bits, int-valued Bits list, bitstruct"""
  def construct(s):
    s.ports()
    s.o = OutPort(Bits8)
    s.p = OutPort(Bits8)
    s.K5 = Bits8(5)
    s.KX = Bits8(0xC3)
    s.KS = [Pst(4, 3), Pst(2, 1)]

    @update
    def up_mc():
      if s.en:
        s.o @= s.a + s.K5
      else:
        s.o @= s.b ^ s.KX
      s.p @= concat(s.KS[s.sel[0]].x, s.KS[s.sel[0]].y)


def _idx_arith_ref(st, a, b, sel, en, reset):
  x = [(a >> (2 * i)) & 3 for i in range(4)]
  o = 0
  for i in range(3): o |= (x[i + 1] ^ (i & 3)) << (2 * i)
  o |= x[0] << 6
  q = 0
  for i in range(4): q |= x[3 - i] << (2 * i)
  return None, {"o": o, "q": q, "r": ((b >> 4) & 0xF) | ((b & 0xF) << 4)}


@design(_idx_arith_ref)
class IndexArith(Base):
  """index arithmetic on loop variables: x[i+1], x[n-1-i], part selects [4*i : 4*i+4]"""
  def construct(s):
    s.ports()
    s.o = OutPort(Bits8)
    s.q = OutPort(Bits8)
    s.r = OutPort(Bits8)
    s.x = [Wire(Bits2) for _ in range(4)]

    @update
    def up_ia0():
      for i in range(4):
        s.x[i] @= s.a[2 * i:2 * i + 2]

    @update
    def up_ia1():
      for i in range(3):
        s.o[2 * i:2 * i + 2] @= s.x[i + 1] ^ i
      s.o[6:8] @= s.x[0]
      for i in range(4):
        s.q[2 * i:2 * i + 2] @= s.x[3 - i]
      for i in range(2):
        s.r[4 * i:4 * i + 4] @= s.b[4 * (1 - i):4 * (1 - i) + 4]


def _hold_ref(st, a, b, sel, en, reset):
  r = list(st or [0, 0, 0])
  if reset: r = [0, 0, 0]
  else:
    if sel == 0: r[0] = a
    elif sel == 1:
      r[1] = b
      if en: r[0] = (r[0] + 1) & M8          # r[0] read is the OLD value: evaluated below on a copy
    elif sel == 2 and en: r[2] = a ^ b
  return r, {"o": r[0], "p": r[1], "q": r[2]}


def _hold_ref2(st, a, b, sel, en, reset):
  old = list(st or [0, 0, 0])
  r = list(old)
  if reset: r = [0, 0, 0]
  elif sel == 0: r[0] = a
  elif sel == 1:
    r[1] = b
    if en: r[0] = (old[0] + 1) & M8
  elif sel == 2 and en: r[2] = a ^ b
  return r, {"o": r[0], "p": r[1], "q": r[2]}


@design(_hold_ref2)
class PartialFF(Base):
  """update_ff with if / elif arms that assign different registers: every register not assigned in a cycle holds its value"""
  def construct(s):
    s.ports()
    s.o = OutPort(Bits8)
    s.p = OutPort(Bits8)
    s.q = OutPort(Bits8)
    s.r0 = Wire(Bits8)
    s.r1 = Wire(Bits8)
    s.r2 = Wire(Bits8)

    @update_ff
    def up_pff():
      if s.reset:
        s.r0 <<= 0
        s.r1 <<= 0
        s.r2 <<= 0
      elif s.sel == 0:
        s.r0 <<= s.a
      elif s.sel == 1:
        s.r1 <<= s.b
        if s.en:
          s.r0 <<= s.r0 + 1
      elif (s.sel == 2) & s.en:
        s.r2 <<= s.a ^ s.b

    s.o //= s.r0
    s.p //= s.r1
    s.q //= s.r2


@design(lambda st, a, b, sel, en, reset: (None, {"o": (1 if (a & 0xF) == (b & 0xF) else 0) | ((1 if (a >> 4) < (b >> 4) else 0) << 1) | ((1 if a == b else 0) << 2),
                                                "p": ((a & 0xF) | 0xF0) if (a & 8) else (a & 0xF), "q": (a >> 2) & 3 if en else (b >> 6) & 3}))
class FieldCmpExt(Base):
  """comparisons of struct fields, sext of a slice and of a field, trunc of a shifted value"""
  def construct(s):
    s.ports()
    s.o = OutPort(Bits3)
    s.p = OutPort(Bits8)
    s.q = OutPort(Bits2)
    s.u = Wire(Pst)
    s.v = Wire(Pst)

    @update
    def up_fce1():
      s.u @= Pst(s.a[4:8], s.a[0:4])
      s.v @= Pst(s.b[4:8], s.b[0:4])

    @update
    def up_fce2():
      s.o @= concat(s.a == s.b, s.u.x < s.v.x, s.u.y == s.v.y)
      s.p @= sext(s.u.y, 8)
      if s.en:
        s.q @= trunc(s.a >> 2, 2)
      else:
        s.q @= trunc(s.b >> 6, 2)


M64 = (1 << 64) - 1


def _wide_ops_ref(st, a, b, sel, en, reset):
  x = 0
  for part in (a, b, a, b, a, b, a, b): x = (x << 8) | part
  y = ((x * 3) + (x >> 33)) & M64
  y ^= (x << 35) & M64
  k = 0x8000000000000001
  z = (y + k) & M64
  big = (x << 64 | y) & ((1 << 128) - 1)
  return None, {"o": (y >> 28) & M8, "p": 1 if x > 0x7FFFFFFFFFFFFFFF else 0, "q": (z >> 56) & M8, "r": (big >> (60 + 4 * sel)) & M8,
                "t": bin(y).count("1") & 1}


@design(_wide_ops_ref)
class WideOps(Base):
  """64- and 128-bit arithmetic: multiplication, shifts by more than 32, literals above 2^63, parity of a wide value"""
  def construct(s):
    s.ports()
    s.o = OutPort(Bits8)
    s.p = OutPort(Bits1)
    s.q = OutPort(Bits8)
    s.r = OutPort(Bits8)
    s.t = OutPort(Bits1)
    s.x = Wire(Bits64)
    s.y = Wire(Bits64)
    s.big = Wire(Bits128)

    @update
    def up_wo1():
      s.x @= concat(s.a, s.b, s.a, s.b, s.a, s.b, s.a, s.b)

    @update
    def up_wo2():
      s.y @= ((s.x * 3) + (s.x >> 33)) ^ (s.x << 35)
      s.big @= concat(s.x, s.y)

    @update
    def up_wo3():
      s.o @= s.y[28:36]
      s.p @= s.x > 0x7FFFFFFFFFFFFFFF
      s.q @= trunc((s.y + 0x8000000000000001) >> 56, 8)
      s.t @= reduce_xor(s.y)
      if s.sel == 0: s.r @= s.big[60:68]
      elif s.sel == 1: s.r @= s.big[64:72]
      elif s.sel == 2: s.r @= s.big[68:76]
      else: s.r @= s.big[72:80]


class MsgIfc(Interface):
  def construct(s):
    s.msg = InPort(Pst)
    s.val = InPort(Bits1)


class MsgOutIfc(Interface):
  def construct(s):
    s.msg = OutPort(Pst)
    s.val = OutPort(Bits1)


class IfcStructLeaf(Component):
  """child with arrays of interfaces that carry struct-typed messages"""
  def construct(s):
    s.i = [MsgIfc() for _ in range(2)]
    s.o = [MsgOutIfc() for _ in range(2)]

    @update
    def up_isl():
      for k in range(2):
        s.o[k].msg @= Pst(s.i[1 - k].msg.y, s.i[1 - k].msg.x)
        s.o[k].val @= s.i[k].val


@design(lambda st, a, b, sel, en, reset: (None, {"o": ((b & 0xF) << 4 | (b >> 4)) if en else 0, "p": ((a & 0xF) << 4) | (a >> 4), "q": (en << 1) | (sel & 1)}))
class IfcStructMsg(Base):
  """interfaces with struct messages driven from the parent's block, read back field by field"""
  def construct(s):
    s.ports()
    s.o = OutPort(Bits8)
    s.p = OutPort(Bits8)
    s.q = OutPort(Bits2)
    s.c = IfcStructLeaf()

    @update
    def up_ism1():
      s.c.i[0].msg @= Pst(s.a[4:8], s.a[0:4])
      s.c.i[1].msg @= Pst(s.b[4:8], s.b[0:4])
      s.c.i[0].val @= s.sel[0]
      s.c.i[1].val @= s.en

    @update
    def up_ism2():
      s.o @= 0
      if s.c.o[1].val:
        s.o @= concat(s.c.o[0].msg.x, s.c.o[0].msg.y)
      s.p @= concat(s.c.o[1].msg.x, s.c.o[1].msg.y)
      s.q @= concat(s.c.o[1].val, s.c.o[0].val)


KM = Pst(0xA, 0x5)


@design(lambda st, a, b, sel, en, reset: (None, {"o": 0xA5 if en else 0x5A, "p": 1 if (a & 0xF) == 0xA else 0, "q": 1 if ((a & 0xF) == (a >> 4)) and ((b & 0xF) != (b >> 4)) else 0}))
class ConstStructFields(Base):
  """fields of a constant bitstruct (member and closure), slices of one wire compared with each other"""
  def construct(s):
    s.ports()
    s.o = OutPort(Bits8)
    s.p = OutPort(Bits1)
    s.q = OutPort(Bits1)
    s.KM = Pst(0xA, 0x5)
    km = KM

    @update
    def up_csf():
      if s.en:
        s.o @= concat(s.KM.x, s.KM.y)
      else:
        s.o @= concat(km.y, km.x)
      s.p @= s.a[0:4] == s.KM.x
      s.q @= (s.a[0:4] == s.a[4:8]) & (s.b[0:4] != s.b[4:8])


def _nest_ctl_ref(st, a, b, sel, en, reset):
  o = 0
  for i in range(2):
    for j in range(4):
      k = i * 4 + j
      if bit(a, k):
        v = bit(b, j) if i == 0 else bit(b, 7 - j)
      else:
        v = en if j == sel else 0
      o |= v << k
  return None, {"o": o}


@design(_nest_ctl_ref)
class NestedControl(Base):
  """if / else inside two nested loops, the inner arm chosen by comparing a loop variable with a signal"""
  def construct(s):
    s.ports()
    s.o = OutPort(Bits8)

    @update
    def up_nc():
      for i in range(2):
        for j in range(4):
          if s.a[i * 4 + j]:
            if i == 0:
              s.o[i * 4 + j] @= s.b[j]
            else:
              s.o[i * 4 + j] @= s.b[7 - j]
          else:
            if s.sel == j:
              s.o[i * 4 + j] @= s.en
            else:
              s.o[i * 4 + j] @= 0


@design(lambda st, a, b, sel, en, reset: (None, {"r": (a << 8) & M8 | (b >> 7), "t": 1 if 2 < a else 0, "u": (a >> (b & 7)) & M8, "v": ((a + b) & M8) >> 1, "w": (a - b) & M8 if a >= b else (b - a) & M8}))
class ShiftEdge(Base):
  """shifts by the full width and by a masked signal, literal on the left of a comparison, subtraction under a guard"""
  def construct(s):
    s.ports()
    s.r = OutPort(Bits8)
    s.t = OutPort(Bits1)
    s.u = OutPort(Bits8)
    s.v = OutPort(Bits8)
    s.w = OutPort(Bits8)

    @update
    def up_se():
      s.r @= (s.a << 8) | (s.b >> 7)
      s.t @= 2 < s.a
      s.u @= s.a >> (s.b & 7)
      s.v @= (s.a + s.b) >> 1
      if s.a >= s.b:
        s.w @= s.a - s.b
      else:
        s.w @= s.b - s.a


mk_for_step(5, 0, -2); mk_for_step(6, 1, -4); mk_for_step(4, 0, -3)     # the last value minus the step would be negative


def _chained_ref(st, a, b, sel, en, reset):
  c = d = 0
  if a & 1: c = 1
  else: c = d = (a + 1) & M8
  acc = 0
  for k in range(2):
    e = f = (b + k) & M8
    acc = (acc + e + f) & M8
  return None, {"o": (c + d) & M8, "p": acc}


@design(_chained_ref)
class ChainedAssign(Base):
  """a chained assignment `c = d = e` as the ONLY statement of an else branch and of a loop body"""
  def construct(s):
    s.ports()
    s.o = OutPort(Bits8)
    s.p = OutPort(Bits8)

    @update
    def up_chain():
      c = d = Bits8(0)
      if s.a[0]:
        c = Bits8(1)
      else:
        c = d = s.a + 1
      s.o @= c + d
      acc = Bits8(0)
      for k in range(2):
        e = f = s.b + k
        acc = acc + e + f
      s.p @= acc


i = 2      # a module-level name that the blocks below shadow with their loop variable


@design(lambda st, a, b, sel, en, reset: (None, {"o": a & 0x0F, "p": sum(((b >> k) & 1) << (3 - k) for k in range(4))}))
class ShadowedLoopVar(Base):
  """the loop variable has the name of a module-level variable"""
  def construct(s):
    s.ports()
    s.o = OutPort(Bits8)
    s.p = OutPort(Bits4)

    @update
    def up_slv():
      s.o @= 0
      for i in range(4):
        s.o[i] @= s.a[i]
      for i in range(4):
        s.p[3 - i] @= s.b[i]


@bitstruct
class ArrSt:
  x: Bits4
  arr: [ Bits8 ] * 2


def _sx(v, w, n):
  return (v | (((1 << n) - 1) ^ ((1 << w) - 1))) & ((1 << n) - 1) if v >> (w - 1) else v


@design(lambda st, a, b, sel, en, reset: (None, {"o": _sx(b, 8, 16) >> 8, "p": _sx(a, 8, 16) & 0xFF, "q": _sx(b if en else a, 8, 16) >> 8}))
class SextArrayField(Base):
  """sext of an element of a packed-array field of a struct (constant and signal index)"""
  def construct(s):
    s.ports()
    s.o = OutPort(Bits8)
    s.p = OutPort(Bits8)
    s.q = OutPort(Bits8)
    s.w = Wire(ArrSt)
    s.t = Wire(Bits16)
    s.u = Wire(Bits16)
    s.v = Wire(Bits16)

    @update
    def up_saf1():
      s.w.x @= 0
      s.w.arr[0] @= s.a
      s.w.arr[1] @= s.b

    @update
    def up_saf2():
      s.t @= sext(s.w.arr[1], 16)
      s.u @= sext(s.w.arr[0], 16)
      s.v @= sext(s.w.arr[s.en], 16)
      s.o @= s.t[8:16]
      s.p @= s.u[0:8]
      s.q @= s.v[8:16]


@design(lambda st, a, b, sel, en, reset: (None, {"o": sum(((a >> k) & 1) << (3 - k) for k in range(4)) }))
class PortNamedLikeLoopVar(Component):
  """ports called i and o next to a loop variable called i"""
  def construct(s):
    s.a = InPort(Bits8)
    s.b = InPort(Bits8)
    s.sel = InPort(Bits2)
    s.en = InPort(Bits1)
    s.i = Wire(Bits4)
    s.o = OutPort(Bits4)
    s.i //= s.a[0:4]

    @update
    def up_pnl():
      for i in range(4):
        s.o[i] @= s.i[3 - i]


class Buf8(Component):
  def construct(s):
    s.in_ = InPort(Bits8)
    s.out = OutPort(Bits8)

    @update
    def up_buf8():
      s.out @= s.in_ + 1


@design(lambda st, a, b, sel, en, reset: (None, {"o": (a + 1) & M8}))
class InstanceNamedBuf(Base):
  """a sub-component instance whose name is a Verilog keyword"""
  def construct(s):
    s.ports()
    s.o = OutPort(Bits8)
    s.buf = Buf8()
    s.buf.in_ //= s.a
    s.o //= s.buf.out


@design(lambda st, a, b, sel, en, reset: (None, {"o": (a + b) & M8}))
class NewKeywordNames(Component):
  """signals named with keywords that IEEE 1800-2009 / 2012 added"""
  def construct(s):
    s.a = InPort(Bits8)
    s.b = InPort(Bits8)
    s.sel = InPort(Bits2)
    s.en = InPort(Bits1)
    s.until = Wire(Bits8)
    s.let = Wire(Bits8)
    s.o = OutPort(Bits8)
    s.until //= s.a
    s.let //= s.b

    @update
    def up_nkn():
      s.o @= s.until + s.let


@design(lambda st, a, b, sel, en, reset: (None, {"o": _sx((a >> sel) & 3, 2, 8), "p": (a >> sel) & 3}))
class SextVarSlice(Base):
  """sext and plain use of a part select whose position is a signal"""
  def construct(s):
    s.ports()
    s.o = OutPort(Bits8)
    s.p = OutPort(Bits2)
    s.k = Wire(Bits3)

    @update
    def up_svs1():
      s.k @= zext(s.sel, 3)

    @update
    def up_svs2():
      s.o @= sext(s.a[s.k:s.k + 2], 8)
      s.p @= s.a[s.k:s.k + 2]


# ------------------------------------------------------------------ reads the block analysis has to find (dependences between blocks)
# Each design computes an intermediate wire in one block and uses it in another one in a syntactic position the read / write
# analysis of the DSL (dsl/AstHelper.py) has to look into: a missed read is a missing constraint, i.e. a schedule-dependent result.

@design(lambda st, a, b, sel, en, reset: (None, dict({"o": (a + (sel ^ 1)) & M8, "p": b ^ ((sel + 1) & 3)}, **{f"q[{i}][0]": (a if i == (sel ^ 2) else 0) for i in range(4)})))
class InnerIdxExpr(Base):
  """an index EXPRESSION (not a bare signal) in a subscript that is not the outermost one, on the read and on the write side"""
  def construct(s):
    s.ports()
    s.o = OutPort(Bits8)
    s.p = OutPort(Bits8)
    s.q = [[OutPort(Bits8)] for _ in range(4)]
    s.k = Wire(Bits2)
    s.tbl = [[Wire(Bits8) for _ in range(2)] for _ in range(4)]

    @update
    def up_iie_k():
      s.k @= s.sel

    @update
    def up_iie_t():
      for i in range(4):
        s.tbl[i][0] @= s.a + i
        s.tbl[i][1] @= s.b ^ i

    @update
    def up_iie_o():
      s.o @= s.tbl[s.k ^ 1][0]
      s.p @= s.tbl[s.k + 1][1]

    @update
    def up_iie_w():
      for i in range(4):
        s.q[i][0] @= 0
      s.q[s.k ^ 2][0] @= s.a


@design(lambda st, a, b, sel, en, reset: (None, {"o": a & 0xF, "p": ((b & 0xF) + 1) & M8}))
class KwArgCall(Base):
  """signals passed as KEYWORD arguments of a call"""
  def construct(s):
    s.ports()
    s.o = OutPort(Bits8)
    s.p = OutPort(Bits8)
    s.w = Wire(Bits4)
    s.w2 = Wire(Bits4)

    @update
    def up_kw_w():
      s.w @= s.a[0:4]
      s.w2 @= s.b[0:4]

    @s.func
    def kw_add1(x):
      s.p @= zext(x, 8) + 1

    @update
    def up_kw_o():
      s.o @= zext(value=s.w, new_width=8)
      kw_add1(x=s.w2)


@design(lambda st, a, b, sel, en, reset: (None, {"o": a & 0xF, "p": b & 0xF, "q": ((a & 0xF) << 4) | (b & 0xF), "r": ((a & 0xF) + 1) & 0xF}))
class CallResultUse(Base):
  """a slice / a field / a method of the RESULT of a call, and a slice of a parenthesised expression"""
  def construct(s):
    s.ports()
    s.o = OutPort(Bits8)
    s.p = OutPort(Bits8)
    s.q = OutPort(Bits8)
    s.r = OutPort(Bits8)
    s.w = Wire(Bits4)
    s.w2 = Wire(Bits4)

    @update
    def up_cru_w():
      s.w @= s.a[0:4]
      s.w2 @= s.b[0:4]

    @update
    def up_cru_o():
      s.o @= zext(s.w, 16)[0:8]

    @update
    def up_cru_p():
      s.p @= zext(Pst(s.w, s.w2).y, 8)

    @update
    def up_cru_q():
      s.q @= concat(s.w, s.w2).uint()

    @update
    def up_cru_r():
      s.r @= zext((s.w + 1)[0:4], 8)


@design(lambda st, a, b, sel, en, reset: (None, {"o": (a + 1) & M8}))
class ReturnAnnotation(Base):
  """an update block with a return annotation"""
  def construct(s):
    s.ports()
    s.o = OutPort(Bits8)
    s.w = Wire(Bits8)

    @update
    def up_ra_w() -> None:
      s.w @= s.a

    @update
    def up_ra_o() -> None:
      s.o @= s.w + 1


# ------------------------------------------------------------------ flip-flop writes the DSL has to understand or refuse
# MAY_REJECT: the DSL may refuse these designs at elaboration (a pymtl3.dsl.errors exception); if it accepts one, the
# simulation has to follow the reference under every schedule.
MAY_REJECT = ("FFVarBit", "FFVarSlice", "FuncCombWriteInFF", "FFAliasWrite", "AliasAssignWrite", "AliasZip", "AliasNestedLoop",
              "AliasBranch", "AliasComponent", "AliasRebind", "AliasReversed", "AliasAssignFF", "AliasSliceWrite", "AliasMoreForms", "AliasMoreFormsFF", "FuncParameterWrite")
# designs whose SIMULATION is wrong on the unchanged tree (known findings of C01): not subjects of the translation checks
SIM_KNOWN_WRONG = ()


def _reg_a_ref(st, a, b, sel, en, reset):
  return ("r", a), {"o": a}


@design(_reg_a_ref)
class FFVarBit(Base):
  """bits of a register written one by one with a loop variable as the index"""
  def construct(s):
    s.ports()
    s.o = OutPort(Bits8)
    s.r = Wire(Bits8)
    s.o //= s.r

    @update_ff
    def ff_vb():
      for i in range(8):
        s.r[i] <<= s.a[i]


@design(_reg_a_ref)
class FFVarSlice(Base):
  """parts of a register written with loop-variable bounds"""
  def construct(s):
    s.ports()
    s.o = OutPort(Bits8)
    s.r = Wire(Bits8)
    s.o //= s.r

    @update_ff
    def ff_vs():
      for i in range(4):
        s.r[2 * i:2 * i + 2] <<= s.a[2 * i:2 * i + 2]


@design(_reg_a_ref)
class FuncWriteInFF(Base):
  """the non-blocking write sits in a function called from the flip-flop block"""
  def construct(s):
    s.ports()
    s.o = OutPort(Bits8)
    s.r = Wire(Bits8)
    s.o //= s.r

    @s.func
    def fwf_load(x):
      s.r <<= x

    @update_ff
    def ff_fwf():
      fwf_load(s.a)


def _two_stage_ref(st, a, b, sel, en, reset):
  r, q = st if st else (0, 0)
  return (a, r), {"o": r}


@design(_two_stage_ref)
class FuncCombWriteInFF(Base):
  """a function called at the clock edge writes with @=; a second flip-flop block reads the signal"""
  def construct(s):
    s.ports()
    s.o = OutPort(Bits8)
    s.r = Wire(Bits8)
    s.q = Wire(Bits8)
    s.o //= s.q

    @s.func
    def fcw_load(x):
      s.r @= x

    @update_ff
    def ff_fcw1():
      fcw_load(s.a)

    @update_ff
    def ff_fcw2():
      s.q <<= s.r


class _AliasInc(Component):
  def construct(s):
    s.in_ = InPort(Bits8)
    s.out = OutPort(Bits8)

    @update
    def up_alias_inc():
      s.out @= s.in_ + 1


@design(lambda st, a, b, sel, en, reset: (None, {"o": (2 * (a + 1)) & M8}))
class LocalAliasRead(Base):
  """signals of sub-components read through a local name bound in the block (for m in s.subs: ... m.out)"""
  def construct(s):
    s.ports()
    s.o = OutPort(Bits8)
    s.subs = [_AliasInc() for _ in range(2)]
    for m in s.subs:
      m.in_ //= s.a

    @update
    def up_lar():
      t = Bits8(0)
      for m in s.subs:
        t = t + m.out
      s.o @= t


# ------------------------------------------------------------------ constants of the same name from two Python modules
from vt.stmtfam_other import OtherModuleBase
GK = 9
GT = [7, 8, 9, 10]


@design(lambda st, a, b, sel, en, reset: (None, {"o": (a + 5) & M8, "q": (b + 2) & M8, "p": (a + 9) & M8, "r": (b + 8) & M8}))
class GlobalsOfTwoModules(OtherModuleBase):
  """the base class (another file) and the subclass each use their own module-level GK / GT"""
  def construct(s):
    super().construct()
    s.p = OutPort(Bits8)
    s.r = OutPort(Bits8)

    @update
    def up_g2m():
      s.p @= s.a + GK
      s.r @= s.b + GT[1]


# ------------------------------------------------------------------ negative constants, selects on temporaries
KNEG = -3


@design(lambda st, a, b, sel, en, reset: (None, {"o": 0xFD, "p": 0xFE, "q": 0xF, "r": 0xFB if en else a, "t": (a + 0xFD) & M8 if en else 0xFE}))
class NegativeConstants(Base):
  """negative integers: a module-level constant, a member constant, BitsN(-k) casts (two's complement in the width of the context)"""
  def construct(s):
    s.ports()
    s.o = OutPort(Bits8)
    s.p = OutPort(Bits8)
    s.q = OutPort(Bits4)
    s.r = OutPort(Bits8)
    s.t = OutPort(Bits8)
    s.kn = -2

    @update
    def up_negc():
      s.o @= KNEG
      s.p @= s.kn
      s.q @= Bits4(-1)
      s.r @= Bits8(-5) if s.en else s.a
      if s.en:
        s.t @= s.a + Bits8(-3)
      else:
        s.t @= s.kn


@design(lambda st, a, b, sel, en, reset: (None, {"o": bit(a, 3), "p": (a >> 2) & 0xF, "q": bit(b, sel)}))
class TmpVarSelect(Base):
  """bit / part / variable-bit selects of a temporary"""
  def construct(s):
    s.ports()
    s.o = OutPort(Bits8)
    s.p = OutPort(Bits8)
    s.q = OutPort(Bits8)

    @update
    def up_tvs():
      u = s.a
      s.o @= zext(u[3], 8)
      s.p @= zext(u[2:6], 8)
      v = s.b
      s.q @= zext(v[zext(s.sel, 3)], 8)


@design(lambda st, a, b, sel, en, reset: (None, {"o": b & 0xF, "p": a & 0xF}))
class TmpStructField(Base):
  """fields of a bitstruct-valued temporary"""
  def construct(s):
    s.ports()
    s.o = OutPort(Bits8)
    s.p = OutPort(Bits8)

    @update
    def up_tsf():
      t = Pst(s.a[0:4], s.b[0:4])
      s.o @= zext(t.y, 8)
      s.p @= zext(t.x, 8)


@design(lambda st, a, b, sel, en, reset: (None, {"o": 0x35 if en else 0xC2, "p": 0x35}))
class ConstStructWhole(Base):
  """bitstruct-valued member constants assigned whole to struct-typed ports"""
  def construct(s):
    s.ports()
    s.o = OutPort(Pst)
    s.p = OutPort(Pst)
    s.KP = Pst(3, 5)
    s.KQ = Pst(12, 2)

    @update
    def up_csw():
      if s.en:
        s.o @= s.KP
      else:
        s.o @= s.KQ
      s.p @= s.KP


# ------------------------------------------------------------------ index names: closure before global, comprehension variables
NIDX = 0      # deliberately different from the construct-level NIDX below
gi = 0        # deliberately the name of the generator-expression variable below


@design(lambda st, a, b, sel, en, reset: (None, {"o": (b + 2) & M8, "p": (2 * a + 2 * b + 6) & M8, "q": (b + 3) & M8}))
class IndexNameScopes(Base):
  """an index that is a variable of construct() with the name of a (different) module-level variable; an index bound by a
  generator expression / a lambda inside the block, again with the name of a module-level variable"""
  def construct(s):
    s.ports()
    s.o = OutPort(Bits8)
    s.p = OutPort(Bits8)
    s.q = OutPort(Bits8)
    s.w = [Wire(Bits8) for _ in range(4)]
    NIDX = 2

    @update
    def up_ins_w0():
      s.w[0] @= s.a

    @update
    def up_ins_w1():
      s.w[1] @= s.b + 1

    @update
    def up_ins_w2():
      s.w[2] @= s.b + 2

    @update
    def up_ins_w3():
      s.w[3] @= s.a + 3

    @update
    def up_ins_o():
      s.o @= s.w[NIDX]

    @update
    def up_ins_p():
      s.p @= sum(s.w[gi] for gi in range(4))

    @update
    def up_ins_q():
      pick = lambda gi: s.w[gi]
      s.q @= pick(1) + 2


# ------------------------------------------------------------------ a block / net that reads bits of the signal it writes
def _overlap_ref(st, a, b, sel, en, reset):
  lo = a & 0xF
  b2, b3 = bit(a, 2), bit(a, 3)
  v = lo | (b2 << 4) | (b3 << 5) | (b2 << 6) | (b3 << 7)
  return None, {"o": v}


@design(_overlap_ref)
class OverlapSelfNet(Base):
  """a connection between two OVERLAPPING slices of one signal: bit by bit acyclic (b4=b2, b5=b3, b6=b4, b7=b5), but the
  generated net block reads and writes the same signal"""
  def construct(s):
    s.ports()
    s.o = OutPort(Bits8)
    s.o[0:4] //= s.a[0:4]
    s.o[4:8] //= s.o[2:6]


@design(_overlap_ref)
class OverlapSelfBlock(Base):
  """the same dependence written as one update block"""
  def construct(s):
    s.ports()
    s.o = OutPort(Bits8)
    s.o[0:4] //= s.a[0:4]

    @update
    def up_osb():
      s.o[4:8] @= s.o[2:6]


# ------------------------------------------------------------------ bitstruct fields named like methods of Signal
Mst = mk_bitstruct("Mst", {"inverse": Bits4, "get_type": Bits4})


@design(lambda st, a, b, sel, en, reset: (None, {"o": (a & 0xF), "p": (b & 0xF) ^ 5}))
class FieldNamedLikeMethod(Base):
  """fields called inverse / get_type (names of methods every signal object has) written in one block and read in another"""
  def construct(s):
    s.ports()
    s.o = OutPort(Bits8)
    s.p = OutPort(Bits8)
    s.w = Wire(Mst)

    @update
    def up_fnm_w1():
      s.w.inverse @= s.a[0:4]

    @update
    def up_fnm_w2():
      s.w.get_type @= s.b[0:4]

    @update
    def up_fnm_o():
      s.o @= zext(s.w.inverse, 8)
      s.p @= zext(s.w.get_type ^ 5, 8)


# ------------------------------------------------------------------ names that start with "def"
@design(lambda st, a, b, sel, en, reset: (None, {"o": b, "p": (a + 1) & M8, "q": (a + 2) & M8}))
class NameStartsWithDef(Base):
  """statements that begin with an identifier starting with the letters d-e-f (the source of a block is de-indented before it is parsed)"""
  def construct(s):
    s.ports()
    s.o = OutPort(Bits8)
    s.p = OutPort(Bits8)
    s.q = OutPort(Bits8)
    s.w = Wire(Bits8)

    @s.func
    def defer_write(x):
      s.p @= x + 1

    @update
    def up_nsd_w():
      s.w @= s.a

    @update
    def up_nsd_o():
      s.o @= s.b
      defer_write(s.w)

    @update
    def up_nsd_q():
      default = s.w + 2
      s.q @= default


def _ff_alias_ref(st, a, b, sel, en, reset):
  regs = ((a) & M8, (a + 1) & M8, (a + 2) & M8)
  return regs, {"o": regs[0] ^ regs[1] ^ regs[2]}


@design(_ff_alias_ref)
class FFAliasWrite(Base):
  """registers written through a local name bound in the flip-flop block (for i, r in enumerate(s.regs): r <<= ...)"""
  def construct(s):
    s.ports()
    s.o = OutPort(Bits8)
    s.regs = [Wire(Bits8) for _ in range(3)]

    @update_ff
    def ff_aw():
      for i, r in enumerate(s.regs):
        r <<= s.a + i

    @update
    def up_aw():
      s.o @= s.regs[0] ^ s.regs[1] ^ s.regs[2]


# ------------------------------------------------------------------ second references to signals (plain bookkeeping attributes)
@design(lambda st, a, b, sel, en, reset: (None, {"o": (a + 1) & M8, "p": (b + 2) & M8, "q": ((a + 1) ^ (b + 2)) & M8}))
class SecondReferences(Base):
  """wires that are also kept in a list attribute and under a second attribute name; they are written by blocks and read through nets
  and through the list"""
  def construct(s):
    s.ports()
    s.o = OutPort(Bits8)
    s.p = OutPort(Bits8)
    s.q = OutPort(Bits8)
    s.w1 = Wire(Bits8)
    s.w2 = Wire(Bits8)
    s.ws = [s.w1, s.w2]
    s.first = s.w1
    s.o //= s.w1
    s.p //= s.w2

    @update
    def up_sr_1():
      s.w1 @= s.a + 1

    @update
    def up_sr_2():
      s.w2 @= s.b + 2

    @update
    def up_sr_q():
      s.q @= s.ws[0] ^ s.ws[1]


@design(lambda st, a, b, sel, en, reset: (None, {"o": 1 if _sx(a ^ b, 8, 16) < _sx(b ^ 1, 8, 16) else 0, "p": 1 if _sx((a + b) & M8, 8, 12) >= 0x800 else 0,
                                                 "q": (_sx(a ^ b, 8, 16) >> 4) & M8}))
class SextUnsignedContext(Base):
  """sign extension of compound expressions used where signedness matters: comparisons and a right shift"""
  def construct(s):
    s.ports()
    s.o = OutPort(Bits1)
    s.p = OutPort(Bits1)
    s.q = OutPort(Bits8)

    @update
    def up_suc():
      s.o @= sext(s.a ^ s.b, 16) < sext(s.b ^ 1, 16)
      s.p @= sext(s.a + s.b, 12) >= 0x800
      s.q @= trunc(sext(s.a ^ s.b, 16) >> 4, 8)


@design(lambda st, a, b, sel, en, reset: (None, {"o": bit((a + b) & M8, 3), "p": (((a + b) & M8) >> 2) & 0xF, "q": bit(a if en else b, 3)}))
class SelectOnExpression(Base):
  """a bit / part select applied to a parenthesised expression"""
  def construct(s):
    s.ports()
    s.o = OutPort(Bits1)
    s.p = OutPort(Bits4)
    s.q = OutPort(Bits1)

    @update
    def up_soe():
      s.o @= (s.a + s.b)[3]
      s.p @= (s.a + s.b)[2:6]
      s.q @= (s.a if s.en else s.b)[3]


@design(lambda st, a, b, sel, en, reset: (None, {"o": a, "p": b & 0x3F, "q": a & 0x0F}))
class LoopBoundExpression(Base):
  """loop bounds that are operations on constants (the bound is an operand of the comparison in the emitted for statement)"""
  def construct(s):
    s.ports()
    s.o = OutPort(Bits8)
    s.p = OutPort(Bits8)
    s.q = OutPort(Bits8)
    NA, NB = 12, 10

    @update
    def up_lbe():
      s.o @= 0
      s.p @= 0
      s.q @= 0
      for i in range(NA & NB):            # 8
        s.o[i] @= s.a[i]
      for i in range(NA ^ NB):            # 6
        s.p[i] @= s.b[i]
      for i in range(NB - NA + 6):        # 4
        s.q[i] @= s.a[i]


# ------------------------------------------------------------------ other local names that stand for a part of the component
# (MAY_REJECT: the DSL may refuse a form it does not analyse; if it accepts, every schedule has to follow the reference)
@design(lambda st, a, b, sel, en, reset: (None, {"o": (a + 2) & M8}))
class AliasAssignWrite(Base):
  """x = s.w; x @= ...: a wire written through a local name bound by a plain assignment"""
  def construct(s):
    s.ports()
    s.o = OutPort(Bits8)
    s.w = Wire(Bits8)

    @update
    def up_aaw_rd():
      s.o @= s.w + 1

    @update
    def up_aaw():
      x = s.w
      x @= s.a + 1


@design(lambda st, a, b, sel, en, reset: (None, {"o": ((a + 1) ^ (b + 1)) & M8}))
class AliasZip(Base):
  """for i_, o_ in zip(s.xs, s.ys): o_ @= i_ + 1"""
  def construct(s):
    s.ports()
    s.o = OutPort(Bits8)
    s.xs = [Wire(Bits8) for _ in range(2)]
    s.ys = [Wire(Bits8) for _ in range(2)]
    s.xs[0] //= s.a
    s.xs[1] //= s.b

    @update
    def up_az_rd():
      s.o @= s.ys[0] ^ s.ys[1]

    @update
    def up_az():
      for i_, o_ in zip(s.xs, s.ys):
        o_ @= i_ + 1


@design(lambda st, a, b, sel, en, reset: (None, {"o": ((a + 1) + (a + 2)) & M8}))
class AliasNestedLoop(Base):
  """for row in s.g: for w in row: w @= ..."""
  def construct(s):
    s.ports()
    s.o = OutPort(Bits8)
    s.g = [[Wire(Bits8) for _ in range(2)] for _ in range(2)]

    @update
    def up_anl_rd():
      s.o @= s.g[0][1] + s.g[1][1]

    @update
    def up_anl():
      for i, row in enumerate(s.g):
        for w in row:
          w @= s.a + i + 1


@design(lambda st, a, b, sel, en, reset: (None, {"o": ((a if en else 0) + 2 * (0 if en else a)) & M8}))
class AliasBranch(Base):
  """a local name bound to one of two wires under if / else, then written"""
  def construct(s):
    s.ports()
    s.o = OutPort(Bits8)
    s.w1 = Wire(Bits8)
    s.w2 = Wire(Bits8)

    @update
    def up_ab_rd():
      s.o @= s.w1 + s.w2 + s.w2

    @update
    def up_ab():
      if s.en:
        x = s.w1
        y = s.w2
      else:
        x = s.w2
        y = s.w1
      x @= s.a
      y @= 0


@design(lambda st, a, b, sel, en, reset: (None, {"o": (a + 2) & M8, "p": (a + 1 + b) & M8}))
class AliasComponent(Base):
  """m = s.subs[1]; ... m.out: a child read through a local name bound by a plain assignment"""
  def construct(s):
    s.ports()
    s.o = OutPort(Bits8)
    s.p = OutPort(Bits8)
    s.subs = [_AliasInc() for _ in range(2)]
    for m in s.subs:
      m.in_ //= s.a

    @update
    def up_ac():
      m = s.subs[1]
      s.o @= m.out + 1
      n = m
      s.p @= n.out + s.b


@design(lambda st, a, b, sel, en, reset: (None, {"o": (a ^ (b + 1)) & M8}))
class AliasRebind(Base):
  """x = s.w1; x @= ..; x = s.w2; x @= ..: the local name stands for two wires one after the other"""
  def construct(s):
    s.ports()
    s.o = OutPort(Bits8)
    s.w1 = Wire(Bits8)
    s.w2 = Wire(Bits8)

    @update
    def up_ar_rd():
      s.o @= s.w1 ^ s.w2

    @update
    def up_ar():
      x = s.w1
      x @= s.a
      x = s.w2
      x @= s.b + 1


@design(lambda st, a, b, sel, en, reset: (None, {"o": ((a + 1) ^ (a + 2) ^ (a + 2)) & M8}))
class AliasReversed(Base):
  """for w in reversed(s.ws) / for w in s.ws[1:]"""
  def construct(s):
    s.ports()
    s.o = OutPort(Bits8)
    s.ws = [Wire(Bits8) for _ in range(3)]

    @update
    def up_arv_rd():
      s.o @= s.ws[0] ^ s.ws[1] ^ s.ws[2]

    @update
    def up_arv():
      for w in reversed(s.ws):
        w @= s.a + 1
      for w in s.ws[1:]:
        w @= s.a + 2


def _alias_ff_ref(st, a, b, sel, en, reset):
  r = (a, (b + 1) & M8)
  return r, {"o": r[0] ^ r[1]}


@design(_alias_ff_ref)
class AliasAssignFF(Base):
  """r = s.r0; r <<= ...: registers written through a local name bound by a plain assignment / by zip"""
  def construct(s):
    s.ports()
    s.o = OutPort(Bits8)
    s.r0 = Wire(Bits8)
    s.rs = [Wire(Bits8) for _ in range(1)]
    s.bs = [Wire(Bits8) for _ in range(1)]
    s.bs[0] //= s.b

    @update_ff
    def ff_aaf():
      r = s.r0
      r <<= s.a
      for q, d in zip(s.rs, s.bs):
        q <<= d + 1

    @update
    def up_aaf():
      s.o @= s.r0 ^ s.rs[0]


def _par(x): return bin(x).count("1") & 1


@design(lambda st, a, b, sel, en, reset: (None, {"o": _par(a), "p": (a + 1 + b) & M8, "q": a}))
class AliasAugRebind(Base):
  """acc = s.a[0]; acc ^= s.a[i] / t = s.a; t += 1: an arithmetic augmented assignment computes a new value and gives it the local
  name; it does not write the signal the name stood for (only @= and <<= do)"""
  def construct(s):
    s.ports()
    s.o = OutPort(Bits1)
    s.p = OutPort(Bits8)
    s.q = OutPort(Bits8)

    @update
    def up_aar():
      acc = s.a[0]
      for i in range(1, 8):
        acc ^= s.a[i]
      s.o @= acc
      t = s.a
      t += 1
      t += s.b
      s.p @= t
      s.q @= s.a


@design(lambda st, a, b, sel, en, reset: (None, {"o": (a + 2) & M8, "p": ((a & 0xF0) | (b & 0x0F)) & M8}))
class TmpSharedObject(Base):
  """y = x; y @= ...: two local names of one value object (x changes as well); a slice of a local value updated in place"""
  def construct(s):
    s.ports()
    s.o = OutPort(Bits8)
    s.p = OutPort(Bits8)

    @update
    def up_tso():
      x = s.a + 1
      y = x
      y @= s.a + 2
      s.o @= x
      u = s.a + 0
      u[0:4] @= s.b[0:4]
      s.p @= u


@design(lambda st, a, b, sel, en, reset: (None, {"o": ((a & 0x0F) | ((b & 0x0F) << 4)) & M8}))
class AliasSliceWrite(Base):
  """x = s.w; x[0:4] @= ..: parts of a wire written through a local name"""
  def construct(s):
    s.ports()
    s.o = OutPort(Bits8)
    s.w = Wire(Bits8)

    @update
    def up_asw_rd():
      s.o @= s.w

    @update
    def up_asw():
      x = s.w
      x[0:4] @= s.a[0:4]
      x[4:8] @= s.b[0:4]


def _lvc_ref(st, a, b, sel, en, reset):
  o = 0
  for i in range(4):
    acc = 0
    for j in range(4):
      if j < i: acc += bit(a, j)
    o |= (acc & 3) << (2 * i)
  return None, {"o": o, "p": (6 * b) & M8}


@design(_lvc_ref)
class LoopVarCompare(Base):
  """two loop variables compared with each other, and a loop bound that is the outer loop variable"""
  def construct(s):
    s.ports()
    s.o = OutPort(Bits8)
    s.p = OutPort(Bits8)

    @update
    def up_lvc():
      s.o @= 0
      for i in range(4):
        for j in range(4):
          if j < i:
            s.o[2*i:2*i+2] @= s.o[2*i:2*i+2] + zext(s.a[j], 2)
      s.p @= 0
      for i in range(4):
        for j in range(i):
          s.p @= s.p + s.b


@design(lambda st, a, b, sel, en, reset: (None, {"o": ((a + 1) & M8) if en else 3, "p": (b + 7) & M8}))
class LambdaNameStartsWithDef(Base):
  """//= lambda whose text contains identifiers that start with 'def' after a blank"""
  def construct(s):
    s.ports()
    s.o = OutPort(Bits8)
    s.p = OutPort(Bits8)
    default_inc = Bits8(3)
    defer = Bits8(7)
    s.o //= lambda: s.a + 1 if s.en else default_inc
    s.p //= lambda: s.b + defer


@design(lambda st, a, b, sel, en, reset: (None, {"o": sel + 1}))
class CallAsInnerIndex(Base):
  """s.tbl[ idx() ].x: a function of the component used as an index that is followed by a field"""
  def construct(s):
    s.ports()
    s.o = OutPort(Bits8)
    s.k = Wire(Bits2)
    s.tbl = [Wire(Pst) for _ in range(4)]

    @s.func
    def idx_caii():
      return s.k

    @update
    def up_caii_rd():
      s.o @= zext(s.tbl[idx_caii()].x, 8)

    @update
    def up_caii_k():
      s.k @= s.sel

    @update
    def up_caii_tbl():
      for i in range(4):
        s.tbl[i].x @= i + 1
        s.tbl[i].y @= 0


@design(lambda st, a, b, sel, en, reset: (("r", b), {"o": (a + 2) & M8, "p": b}))
class ClosureBoundName(Base):
  """sub = s.sub = _AliasInc(); ... sub.out: parts of the component reached through a variable of construct()"""
  def construct(s):
    s.ports()
    s.o = OutPort(Bits8)
    s.p = OutPort(Bits8)
    sub = s.sub = _AliasInc()
    sub.in_ //= s.a
    rs = s.rs = [Wire(Bits8)]
    s.p //= s.rs[0]

    @update
    def up_cbn():
      s.o @= sub.out + 1

    @update_ff
    def ff_cbn():
      rs[0] <<= s.b


@design(lambda st, a, b, sel, en, reset: (None, {"o": (2 * (a + 1)) & M8, "p": (2 * b) & M8, "q": (a + 1) & M8, "r": ((a if en else 0) + 2 * (0 if en else a)) & M8}))
class AliasMoreForms(Base):
  """comprehension variables, loops over a list display and over a slice of a list, a name bound by a conditional expression"""
  def construct(s):
    s.ports()
    s.o = OutPort(Bits8)
    s.p = OutPort(Bits8)
    s.q = OutPort(Bits8)
    s.r = OutPort(Bits8)
    s.subs = [_AliasInc() for _ in range(2)]
    for m in s.subs:
      m.in_ //= s.a
    s.w1 = Wire(Bits8)
    s.w2 = Wire(Bits8)
    s.w3 = Wire(Bits8)
    s.w4 = Wire(Bits8)

    @update
    def up_amf_rd():
      s.p @= s.w1 + s.w2
      s.r @= s.w3 + s.w4 + s.w4

    @update
    def up_amf():
      vals = [m.out for m in s.subs]
      s.o @= vals[0] + vals[1]
      for w in [s.w1, s.w2]:
        w @= s.b
      t = Bits8(0)
      for m in s.subs[1:]:
        t = t + m.out
      s.q @= t
      x = s.w3 if s.en else s.w4
      y = s.w4 if s.en else s.w3
      x @= s.a
      y @= 0


def _amff_ref(st, a, b, sel, en, reset):
  regs = (a, (a + 1) & M8, (a + 2) & M8, b)
  return regs, {"o": regs[0] ^ regs[1] ^ regs[2] ^ regs[3]}


@design(_amff_ref)
class AliasMoreFormsFF(Base):
  """registers written through names bound by enumerate( xs, 1 ), list( xs ), an annotated assignment and a walrus"""
  def construct(s):
    s.ports()
    s.o = OutPort(Bits8)
    s.regs = [Wire(Bits8) for _ in range(4)]

    @update_ff
    def ff_amff():
      for i, r in enumerate(s.regs[1:3], 1):
        r <<= s.a + i
      for r in list(s.regs[0:1]):
        r <<= s.a
      q: object = s.regs[3]
      q <<= s.b

    @update
    def up_amff():
      s.o @= s.regs[0] ^ s.regs[1] ^ s.regs[2] ^ s.regs[3]


@design(lambda st, a, b, sel, en, reset: (None, {"o": (a + 2) & M8}))
class FuncParameterWrite(Base):
  """@s.func def assign( dst, v ): dst @= v -- a signal written through the parameter of a function"""
  def construct(s):
    s.ports()
    s.o = OutPort(Bits8)
    s.w = Wire(Bits8)

    @s.func
    def assign_fpw(dst, v):
      dst @= v

    @update
    def up_fpw_rd():
      s.o @= s.w + 1

    @update
    def up_fpw():
      assign_fpw(s.w, s.a + 1)


# MAY_REFUSE_SIM: the simulation passes may refuse these designs loudly (a TypeError that names the attribute); if they accept one, the
# simulation has to follow the reference
MAY_REFUSE_SIM = ("SecondNameOfPart",)


@design(lambda st, a, b, sel, en, reset: (None, {"o": a & 0xF, "p": (b >> 4) & 0xF}))
class SecondNameOfPart(Base):
  """s.lo = s.w[0:4] / s.fy = s.st.y: attributes that are second names of a slice / a field of a signal, read in a block"""
  def construct(s):
    s.ports()
    s.o = OutPort(Bits4)
    s.p = OutPort(Bits4)
    s.w = Wire(Bits8)
    s.st = Wire(Pst)
    s.lo = s.w[0:4]
    s.fy = s.st.y

    @update
    def up_snp_w():
      s.w @= s.a
      s.st.x @= s.b[0:4]
      s.st.y @= s.b[4:8]

    @update
    def up_snp():
      s.o @= s.lo
      s.p @= s.fy


@design(lambda st, a, b, sel, en, reset: (None, {"o": 0x56, "p": 7 & 3, "q": 6}))
class ConstStructInnerField(Base):
  """a struct-typed field of a bitstruct constant of construct() (the type of the constant occurs nowhere else in the design)"""
  def construct(s):
    s.ports()
    s.o = OutPort(Pst)
    s.p = OutPort(Bits2)
    s.q = OutPort(Bits4)
    KK = Qst(Pst(5, 6), 3)

    @update
    def up_csif():
      s.o @= KK.p
      s.p @= KK.z
      s.q @= KK.p.y


def sequences():
  """input sequences (lists of dicts): one long deterministic walk covering every (sel, en) with varied a, b; reset pulses inside"""
  A = (0, 1, 0x5A, 0xFF, 0x80, 0x0F, 0x37)
  Bv = (0, 3, 0xA5, 0xFF, 0x5A, 0x10)
  seq = []
  k = 0
  for a in A:
    for b in Bv:
      for sel in range(4):
        for en in (1, 0):
          seq.append(dict(a=a, b=b, sel=sel, en=en, reset=1 if k % 29 == 0 else 0))
          k += 1
  # a second pass in a different order so that sequential designs see other histories
  seq2 = [dict(a=(7 * i + 3) & 0xFF, b=(13 * i + 1) & 0xFF, sel=(i // 2) & 3, en=1 if i % 3 else 0, reset=1 if i == 0 else 0) for i in range(120)]
  return [seq, seq2]
