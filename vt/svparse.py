"""E3 -- parser for the SystemVerilog / Verilog subset emitted by pymtl3's two backends.

Hand-written recursive descent. Anything outside the subset raises Unsupported
(a machinery error for the checks, never a verdict); SvSyntaxError means the
text is not well formed even within the subset.

AST (tuples):
  expr: ("num", width|None, value) | ("id", name) | ("idx", e, i) | ("rng", e, msb, lsb) | ("ipx", e, start, width)
        | ("mem", e, field) | ("un", op, e) | ("bin", op, a, b) | ("tern", c, a, b) | ("cat", [e]) | ("rep", n, e)
        | ("cast", width, e) | ("pat", [e])
  stmt: ("blk", [stmt]) | ("if", c, then, else|None) | ("for", var, init, cond, step_stmt, body, decl_kind)
        | ("ba", lv, e) (blocking) | ("nba", lv, e)
"""
import re


class Unsupported(Exception):
  pass


class SvSyntaxError(Exception):
  pass


TOK = re.compile(r"""
   (?P<ws>\s+|//[^\n]*|/\*.*?\*/)
 | (?P<castw>\d+'(?=\())
 | (?P<num>(?:\d+)?'[sS]?[bBdDhHoO][0-9a-fA-F_xXzZ?]+)
 | (?P<apos>'\{)
 | (?P<int>\d+)
 | (?P<sys>\$[A-Za-z_][A-Za-z0-9_$]*)
 | (?P<id>[A-Za-z_][A-Za-z0-9_$]*)
 | (?P<op><<<|>>>|\+:|-:|==|!=|<=|>=|<<|>>|&&|\|\||\*\*|\+=|-=|\+\+|[-+*/%&|^~!<>=?:;,.(){}\[\]@\#])
""", re.X | re.S)

KEYWORDS = {"module", "endmodule", "input", "output", "logic", "integer", "localparam", "assign", "always_comb", "always_ff",
            "begin", "end", "if", "else", "for", "int", "unsigned", "typedef", "struct", "packed", "posedge", "wire", "reg", "parameter"}
# IEEE 1800-2017 Annex B: the reserved keywords. None of them may be used as an identifier.
RESERVED = KEYWORDS | set("""
accept_on alias always always_comb always_ff always_latch and assert assign assume automatic before begin bind bins binsof bit break buf
bufif0 bufif1 byte case casex casez cell chandle checker class clocking cmos config const constraint context continue cover covergroup
coverpoint cross deassign default defparam design disable dist do edge else end endcase endchecker endclass endclocking endconfig
endfunction endgenerate endgroup endinterface endmodule endpackage endprimitive endprogram endproperty endspecify endsequence endtable
endtask enum event eventually expect export extends extern final first_match for force foreach forever fork forkjoin function generate
genvar global highz0 highz1 if iff ifnone ignore_bins illegal_bins implements implies import incdir include initial inout input inside
instance int integer interconnect interface intersect join join_any join_none large let liblist library local localparam logic longint
macromodule matches medium modport module nand negedge nettype new nexttime nmos nor noshowcancelled not notif0 notif1 null or output
package packed parameter pmos posedge primitive priority program property protected pull0 pull1 pulldown pullup pulsestyle_ondetect
pulsestyle_onevent pure rand randc randcase randsequence rcmos real realtime ref reg reject_on release repeat restrict return rnmos rpmos
rtran rtranif0 rtranif1 s_always s_eventually s_nexttime s_until s_until_with scalared sequence shortint shortreal showcancelled signed
small soft solve specify specparam static string strong strong0 strong1 struct super supply0 supply1 sync_accept_on sync_reject_on table
tagged task this throughout time timeprecision timeunit tran tranif0 tranif1 tri tri0 tri1 triand trior trireg type typedef union unique
unique0 unsigned until until_with untyped use uwire var vectored virtual void wait wait_order wand weak weak0 weak1 while wildcard wire
with within wor xnor xor""".split())


def lex(text):
  pos, out = 0, []
  n = len(text)
  while pos < n:
    m = TOK.match(text, pos)
    if not m: raise SvSyntaxError(f"cannot tokenise at {text[pos:pos + 30]!r}")
    pos = m.end()
    k = m.lastgroup
    if k == "ws": continue
    out.append((k, m.group(k)))
  return out


class Parser:
  def __init__(self, text):
    self.t = lex(text)
    self.i = 0
    self.typedefs = {}

  # ---- token helpers
  def peek(self, k=0):
    return self.t[self.i + k] if self.i + k < len(self.t) else ("eof", "")
  def at(self, v): return self.peek()[1] == v
  def next(self):
    tok = self.peek(); self.i += 1; return tok
  def eat(self, v):
    tok = self.next()
    if tok[1] != v: raise SvSyntaxError(f"expected {v!r}, got {tok[1]!r} near token {self.i} ({self._ctx()})")
    return tok
  def _ctx(self):
    return " ".join(t[1] for t in self.t[max(0, self.i - 6):self.i + 4])
  def ident(self):
    k, v = self.next()
    if k != "id": raise SvSyntaxError(f"identifier expected, got {v!r} ({self._ctx()})")
    if v in RESERVED: raise SvSyntaxError(f"reserved keyword {v!r} used as an identifier ({self._ctx()})")
    return v
  def const_int(self):
    e = self.expr()
    v = const_eval(e)
    if v is None: raise Unsupported(f"constant expression expected ({self._ctx()})")
    return v

  # ---- file
  def parse(self):
    mods = []
    while self.peek()[0] != "eof":
      if self.at("typedef"): self.typedef()
      elif self.at("module"): mods.append(self.module())
      else: raise Unsupported(f"top-level construct {self.peek()[1]!r}")
    return dict(typedefs=self.typedefs, modules=mods)

  def packed_dims(self):
    dims = []
    while self.at("["):
      self.eat("["); a = self.const_int(); self.eat(":"); b = self.const_int(); self.eat("]")
      dims.append((a, b))
    return dims

  def dtype(self):
    """-> type: ("vec", w) | ("parr", elem, n) | ("struct", name)"""
    k, v = self.peek()
    if v in ("logic", "wire", "reg"):
      self.next()
      dims = self.packed_dims()
      return self._mk_packed(("vec", 1) if not dims else None, dims)
    if v == "integer":
      self.next(); return ("vec", 32)
    if k == "id" and v in self.typedefs:
      self.next()
      t = ("struct", v)
      for (a, b) in reversed(self.packed_dims()):        # packed array of packed structs
        if min(a, b) != 0: raise Unsupported("packed array range not starting at 0")
        t = ("parr", t, abs(a - b) + 1, a >= b)
      return t
    if v == "[":          # bare range (e.g. localparam [3:0] x)
      dims = self.packed_dims()
      return self._mk_packed(None, dims)
    if k == "id" and v not in KEYWORDS:
      # an identifier in type position that no typedef of this text defines
      raise SvSyntaxError(f"undefined type {v} ({self._ctx()})")
    raise Unsupported(f"data type {v!r} ({self._ctx()})")

  def _mk_packed(self, base, dims):
    if base is not None and not dims: return base
    # last dimension is the element vector, earlier ones are packed array dimensions
    (a, b) = dims[-1]
    if b != 0 and not (a == 0 and b == 0):
      if min(a, b) != 0: raise Unsupported("vector range not starting at 0")
    t = ("vec", abs(a - b) + 1)
    for (a, b) in reversed(dims[:-1]):
      if min(a, b) != 0: raise Unsupported("packed array range not starting at 0")
      t = ("parr", t, abs(a - b) + 1, a >= b)
    return t

  def typedef(self):
    self.eat("typedef"); self.eat("struct"); self.eat("packed"); self.eat("{")
    fields = []
    while not self.at("}"):
      t = self.dtype(); n = self.ident(); self.eat(";")
      fields.append((n, t))
    self.eat("}")
    name = self.ident(); self.eat(";")
    if name in self.typedefs: raise SvSyntaxError(f"typedef {name} defined twice")
    self.typedefs[name] = fields

  def unpacked_dims(self):
    dims = []
    while self.at("["):
      self.eat("["); a = self.const_int()
      if self.at(":"):
        self.eat(":"); b = self.const_int()
        if a != 0: raise Unsupported("unpacked range not [0:n]")
        dims.append(b + 1)
      else:
        dims.append(a)
      self.eat("]")
    return dims

  def module(self):
    self.eat("module")
    name = self.ident()
    m = dict(name=name, ports=[], decls=[], params=[], assigns=[], combs=[], ffs=[], insts=[], order=[])
    self.eat("(")
    while not self.at(")"):
      d = self.next()[1]
      if d not in ("input", "output"): raise Unsupported(f"port direction {d!r}")
      t = self.dtype(); n = self.ident(); dims = self.unpacked_dims()
      m["ports"].append((d, t, n, dims))
      if self.at(","): self.next()
    self.eat(")"); self.eat(";")
    while not self.at("endmodule"):
      self.item(m)
    self.eat("endmodule")
    return m

  def item(self, m):
    k, v = self.peek()
    if v == "localparam" or v == "parameter":
      self.next(); t = self.dtype(); n = self.ident(); dims = self.unpacked_dims(); self.eat("=")
      e = self.expr(); self.eat(";")
      m["params"].append((t, n, dims, e))
    elif v == "assign":
      self.next(); lv = self.lvalue(); self.eat("="); e = self.expr(); self.eat(";")
      m["assigns"].append((lv, e)); m["order"].append(("assign", len(m["assigns"]) - 1))
    elif v == "always_comb":
      self.next(); st, label = self.stmt_labeled()
      m["combs"].append((label, st)); m["order"].append(("comb", len(m["combs"]) - 1))
    elif v == "always_ff":
      self.next(); self.eat("@"); self.eat("("); self.eat("posedge"); clk = self.ident(); self.eat(")")
      st, label = self.stmt_labeled()
      m["ffs"].append((label, clk, st))
    elif v in ("logic", "integer", "wire", "reg") or (k == "id" and v in self.typedefs):
      t = self.dtype()
      while True:
        n = self.ident(); dims = self.unpacked_dims()
        m["decls"].append((t, n, dims, v == "integer"))
        if self.at(","): self.next(); continue
        break
      self.eat(";")
    elif k == "id":
      mod = self.ident(); inst = self.ident(); self.eat("(")
      conns = []
      while not self.at(")"):
        self.eat("."); p = self.ident(); self.eat("(")
        e = self.expr() if not self.at(")") else None
        self.eat(")")
        conns.append((p, e))
        if self.at(","): self.next()
      self.eat(")"); self.eat(";")
      m["insts"].append((mod, inst, conns)); m["order"].append(("inst", len(m["insts"]) - 1))
    else:
      raise Unsupported(f"module item {v!r} ({self._ctx()})")

  # ---- statements
  def stmt_labeled(self):
    label = None
    if self.at("begin") and self.peek(1)[1] == ":":
      label = self.peek(2)[1]
    return self.stmt(), label

  def stmt(self):
    k, v = self.peek()
    if v == "begin":
      self.next()
      if self.at(":"): self.next(); self.ident()
      body = []
      while not self.at("end"): body.append(self.stmt())
      self.eat("end")
      return ("blk", body)
    if v == "if":
      self.next(); self.eat("("); c = self.expr(); self.eat(")")
      th = self.stmt()
      el = None
      if self.at("else"): self.next(); el = self.stmt()
      return ("if", c, th, el)
    if v == "for":
      self.next(); self.eat("(")
      kind = "integer"
      if self.at("int"):
        self.next(); kind = "int"
        if self.at("unsigned"): self.next(); kind = "int unsigned"
      var = self.ident(); self.eat("="); init = self.expr(); self.eat(";")
      cond = self.expr(); self.eat(";")
      v2 = self.ident()
      if v2 != var: raise Unsupported("for-loop step on another variable")
      op = self.next()[1]
      if op == "+=": step = ("bin", "+", ("id", var), self.expr())
      elif op == "-=": step = ("bin", "-", ("id", var), self.expr())
      elif op == "=": step = self.expr()
      elif op == "++": step = ("bin", "+", ("id", var), ("num", None, 1))
      else: raise Unsupported(f"for-loop step operator {op!r}")
      self.eat(")")
      body = self.stmt()
      return ("for", var, init, cond, step, body, kind)
    lv = self.lvalue()
    op = self.next()[1]
    if op not in ("=", "<="): raise SvSyntaxError(f"assignment operator expected, got {op!r} ({self._ctx()})")
    e = self.expr(); self.eat(";")
    return ("ba" if op == "=" else "nba", lv, e)

  def lvalue(self):
    if self.at("{"):
      raise Unsupported("concatenation on the left-hand side")
    e = ("id", self.ident())
    return self.postfix(e)

  def postfix(self, e):
    while True:
      if self.at("."):
        self.next(); e = ("mem", e, self.ident())
      elif self.at("["):
        self.next(); a = self.expr()
        if self.at(":"):
          self.next(); b = self.expr(); self.eat("]"); e = ("rng", e, a, b)
        elif self.at("+:"):
          self.next(); w = self.expr(); self.eat("]"); e = ("ipx", e, a, w)
        elif self.at("-:"):
          raise Unsupported("-: part select")
        else:
          self.eat("]"); e = ("idx", e, a)
      else:
        return e

  # ---- expressions (precedence climbing, IEEE 1800 table 11-2)
  PREC = [("||",), ("&&",), ("|",), ("^",), ("&",), ("==", "!="), ("<", "<=", ">", ">="), ("<<", ">>", "<<<", ">>>"), ("+", "-"), ("*", "/", "%"), ("**",)]

  def expr(self):
    c = self.binary(0)
    if self.at("?"):
      self.next(); a = self.expr(); self.eat(":"); b = self.expr()
      return ("tern", c, a, b)
    return c

  def binary(self, lvl):
    if lvl == len(self.PREC): return self.unary()
    e = self.binary(lvl + 1)
    while self.peek()[0] == "op" and self.peek()[1] in self.PREC[lvl]:
      op = self.next()[1]
      r = self.binary(lvl + 1)
      e = ("bin", op, e, r)
    return e

  def unary(self):
    k, v = self.peek()
    if k == "op" and v in ("~", "!", "-", "+", "&", "|", "^"):
      self.next()
      return ("un", v, self.unary())
    return self.primary()

  def primary(self):
    k, v = self.next()
    if k == "num":
      return parse_number(v)
    if k == "int":
      return ("num", None, int(v))
    if k == "castw":
      w = int(v[:-1]); self.eat("("); e = self.expr(); self.eat(")")
      return self.postfix(("cast", w, e)) if False else ("cast", w, e)
    if k == "apos":
      items = [self.expr()]
      while self.at(","): self.next(); items.append(self.expr())
      self.eat("}")
      return ("pat", items)
    if v == "(":
      e = self.expr(); self.eat(")")
      return e
    if v == "{":
      first = self.expr()
      if self.at("{"):
        self.next(); inner = [self.expr()]
        while self.at(","): self.next(); inner.append(self.expr())
        self.eat("}"); self.eat("}")
        n = const_eval(first)
        if n is None: raise Unsupported("non-constant replication count")
        return ("rep", n, ("cat", inner) if len(inner) > 1 else inner[0])
      items = [first]
      while self.at(","): self.next(); items.append(self.expr())
      self.eat("}")
      return ("cat", items)
    if k == "sys":
      if v not in ("$signed", "$unsigned"): raise Unsupported(f"system function {v}")
      self.eat("("); e = self.expr(); self.eat(")")
      return ("signed", e) if v == "$signed" else ("unsigned", e)
    if k == "id":
      if v in RESERVED: raise SvSyntaxError(f"reserved word {v!r} used as identifier ({self._ctx()})")
      return self.postfix(("id", v))
    raise SvSyntaxError(f"unexpected token {v!r} in expression ({self._ctx()})")


def parse_number(tok):
  m = re.match(r"(\d+)?'([sS])?([bBdDhHoO])([0-9a-fA-F_xXzZ?]+)$", tok)
  w, s, base, digits = m.groups()
  if s: raise Unsupported("signed literal")
  digits = digits.replace("_", "")
  if re.search(r"[xXzZ?]", digits): raise Unsupported("x/z literal")
  val = int(digits, {"b": 2, "d": 10, "h": 16, "o": 8}[base.lower()])
  if w is None: return ("num", None, val)
  w = int(w)
  if w == 0: raise SvSyntaxError("zero-width literal")
  val &= (1 << w) - 1        # IEEE 1800 5.7.1: a number larger than its size is truncated from the left (legal; tools only warn)
  return ("num", w, val)


def const_eval(e):
  k = e[0]
  if k == "num": return e[2]
  if k == "bin":
    a, b = const_eval(e[2]), const_eval(e[3])
    if a is None or b is None: return None
    try:
      return {"+": a + b, "-": a - b, "*": a * b, "<<": a << b, ">>": a >> b}[e[1]]
    except KeyError: return None
  if k == "cast": return const_eval(e[2])
  return None


def parse(text):
  return Parser(text).parse()
