"""Regenerates /verif/MANIFEST.json from the table below (python -m vt.manifest)."""
import json
import os

ROOT = os.path.dirname(os.path.dirname(os.path.abspath(__file__)))

# id -> (category, technique, level text, level note, design ref, engine)
CHECKS = {
 "C04": ("exploration",
         "bounded exhaustive enumeration of operand tuples vs integer reference; BFS to closure of the mutation protocol",
         "Every operator, constructor and assignment form of Bits is run on every operand pair for widths 1..5 (8 thorough), "
         "on a boundary alphabet for every width 1..1023 and on mixed-width pairs, and compared with plain Python integer "
         "arithmetic; the @=/<<=/_flip/clone/set-item protocol is explored as a state graph to closure for widths 1..3(4); every operator result is checked to be a fresh object (compute twice, mutate the first result in place four ways, recompute) for widths 1..3 (5).",
         "Trusted: Python int arithmetic and the 60-line spec() in vt/checks/c04.py. Values outside the alphabets "
         "(interior values of wide widths) are not covered.",
         "DESIGN.md 6.C04", "E1"),
 "C05": ("exploration",
         "bounded exhaustive enumeration of (width, value, bounds, bound form, written value) tuples vs bit-level integer definitions",
         "Every read/write of every slice (steps None, 1, 2 and 0) and index with bounds in {None,-2..n+2} (given as int, as Bits and, for indices, as the non-integral float i+0.5) on every value of widths 1..5 (7 thorough), "
         "boundary bounds on widths 8..1023, all concat tuples of <=3 operands of widths 1..3 (thorough: widths 1..4 and 4 operands), all zext/sext/trunc (n,m) pairs, reduce ops on all values "
         "of widths 1..8 and clog2 on 1..2^17 (2^24) plus 2^k-1,2^k,2^k+1 for k<1100 (as ints and as Bits values) are compared with the integer definition, including the frame condition on writes.",
         "Trusted: Python ints and the oracles in vt/checks/c05.py. Interior values of wide words are not covered.",
         "DESIGN.md 6.C05", "E1"),
 "C19": ("model_checking",
         "explicit-state BFS to closure over the real arbiter (fresh elaboration + history replay per transition) against a pointer model; fairness as safety on the product graph",
         "All reachable priority-register states of RoundRobinArbiter(En) for nreqs 2..6 (10 thorough) under every (reqs,en,reset) letter are visited by executing the "
         "real simulator; grants, pointer update, reset and the wait bound are compared with an integer pointer model in every transition.",
         "Trusted: the 15-line pointer model. Only nreqs up to the bound; DefaultPassGroup scheduling (schedule independence is C01's subject).",
         "DESIGN.md 6.C19", "E1"),
 "C17": ("model_checking",
         "explicit-state BFS to closure over the product (real queue registers, reference list); one fresh elaboration + history replay per transition",
         "Every RTL queue of stdlib/queues/queues.py, enrdy_queues.py and stream/queues.py and every CL queue, capacities 1..3 (6 thorough), messages {1,2,3} "
         "and a struct entry type, is driven by every protocol-legal (enq offer, msg, deq offer) letter from every reachable state; rdy/val, delivered message, "
         "fire signals and count are compared with a list model each cycle. The CL<->RTL adapters of stdlib/ifcs/send_recv_ifcs.py are exercised in chains CL producer -> RecvCL2SendRTL -> "
         "en/rdy queue -> RecvRTL2SendCL -> CL consumer (inserted by connect()) for every offer sequence of length <= 4 (6): delivered is a prefix of accepted, buffering is bounded, "
         "nothing is lost after draining; the same chains into each CL queue (stored entries must not change with the source signal, sequences <= 3 (4)) and RTL queues wrapped behind CalleeIfcCL ports of a parent driven by two blocks.",
         "Trusted: vt/fifo.py (40 lines) and the en/rdy clipping loop of the harness. valrdy_queues.py is unimportable on this tree and therefore not covered. "
         "Reset mid-history is not part of the property and not explored.",
         "DESIGN.md 6.C17", "E1 E4"),
 "C01": ("model_checking",
         "schedule enumeration on the real simulator: all pass groups x all linear extensions (cap) x all ff permutations x SimpleSchedulePass shuffle-seam DFS, vs an independent dataflow reference",
         "For ~600 generated designs (access-shape products over Bits/struct/nested/list carriers, hierarchy placements, nets, registers) every one of the five "
         "scheduling pass groups, every linear extension of the constraint DAG (cap 60/720) times every flip-flop order, and every schedule SimpleSchedulePass can "
         "emit are run over all input vectors / sequences; ALL signals are compared with the reference after each eval and tick, and the fixed point is re-checked. "
         "~125 hand-written statement-family designs (vt/stmtfam.py, incl. reads inside index expressions / keyword arguments / call results, names resolved in the wrong scope, "
         "fields named like Signal methods, every way of giving a part of the component a local name (loop variables, plain / tuple / conditional / annotated assignments, zip, "
         "comprehensions, variables captured from construct()), second names of parts of signals, flip-flop writes the DSL must understand or refuse) run under the same groups, the real PassGroups classes and every "
         "SimpleSchedulePass schedule against their reference functions, with the fixed point asserted after ONE combinational evaluation.",
         "Trusted: vt/irref.py (reference evaluator, self-checked by reverse-order settle) and the generators' legality. Bounds: widths <= 4, <= 7 blocks, sequence length 2 (3).",
         "DESIGN.md 6.C01", "E1 E2"),
 "C02": ("model_checking",
         "recorded execution order (sys.setprofile) of every block in every pass group and every shuffle-seam schedule, checked against bit-level read/write sets from the IR",
         "For the same design families plus explicit-constraint, cyclic-constraint, CL-queue-caller and FL (greenlet) designs, the order in which update blocks and "
         "net blocks actually execute inside sim_eval_combinational and sim_tick is recorded and every writer-before-reader and explicit obligation is checked; "
         "each block must run exactly once per pass. Thorough runs every pass group under 4 object-hash permutations and up to 400 seam schedules per design. "
         "OpenLoopCLPass: every sequence of <= 4 (5) top-level method calls on 7 designs (push/pull around update blocks, the three CL queues with capacity 1 and 2): blocks, guards and "
         "methods run at most once per cycle in constraint order, a call is not pushed into the next cycle when the partial order forces it into the current one, and the returned values "
         "equal a model that replays the executed order; the pass's vertex shuffle is owned by the harness (all 8 tie-breaks for sequences of length <= 3); designs with an iterated group of blocks "
         "with a top-level callee connected to a child method (directly and through a chain of method constraints), with a block that makes a blocking call (WrapGreenletPass applied as in "
         "AutoTickSimPass), and four cyclic designs the pass has to refuse. Hand-written CL / FL designs (also update_once without method ports, a method called through a function, WR / RD constraints on "
         "connected ports and on fields of them, method constraints through M(x) == M(y) pass-throughs on both sides) run under Default, Simple, Unroll, HeuTopoUnrollSim and Mamba2020.",
         "Trusted: bit-level access analysis in vt/ir.py; net blocks are identified through genblk_writes. Variable indices are treated conservatively.",
         "DESIGN.md 6.C02", "E1 E2"),
 "C07": ("model_checking",
         "schedule enumeration: every ff-block permutation x comb linear extensions x pass groups on register-centred designs, reference tick semantics + in-tick probe",
         "Register designs with 1..9 update_ff blocks (Bits, struct, nested struct, list and list-of-struct registers; registers spread over parent/child/grandchild; "
         "registers read by ff blocks, comb blocks and through nets) are run under all pass groups, all k! ff orders (k<=4; rotations/reversals beyond), and all input "
         "sequences of length 2 (3); every signal is compared with the reference after each tick and a probe between the ff blocks shows nothing changes before the flip.",
         "Trusted: vt/irref.py tick semantics; schedule surgery on schedule_ff is compiled by the real PrepareSimPass.create_sim_tick.",
         "DESIGN.md 6.C07", "E1 E2"),
 "C06": ("exploration",
         "bounded exhaustive enumeration of struct type shapes x packed values vs an independent layout spec; exhaustive copy/assignment histories on two objects vs Python trees",
         "About 800 (quick) / 9000 (thorough) bitstruct shapes (<=3 fields (4 thorough), nested structs up to depth 3, 1-d and 2-d list fields of Bits and of structs, width <= 12 (14; 40 for the deep shapes)) are created with the "
         "real mk_bitstruct; for every packed value (width <= 8 (11 thorough); boundary patterns above) layout, both round trips, ==, hash, dict lookup, clone, deepcopy, @=, <<=/_flip and "
         "independence of every leaf are checked; all histories of length <= 2 (3) of assignments/copies/in-place mutations on two objects (incl. a new value constructed from the field objects of the other) are compared with plain value trees; values built from plain ints must equal the Bits-built ones; "
         "a second definition with the same class name and permuted fields must pack in its own order; ragged / mixed list specifications are refused; a derived @bitstruct class packs the inherited fields.",
         "Trusted: vt/layout.py (40 lines). Widths above 12 and more than 3 fields are not covered.",
         "DESIGN.md 6.C06", "E1 E4"),
 "C11": ("model_checking",
         "enumeration of cyclic block graphs x cyclic-capable schedulers x all input sequences (pre-states); fixed-point re-check on the real blocks, reference values for false loops",
         "122 block-level cyclic designs (false loops through whole signals, slices, fields, nested fields, list elements; SCCs as sources and behind a predecessor; rings of 3..12 "
         "blocks; latching and oscillating true loops; update_once members) are evaluated under DynamicSchedulePass and Mamba2020Pass for every input sequence of length 2 (3); "
         "each return is re-checked to be a fixed point and, for false loops, equal to the reference; divergence and update_once must raise (also when the cycle passes through a connection or the "
         "update_once block calls a blocking method); acyclic-only passes must reject with UpblkCyclicError, also when the harness answers 'no graph viewer installed' for the drawing aid they call first. "
         "Loops inside ONE block are part of the family (recorded known finding).",
         "Trusted: vt/irref.py for false loops; a 20 s alarm as hang detector. Loops through nets/children are not generated.",
         "DESIGN.md 6.C11", "E1 E2"),
 "C13": ("exploration",
         "bounded exhaustive enumeration: every pair of a 51-entry catalogue of colliding component instances under one top x both backends (name/body rule + execution of the emitted text), "
         "and a design catalogue x enumerated PYTHONHASHSEED child processes + object-hash permutations (byte comparison)",
         "Aliasing: every pair (quick: unordered, thorough: ordered) of catalogue entries -- same class with different values / types / keyword order / defaults / list, type and bitstruct-type "
         "parameters / >64-character and special-character parameter lists, two classes with one __name__, bodies depending on module-level state, a set_param override -- is built as two "
         "children of one top and translated by both backends; the text is parsed (every module once, every instantiated name defined, identifiers unique per scope), two instances sharing a "
         "module name must have identical stand-alone bodies, and the text is executed on 12 inputs against the PyMTL simulation. Determinism: 55 (thorough: +E2 designs) designs x 2 backends "
         "are translated in one fresh child process per hash seed (6 / 16 seeds) and under 3 object-hash permutations in-process; sha1 of every text must agree (incl. set- and function-holding container "
         "arguments). Twelve name-mangling designs (non-ASCII names, blocks named like signals, colliding struct type names). The 23 designs pymtl3 ships (stdlib queues / arbiters / register file / "
         "crossbar, ex02 - ex04 incl. the processor) must translate in both backends and parse with every instantiated module defined once.",
         "Hash seeds are enumerated, not quantified (str hashing is outside Python's control). Trusted: vt/svparse.py / vt/svsim.py. Mangled-identifier collisions are a recorded known finding.",
         "DESIGN.md 6.C13", "E1 E3"),
 "C14": ("exploration",
         "bounded exhaustive enumeration of hierarchies (member menus per level) with on-demand field/slice creation; every object's name evaluated back on the real elaborated design",
         "Every hierarchy with <= 3 (4 thorough) top members and <= 2 (3) mid-level members drawn from 13- and 10-entry menus (components, lists and 2-d lists of components, interfaces and lists of them, "
         "method ports, Bits/struct/struct-with-list/nested-struct/list-of-struct signals, lists of signals) is elaborated twice; update blocks, connections and post-elaboration "
         "accesses create field, list-field, slice, slice-of-slice and bit signals; for every object eval(repr(o)) is o, names are unique, parent/host/level/top-level-signal agree "
         "with the name, get_leaf_signals works, and both elaborations give the same name sets. The menus include second references to already placed objects (alias attribute, list of references), "
         "lists that grow after they were assigned (+=, append, item assignment) or have holes, inverse and twice-inverted interfaces, interfaces with a port referenced twice, a component class "
         "that inherits a method interface, and a struct field named like a method of signals; the local collection APIs must return objects of their component only.",
         "Trusted: the 10-line name splitter. Depth 2 only; set_param trees are not exercised.",
         "DESIGN.md 6.C14", "E1"),
 "C15": ("model_checking",
         "explicit-state exploration over histories of replace_component calls on a real elaborated design; differential oracle vs the from-scratch build (metadata, simulation) + object-graph reachability sweep",
         "Every history of length <= 2 (3) of replace_component / replace_component_with_obj over 5 positions (top child, list elements, grand-child, list element below a non-top parent) "
         "and 9 classes (comb, ff, nested child + const + slice connection + U<U, RD/WR constraints, lambdas, slicing blocks, CL with update_once + M constraints, internal method net, a class without method ports) is applied; the parent / top hold constraints on blocks, method ports and non-blocking interfaces of the replaced objects, functions that read ports two levels down or loop over the child list, update_ff writes into child ports, blocks looping over the child list, constraints with a block of a child on the block side and second references to objects of the children; "
         "all queryable metadata is compared by name with the design built directly, both are simulated over all input sequences of length 2, and nothing of a removed subtree may be reachable from top.",
         "Trusted: the canonicalisation in meta() (names only). One hierarchy shape; add_value_port/add_connection APIs are not explored.",
         "DESIGN.md 6.C15", "E1"),
 "C16": ("model_checking",
         "exhaustive input sequences on the real simulator with VCD + text-wave passes; dump read back by an independent VCD parser and compared per signal per cycle with sampled simulator values",
         "28 designs (one-bit signals holding comparison results, 64- and 72-bit nets stepped between values congruent modulo 2^61-1, nets of top-level signals sharing one identifier, nets with slices, struct signals, constants tied to ports, never-changing signals, children, "
         "100- and 200-output designs that need multi-character identifier codes) are simulated for every sequence of length 3 (5) over a 4-letter (5-letter) alphabet that revisits values; "
         "every declared variable of every scope must be present once with the right width and carry, at time 100*t, the value sampled before the edge of cycle t; clock edges and "
         "the text-wave record are checked too; a second design with recording is prepared (never simulated) in the same process and must stay untouched; children named s / top; "
         "a hand-written design with interface members called clk / reset / mosi for every sequence up to length 4.",
         "Trusted: vt/vcdparse.py (90 lines). Net numbering order is controlled through the object-hash seam (4 permutations).",
         "DESIGN.md 6.C16", "E1 E2 E4"),
 "C08": ("exploration",
         "bounded exhaustive enumeration of connection multisets x statement orders x side flips x object-hash permutations; nets/writers vs union-find + driver propagation from the IR; simulation vs reference",
         "Over a fixed 4-component hierarchy with a 52-entry alphabet of legal connections (signal-signal at each level, slices, slices of slices, struct fields, slices of struct fields, "
         "constants, slices overlapping / containing / inside block-driven slices) every multiset of size <= 3 (4) that the harness's own bit-level analysis finds legal is elaborated "
         "under every statement order, side flips and hash permutations; get_all_value_nets() must equal the connected components with the unique driver as writer, identically for all "
         "orders, and every signal must simulate to the reference value. Hand-written cases: a constant object reused for two connections and modified in between / afterwards.",
         "Trusted: vt/irref.py driver propagation and the role table in c08.expected_nets. Sets it finds illegal are skipped (C09's domain). Quick tier takes every third triple family.",
         "DESIGN.md 6.C08", "E1 E2"),
 "C09": ("exploration",
         "bounded exhaustive enumeration of small designs with at most one structural defect (and every defect-free sibling) x statement orders x hash permutations; verdict vs independent bit-level driver / port-rule analysis",
         "About 1100 designs: two writes to one carrier over all access-shape pairs (whole, overlapping/adjacent/contained slices, bits, fields, nested fields, list elements with constant and "
         "variable index, struct with list field) by the same block, two comb blocks, comb+ff, comb+lambda, block+net (from input, constant, driven wire), net+net, child/parent/grand-parent "
         "positions; undriven nets, connection loops, duplicate connections, overlapping slice nets; every port rule Type 1-9 and the loop-back rule with its legal counterpart, also seen from the component that makes the connection (grand-parent connecting two grand-children, parent driving an out port / a wire of its child); mismatching interfaces connected in both orders; every "
         "assignment operator in update / update_ff on whole signals, list elements, slices, fields; writes reaching a signal through @s.func functions (two callers, nested calls, diamonds); ~60 hand-written cases for what the generator cannot express (signals written through local and captured names, "
         "methods of signal values, Bits constants as indices, lambda text, Placeholder connect, a block named like a function). elaborate() must raise the class the analysis predicts, or nothing. "
         "Thorough adds ~760 three-writer designs (every multiset of three access shapes; three blocks / two in one block / one block / two blocks + a net) under all block orders and 6 hash permutations.",
         "Trusted: c09.analyze (per-bit driver sets, net source propagation, port-direction table). Designs with several simultaneous defects are not generated.",
         "DESIGN.md 6.C09", "E1 E2"),
 "C18": ("model_checking",
         "exhaustive request streams x port splits x timing configurations x stall-oracle schedules (deviation bounded) on the real memories; linearizability vs a byte-level reference by brute-force interleaving search",
         "MagicMemoryCL (1-2 ports) and the stream MagicMemoryRTL are driven by scripted sources/sinks: every stream of <= 2 requests (3 over a collision sub-alphabet) from an 18-letter alphabet "
         "(word / half / byte / 3-byte / unaligned writes and reads on overlapping addresses, all nine AMOs on a word with bit 31 set, sub-word AMOs of 1-3 bytes), every 2-port split over the collision alphabet, "
         "7 (60) timing configurations incl. long back-pressure, stall oracle with deviation bound 1 (2). Responses and the final image must equal some real-time-consistent sequential execution. Edge cases of the direct FL model: every access whose range touches the first / last byte of the memory, read_mem / write_mem over every range.",
         "Trusted: vt/memref.py and the interleaving search. MagicMemoryFL is exercised through the CL/stream wrappers and directly for the edge cases.",
         "DESIGN.md 6.C18", "E1 E4"),
 "C20": ("exploration",
         "bounded exhaustive enumeration of instruction windows x manager values x timing configurations x deviation-bounded stall schedules on ProcFL/CL/RTL vs an independent ISA interpreter; all 4^8 checksum inputs",
         "Every window of <= 2 instructions over a 19-letter alphabet (ALU ops in both register orders, lw/sw on two words, forward and counted backward bne, csrr/csrw of mngr2proc, "
         "proc2mngr and xcelreg0, filler), every 3-window over a 9-letter sub-alphabet (4 in thorough), and far forward/backward branches around the +-2 KiB immediate boundary run "
         "on the three processor models in a harness with the real MagicMemoryCL; sink messages and final data memory must equal the interpreter's. 65536 checksum inputs through FL/CL/RTL.",
         "Trusted: vt/isa.py (interpreter + encoder, encoder cross-checked against the repo's assembler in selftest). Timing space is a fixed config list + stall deviation 1.",
         "DESIGN.md 6.C20", "E1 E4"),
 "C10": ("exploration",
         "bounded exhaustive enumeration of update blocks (expression trees x assignment forms + statement shapes) through the real RTLIR generation and per-block type check; probe-instrumented execution over all inputs; literal-width sweep",
         "About 74k (1.6M thorough) blocks `t = e` / `s.out_w @= e` (w in 1,4,8,9) for every expression of depth 1 over 21 leaves (ports, sized constants, literals, int and Bits free variables, "
         "struct field, list element, slice, variable bit index, explicit / implicit temporaries, loop variable) and depth 2 over representative leaves, plus loops with ascending / descending / "
         "strided ranges, temporaries re-assigned under an if, conditionals between literals. Accepted blocks are executed with a probe around every typed sub-expression for 192 input combinations: static width == runtime "
         "width and no width error outside the statement's carve-outs. Literal widths are checked for 0..2^14 (2^20) and 2^k-1, 2^k, 2^k+1 up to k = 70.",
         "Trusted: the probe instrumentation and the attribution of a block to 'computes with implicit ints' / 'folded constant' (the two recorded systemic findings); blocks outside those classes "
         "are checked strictly.",
         "DESIGN.md 6.C10", "E1"),
 "C03": ("translation_validation",
         "bounded exhaustive enumeration of designs and inputs; the emitted SystemVerilog is executed by an own interpreter of the emitted subset and compared with the PyMTL simulation and the IR reference; driver map per bit",
         "About 1200 designs -- all translatable members of the E2 families (access-shape products over Bits / struct / nested struct / list / struct-with-list carriers, hierarchy, nets, "
         "registers), ~5700 (more in thorough) typed expression / statement blocks (all operators, casts, zext/sext/trunc/concat/reduce, conditionals, variable indices, slices, fields, "
         "loops incl. descending / strided, temporaries), struct ports of five shapes moved by connections, 2-D interface arrays, interfaces holding port arrays, arrays of parameterised "
         "sub-components, heterogeneous interface / component lists, nested interface arrays indexed by expressions, width-preserving casts inside operators, ~125 hand-written statement designs (vt/stmtfam.py) -- are translated by the real VerilogTranslationPass; the text is parsed and simulated for every input vector / sequence and every output port is compared each step; the declared width of every top-level port is compared with the PyMTL port. Nine designs are also translated after the same instance has been simulated: same text as a fresh instance, or refused.",
         "Trusted base: vt/svparse.py + vt/svsim.py (IEEE 1800 clause 11 sizing and signedness incl. signed integer variables, two-state) -- no Verilog simulator exists in the sandbox; it is calibrated by three-way agreement with "
         "PyMTL and vt/irref.py. Syntactic validity is decided for the emitted subset only.",
         "DESIGN.md 6.C03", "E1 E2 E3"),
 "C12": ("translation_validation",
         "same enumeration and interpreter as C03 through YosysTranslationPass; ports driven / read through their flattened leaves using the layout specification",
         "The C03 designs through the Yosys backend. Struct, list and interface ports are driven and observed leaf by leaf (p__field, p__i, ifc__i__j__port), the packed value being sliced / "
         "re-assembled with the independent layout; every variable bit must have one driver.",
         "As C03. Two systemic findings on struct-typed signals and one on heterogeneous component arrays are recorded as known findings (signatures keyed by the struct-usage class of the design).",
         "DESIGN.md 6.C12", "E1 E2 E3"),
}

NOT_YET = {}

ENGINES = [
  dict(name="E1", path="vt/explore.py", kind_free_text="explicit-state / stateless exploration library: choice-point DFS, linear extensions, BFS by history over the real transition function",
       serves_properties=[]),
  dict(name="E2", path="vt/ir.py vt/irgen.py vt/irref.py vt/dut.py", kind_free_text="design IR, bounded design-family generators, pymtl3 emitter, independent reference evaluator, pass-group driver",
       serves_properties=[]),
  dict(name="E3", path="vt/svparse.py vt/svsim.py vt/trcheck.py", kind_free_text="parser and two-state simulator for the SystemVerilog / Verilog subset the two backends emit (IEEE 1800 expression sizing), driver map, translation harness",
       serves_properties=[]),
  dict(name="E4", path="vt/fifo.py", kind_free_text="small independent reference models (FIFO list spec, memory, ISA interpreter, VCD reader, struct layout)",
       serves_properties=[]),
]


def build():
  props = [json.loads(l) for l in open(os.path.join(ROOT, "properties.jsonl"))]
  ids = [p["id"] for p in props]
  checks, na = [], []
  for pid in ids:
    if pid in CHECKS:
      cat, tech, text, note, ref, eng = CHECKS[pid]
      checks.append(dict(
        property_id=pid,
        quick_cmd=f"./check {pid} --tier quick",
        thorough_cmd=f"./check {pid} --tier thorough",
        evidence_file=f"/verif/evidence/{pid}.json",
        replay_cmd_template=f"./check {pid} --replay {{path}}",
        engine=eng,
        level_claimed=dict(category=cat, text=text, design_ref=ref),
        level_note=note,
        technique=tech))
    else:
      na.append(dict(property_id=pid, reason=NOT_YET.get(pid, "check not built yet in this session; planned in DESIGN.md section 6 (model checking applies)")))
  engines = []
  for e in ENGINES:
    e = dict(e)
    e["serves_properties"] = [pid for pid in ids if pid in CHECKS and e["name"] in CHECKS[pid][5]]
    engines.append(e)
  m = dict(
    version=1,
    setup_cmd="./check --selftest",
    hooks=dict(guard="PYMTL3_VERIF", enable="export PYMTL3_VERIF=1 (set by ./check; no source hook is currently needed: all seams are installed from the harness side)",
               baseline_off_cmd="cd /repo && env -u PYMTL3_VERIF /venv/bin/python -m pytest -ra -q -p no:cacheprovider --timeout=900 --continue-on-collection-errors",
               source_commits=[], add_only=True),
    engines=engines,
    checks=checks,
    not_applicable=na,
    notes="All checks import pymtl3 from /repo's working tree (editable install); nothing is built or cached. See DESIGN.md.")
  return m


if __name__ == "__main__":
  m = build()
  with open(os.path.join(ROOT, "MANIFEST.json"), "w") as f:
    json.dump(m, f, indent=1)
    f.write("\n")
  print("checks:", [c["property_id"] for c in m["checks"]], "not_applicable:", len(m["not_applicable"]))
