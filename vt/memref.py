"""E4 -- byte-addressed little-endian memory with READ / WRITE / AMO (reference for C18, C20)."""

READ, WRITE = 0, 1
AMO_ADD, AMO_AND, AMO_OR, AMO_SWAP, AMO_MIN, AMO_MINU, AMO_MAX, AMO_MAXU, AMO_XOR = 3, 4, 5, 6, 7, 8, 9, 10, 11
AMOS = (AMO_ADD, AMO_AND, AMO_OR, AMO_SWAP, AMO_MIN, AMO_MINU, AMO_MAX, AMO_MAXU, AMO_XOR)
M32 = 0xFFFFFFFF


def _s32(x): return x - (1 << 32) if x >> 31 else x


class Mem:
  def __init__(self, image=None):
    self.b = dict(image or {})

  def copy(self): return Mem(self.b)

  def read(self, addr, n):
    return sum(self.b.get(addr + i, 0) << (8 * i) for i in range(n))

  def write(self, addr, n, data):
    for i in range(n): self.b[addr + i] = (data >> (8 * i)) & 255

  def apply(self, req):
    """req = (type, opaque, addr, len, data) -> response (type, opaque, test, len, data)"""
    typ, opq, addr, ln, data = req
    n = ln if ln else 4
    if typ == READ:
      return (typ, opq, 0, ln, self.read(addr, n))
    if typ == WRITE:
      self.write(addr, n, data & ((1 << (8 * n)) - 1))
      return (typ, opq, 0, 0, 0)
    if typ in AMOS:
      # the operation acts on the n addressed bytes: operand = low n bytes of the data field, signedness taken at that width
      M = (1 << (8 * n)) - 1
      sg = lambda x: x - (M + 1) if x >> (8 * n - 1) else x
      old = self.read(addr, n)
      a = data & M
      new = {AMO_ADD: (old + a) & M, AMO_AND: old & a, AMO_OR: old | a, AMO_SWAP: a, AMO_XOR: old ^ a,
             AMO_MIN: old if sg(old) < sg(a) else a, AMO_MAX: old if sg(old) > sg(a) else a,
             AMO_MINU: min(old, a), AMO_MAXU: max(old, a)}[typ]
      self.write(addr, n, new)
      return (typ, opq, 0, ln, old)
    raise KeyError(typ)

  def image(self, lo, hi):
    return tuple(self.b.get(a, 0) for a in range(lo, hi))
