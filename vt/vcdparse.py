"""E4 -- independent VCD reader (IEEE 1364 section 18 subset): scopes, $var,
#time, scalar and binary-vector value changes. No pymtl3 import."""


class Vcd:
  def __init__(self):
    self.vars = []          # (scope tuple, name, width, symbol)
    self.changes = {}       # symbol -> [(time, int value)]
    self.errors = []
    self.end_time = 0

  def value_at(self, symbol, t):
    """Value after all changes with timestamp <= t (None if never assigned)."""
    v = None
    for tt, val in self.changes.get(symbol, ()):
      if tt <= t: v = val
      else: break
    return v


def parse(text):
  vcd = Vcd()
  toks = text.split()
  i = 0
  scope = []
  n = len(toks)
  # ---- declaration section
  while i < n:
    t = toks[i]
    if t == "$scope":
      scope.append(toks[i + 2]); i += 4
    elif t == "$upscope":
      if not scope: vcd.errors.append("unbalanced $upscope")
      else: scope.pop()
      i += 2
    elif t == "$var":
      # $var reg <width> <symbol> <name> $end
      try:
        width = int(toks[i + 2]); sym = toks[i + 3]; name = toks[i + 4]
        j = i + 5
        while toks[j] != "$end": name += toks[j]; j += 1
        vcd.vars.append((tuple(scope), name, width, sym))
        i = j + 1
      except Exception as ex:
        vcd.errors.append(f"bad $var near token {i}: {ex}"); i += 1
    elif t == "$enddefinitions":
      i += 2
      break
    elif t.startswith("$"):
      while i < n and toks[i] != "$end": i += 1
      i += 1
    else:
      i += 1
  if scope: vcd.errors.append(f"unterminated scopes {scope}")
  # ---- value changes
  now = -1            # before the first timestamp: initial values
  widths = {}
  for sc, nm, w, sym in vcd.vars: widths.setdefault(sym, w)
  while i < n:
    t = toks[i]
    if t[0] == "#":
      try: now = int(t[1:])
      except ValueError: vcd.errors.append(f"bad timestamp {t}")
      vcd.end_time = max(vcd.end_time, now)
      i += 1
    elif t[0] in "bB":
      bits = t[1:]
      if i + 1 >= n: vcd.errors.append("vector value without identifier"); break
      sym = toks[i + 1]
      try: val = int(bits, 2)
      except ValueError: vcd.errors.append(f"non two-state vector value {t}"); val = None
      if sym not in widths: vcd.errors.append(f"value change for undeclared identifier {sym}")
      elif len(bits) > widths[sym]: vcd.errors.append(f"vector value wider than declared for {sym}")
      vcd.changes.setdefault(sym, []).append((now, val))
      i += 2
    elif t[0] in "01":
      sym = t[1:]
      if sym not in widths: vcd.errors.append(f"value change for undeclared identifier {sym}")
      vcd.changes.setdefault(sym, []).append((now, int(t[0])))
      i += 1
    elif t.startswith("$"):
      i += 1
    else:
      vcd.errors.append(f"unexpected token {t!r}")
      i += 1
  return vcd
