"""E2 -- design IR, pymtl3 emitter and bit-level analysis.

Everything is plain tuples/lists/dicts so that a design is JSON-able (replay).

Types     ("B", n) | ("S", name, ((field, type), ...)) | ("L", type, n)   (L only as a struct field)
Signal    (name, kind, type, dims)    kind in "in" "out" "wire"; dims = () or (n,) or (n, m): python list of signals
Ref       ("ref", path, name, acc)    path: child names from the block's component; acc: accessors
            ("i", k) list index | ("v", expr) variable list index | ("f", field) | ("s", lo, hi) | ("b", k) | ("vb", expr)
Expr      Ref | ("c", n, v) Bits const | ("i", v) int literal | ("bin", op, a, b) | ("un", op, a)
          | ("ife", c, a, b) | ("call", fn, args...) fn in zext sext trunc concat reduce_and reduce_or reduce_xor
          | ("lv", name) loop var | ("tv", name) temp var | ("st", typename, args...) struct constructor
Stmt      ("=", ref, expr) | ("if", cond, [then], [else]) | ("for", var, lo, hi, [body]) | ("tmp", name, expr)
Block     (name, kind, [stmts])  kind in "comb" "ff"
Comp      dict(cls, sigs, children=[(name, Comp)], blocks, connects=[(ref, ref|const)], constraints=[(a, b)]) (U(a) < U(b))
"""
import itertools


def B(n): return ("B", n)
def S(name, *fields): return ("S", name, tuple(fields))
def L(t, n): return ("L", t, n)
def ref(name, *acc, path=()): return ("ref", tuple(path), name, tuple(acc))
def c(n, v): return ("c", n, v)


def width(t):
  if t[0] == "B": return t[1]
  if t[0] == "S": return sum(width(ft) for _, ft in t[2])
  if t[0] == "L": return t[2] * width(t[1])
  raise KeyError(t)


def field_range(t, fname):
  """(lo, hi, type) of a field inside struct type t. First field is most significant."""
  hi = width(t)
  for fn, ft in t[2]:
    w = width(ft)
    if fn == fname: return hi - w, hi, ft
    hi -= w
  raise KeyError(fname)


def elem_range(t, k):
  """(lo, hi, type) of element k of a list-typed field: element 0 is LEAST significant
  within the field (observed: SL(a=1, l=[2,3]).to_bits() == 0b01_11_10)."""
  w = width(t[1])
  return k * w, (k + 1) * w, t[1]


def tup(x):
  """Recursively turn lists (from JSON) back into tuples."""
  if isinstance(x, (list, tuple)): return tuple(tup(y) for y in x)
  if isinstance(x, dict): return {k: tup(v) for k, v in x.items()}
  return x


def norm_comp(cmp):
  """Normalise a component read back from JSON."""
  return dict(cls=cmp["cls"], sigs=[tup(s) for s in cmp["sigs"]],
              children=[(n, norm_comp(ch)) for n, ch in cmp.get("children", [])],
              blocks=[tup(b) for b in cmp.get("blocks", [])],
              connects=[tup(x) for x in cmp.get("connects", [])],
              constraints=[tup(x) for x in cmp.get("constraints", [])])


# ------------------------------------------------------------------ walking

def walk_comps(top, path=()):
  yield path, top
  for n, ch in top.get("children", []):
    yield from walk_comps(ch, path + (n,))


def comp_at(top, path):
  cur = top
  for p in path:
    cur = dict(cur["children"])[p]
  return cur


def sig_decl(cmp, name):
  if name in ("reset", "clk"): return (name, "in", B(1), ())
  for s in cmp["sigs"]:
    if s[0] == name: return s
  raise KeyError(f"no signal {name} in {cmp['cls']}")


def instances(top):
  """All signal instances: (abs path, name, idx tuple) -> type."""
  out = {}
  for path, cmp in walk_comps(top):
    for name, kind, t, dims in cmp["sigs"]:
      for idx in itertools.product(*[range(d) for d in dims]):
        out[(path, name, idx)] = t
  out[((), "reset", ())] = B(1)
  return out


def inst_name(key):
  path, name, idx = key
  return "s." + "".join(p + "." for p in path) + name + "".join(f"[{i}]" for i in idx)


# ------------------------------------------------------------------ emitter

BINOPS = ("+", "-", "*", "&", "|", "^", "<<", ">>", "==", "!=", "<", "<=", ">", ">=")


def e_type(t, structs):
  if t[0] == "B": return f"Bits{t[1]}"
  if t[0] == "S":
    for _, ft in t[2]: e_type(ft, structs)      # nested structs are defined first
    structs.setdefault(t[1], t)
    return t[1]
  if t[0] == "L": return "[" + ", ".join([e_type(t[1], structs)] * t[2]) + "]"
  raise KeyError(t)


def e_ref(r):
  _, path, name, acc = r
  s = "s." + "".join(p + "." for p in path) + name
  for a in acc:
    k = a[0]
    if k == "i": s += f"[{a[1]}]"
    elif k == "v": s += f"[{e_expr(a[1])}]"
    elif k == "f": s += f".{a[1]}"
    elif k == "s": s += f"[{a[1]}:{a[2]}]"
    elif k == "b": s += f"[{a[1]}]"
    elif k == "vb": s += f"[{e_expr(a[1])}]"
    else: raise KeyError(a)
  return s


def e_expr(e):
  k = e[0]
  if k == "ref": return e_ref(e)
  if k == "c": return f"Bits{e[1]}({e[2]})"
  if k == "i": return str(e[1])
  if k == "bin": return f"({e_expr(e[2])} {e[1]} {e_expr(e[3])})"
  if k == "un": return f"({e[1]}{e_expr(e[2])})"
  if k == "ife": return f"({e_expr(e[2])} if {e_expr(e[1])} else {e_expr(e[3])})"
  if k == "call":
    args = []
    for a in e[2:]:
      args.append(f"Bits{a[1]}" if a[0] == "ty" else (str(a[1]) if a[0] == "n" else e_expr(a)))
    return f"{e[1]}({', '.join(args)})"
  if k in ("lv", "tv"): return e[1]
  if k == "st": return f"{e[1]}({', '.join(e_expr(a) for a in e[2:])})"
  if k == "lst": return "[" + ", ".join(e_expr(a) for a in e[1:]) + "]"
  raise KeyError(e)


def e_stmts(stmts, kind, ind, out):
  op = "<<=" if kind == "ff" else "@="
  if not stmts: out.append(" " * ind + "pass")
  for st in stmts:
    k = st[0]
    if k == "=": out.append(" " * ind + f"{e_ref(st[1])} {st[3] if len(st) > 3 else op} {e_expr(st[2])}")
    elif k == "tmp": out.append(" " * ind + f"{st[1]} = {e_expr(st[2])}")
    elif k == "if":
      out.append(" " * ind + f"if {e_expr(st[1])}:")
      e_stmts(st[2], kind, ind + 2, out)
      if st[3]:
        out.append(" " * ind + "else:")
        e_stmts(st[3], kind, ind + 2, out)
    elif k == "for":
      out.append(" " * ind + f"for {st[1]} in range({st[2]}, {st[3]}):")
      e_stmts(st[4], kind, ind + 2, out)
    else: raise KeyError(st)


KIND = {"in": "InPort", "out": "OutPort", "wire": "Wire"}


def emit(top, tag):
  """-> (source text, top class name). Class names get the suffix _<tag>."""
  structs = {}
  classes = []
  seen = {}

  def emit_comp(cmp):
    name = f"{cmp['cls']}_{tag}"
    if id(cmp) in seen: return name
    seen[id(cmp)] = name
    childnames = [(n, emit_comp(ch)) for n, ch in cmp.get("children", [])]
    out = [f"class {name}( Component ):", "  def construct( s ):"]
    for sname, kind, t, dims in cmp["sigs"]:
      ctor = f"{KIND[kind]}( {e_type(t, structs)} )"
      for i, d in enumerate(reversed(dims)):
        ctor = f"[ {ctor} for _{i} in range({d}) ]"
      out.append(f"    s.{sname} = {ctor}")
    for n, cn in childnames:
      out.append(f"    s.{n} = {cn}()")
    for a, b in cmp.get("connects", []):
      if b[0] == "lam":
        out.append(f"    {e_ref(a)} //= lambda: {e_expr(b[1])}")
        continue
      side = lambda x: e_ref(x) if x[0] == "ref" else (str(x[1]) if x[0] == "i" else e_expr(x))
      out.append(f"    connect( {side(a)}, {side(b)} )")
    for bname, kind, stmts in cmp.get("blocks", []):
      out.append(f"    @{'update_ff' if kind == 'ff' else ('update_once' if kind == 'once' else 'update')}")
      out.append(f"    def {bname}():")
      e_stmts(stmts, kind, 6, out)
    cons = cmp.get("constraints", [])
    if cons:
      out.append("    s.add_constraints(")
      for con in cons:
        out.append(f"      {e_con(con[0])} < {e_con(con[1])},")
      out.append("    )")
    if len(out) == 2: out.append("    pass")
    classes.append("\n".join(out))
    return name

  topname = emit_comp(top)
  hdr = ["from pymtl3 import *", ""]
  for sname, t in structs.items():
    hdr.append("@bitstruct")
    hdr.append(f"class {sname}:")
    for fn, ft in t[2]:
      hdr.append(f"  {fn}: {e_type(ft, {})}")
    hdr.append("")
  return "\n".join(hdr) + "\n\n".join(classes) + "\n", topname


def e_con(x):
  """constraint operand: ("U", blockname) | ("RD", ref) | ("WR", ref)"""
  if x[0] == "U": return f"U({x[1]})"
  return f"{x[0]}({e_ref(x[1])})"


_counter = itertools.count()


def load_src(src, tag=None):
  """Register generated source in linecache + sys.modules and exec it; returns the module."""
  import linecache
  import sys
  import types
  tag = tag if tag is not None else f"g{next(_counter)}"
  modname = f"vt_gen_{tag}"
  fname = f"<vtgen:{tag}>"
  linecache.cache[fname] = (len(src), None, src.splitlines(True), fname)
  mod = types.ModuleType(modname)
  mod.__file__ = fname
  sys.modules[modname] = mod
  exec(compile(src, fname, "exec"), mod.__dict__)
  return mod


def load(top, tag=None):
  """Emit, register in linecache + sys.modules, exec; return the top class."""
  import linecache
  import sys
  import types
  tag = tag if tag is not None else f"g{next(_counter)}"
  src, topname = emit(top, tag)
  modname = f"vt_gen_{tag}"
  fname = f"<vtgen:{tag}>"
  linecache.cache[fname] = (len(src), None, src.splitlines(True), fname)
  mod = types.ModuleType(modname)
  mod.__file__ = fname
  sys.modules[modname] = mod
  exec(compile(src, fname, "exec"), mod.__dict__)
  return getattr(mod, topname), src, modname


def unload(modname):
  import linecache
  import sys
  m = sys.modules.pop(modname, None)
  if m is not None: linecache.cache.pop(m.__file__, None)


# ------------------------------------------------------------------ static access analysis

def expr_refs(e, out):
  k = e[0]
  if k == "ref":
    out.append(e)
    for a in e[3]:
      if a[0] in ("v", "vb"): expr_refs(a[1], out)
  elif k in ("bin",): expr_refs(e[2], out); expr_refs(e[3], out)
  elif k == "un": expr_refs(e[2], out)
  elif k == "ife": expr_refs(e[1], out); expr_refs(e[2], out); expr_refs(e[3], out)
  elif k in ("call", "st"):
    for a in e[2:]:
      if a[0] not in ("ty", "n"): expr_refs(a, out)
  elif k == "lst":
    for a in e[1:]: expr_refs(a, out)


def stmt_access(stmts, reads, writes):
  for st in stmts:
    k = st[0]
    if k == "=":
      writes.append(st[1])
      for a in st[1][3]:
        if a[0] in ("v", "vb"): expr_refs(a[1], reads)
      expr_refs(st[2], reads)
    elif k == "tmp": expr_refs(st[2], reads)
    elif k == "if":
      expr_refs(st[1], reads)
      stmt_access(st[2], reads, writes); stmt_access(st[3], reads, writes)
    elif k == "for": stmt_access(st[4], reads, writes)


def ref_bits(top, cpath, r):
  """Set of (instance key, bit) a Ref may touch (variable indices: every possibility)."""
  _, path, name, acc = r
  if name in ("reset", "clk"): return {(((), name, ()), 0)}
  ap = tuple(cpath) + tuple(path)
  cmp = comp_at(top, ap)
  _, kind, t, dims = sig_decl(cmp, name)
  acc = list(acc)
  idxsets = []
  for d in dims:
    if acc and acc[0][0] == "i": idxsets.append([acc.pop(0)[1]])
    elif acc and acc[0][0] == "v": acc.pop(0); idxsets.append(list(range(d)))
    else: idxsets.append(list(range(d)))          # whole list referenced (not generated)
  ranges = [(0, width(t))]
  cur = t
  for a in acc:
    k = a[0]
    new = []
    if k == "f":
      lo, hi, ft = field_range(cur, a[1])
      new = [(b + lo, b + hi) for b, _ in ranges]; cur = ft
    elif k == "i":
      lo, hi, ft = elem_range(cur, a[1])
      new = [(b + lo, b + hi) for b, _ in ranges]; cur = ft
    elif k == "v":
      for kk in range(cur[2]):
        lo, hi, ft = elem_range(cur, kk)
        new += [(b + lo, b + hi) for b, _ in ranges]
      cur = cur[1]
    elif k == "s":
      new = [(b + a[1], b + a[2]) for b, _ in ranges]; cur = B(a[2] - a[1])
    elif k == "b":
      new = [(b + a[1], b + a[1] + 1) for b, _ in ranges]; cur = B(1)
    elif k == "vb":
      new = [(b + j, b + j + 1) for b, e in ranges for j in range(e - b)]; cur = B(1)
    ranges = new
  out = set()
  for idx in itertools.product(*idxsets):
    for lo, hi in ranges:
      for bit in range(lo, hi): out.add(((ap, name, tuple(idx)), bit))
  return out


def block_bits(top, cpath, blk):
  reads, writes = [], []
  stmt_access(blk[2], reads, writes)
  R, W = set(), set()
  for r in reads: R |= ref_bits(top, cpath, r)
  for w in writes: W |= ref_bits(top, cpath, w)
  return R, W
