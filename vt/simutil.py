"""Helpers for driving real pymtl3 simulators from the explorers."""


def signal_names(top):
  """Names of all top-level (non-slice, non-field) value signals of an elaborated design."""
  from pymtl3.dsl.Connectable import Signal
  sigs = top.get_all_object_filter(lambda o: isinstance(o, Signal) and o.is_top_level_signal())
  return sorted(repr(s) for s in sigs)


def make_reader(top, names=None):
  """Compile one function s -> tuple(int) reading every named signal of a
  simulatable design (after lock_in_simulation signals are plain attributes)."""
  names = signal_names(top) if names is None else names
  body = ", ".join(f"int({n}.to_bits())" for n in names)
  fn = eval(f"lambda s: ({body},)")
  return names, fn


def build(factory, passes=None):
  from pymtl3 import DefaultPassGroup
  top = factory()
  top.elaborate()
  top.apply(passes() if passes else DefaultPassGroup())
  return top
