"""E4 -- TinyRV0 interpreter and encoder written from examples/ex03_proc/tinyrv0-isa.md
(shares nothing with tinyrv0_encoding.py).

Instruction tuples:
  ("addi", rd, rs1, imm)  ("add"|"and"|"sll"|"srl", rd, rs1, rs2)
  ("lw", rd, imm, rs1)    ("sw", rs2, imm, rs1)    ("bne", rs1, rs2, byte_offset)
  ("csrr", rd, csr)       ("csrw", csr, rs1)
"""
M32 = 0xFFFFFFFF
PROC2MNGR, MNGR2PROC, XCELREG0 = 0x7C0, 0xFC0, 0x7E0
RESET_PC = 0x200


def _r(funct7, rs2, rs1, funct3, rd, opcode):
  return (funct7 << 25) | (rs2 << 20) | (rs1 << 15) | (funct3 << 12) | (rd << 7) | opcode


def encode(inst):
  op = inst[0]
  if op in ("add", "and", "sll", "srl"):
    f3 = {"add": 0b000, "and": 0b111, "sll": 0b001, "srl": 0b101}[op]
    return _r(0, inst[3], inst[2], f3, inst[1], 0b0110011)
  if op == "addi":
    return ((inst[3] & 0xFFF) << 20) | (inst[2] << 15) | (0b000 << 12) | (inst[1] << 7) | 0b0010011
  if op == "lw":
    return ((inst[2] & 0xFFF) << 20) | (inst[3] << 15) | (0b010 << 12) | (inst[1] << 7) | 0b0000011
  if op == "sw":
    imm = inst[2] & 0xFFF
    return ((imm >> 5) << 25) | (inst[1] << 20) | (inst[3] << 15) | (0b010 << 12) | ((imm & 0x1F) << 7) | 0b0100011
  if op == "bne":
    imm = inst[3] & 0x1FFF          # B-immediate: bits 12|10:5 in 31:25, bits 4:1|11 in 11:7
    b12, b11, b10_5, b4_1 = (imm >> 12) & 1, (imm >> 11) & 1, (imm >> 5) & 0x3F, (imm >> 1) & 0xF
    return (b12 << 31) | (b10_5 << 25) | (inst[2] << 20) | (inst[1] << 15) | (0b001 << 12) | (b4_1 << 8) | (b11 << 7) | 0b1100011
  if op == "csrr":
    return (inst[2] << 20) | (0 << 15) | (0b010 << 12) | (inst[1] << 7) | 0b1110011
  if op == "csrw":
    return (inst[1] << 20) | (inst[2] << 15) | (0b001 << 12) | (0 << 7) | 0b1110011
  raise KeyError(op)


def assemble_bytes(prog):
  out = bytearray()
  for inst in prog:
    out += encode(inst).to_bytes(4, "little")
  return out


def to_asm(prog):
  """Text form understood by the repository's assembler (used only to cross-check the encoder)."""
  csr = {PROC2MNGR: "proc2mngr", MNGR2PROC: "mngr2proc", XCELREG0: "0x7e0"}
  lines = []
  for i in prog:
    op = i[0]
    if op in ("add", "and", "sll", "srl"): lines.append(f"{op} x{i[1]}, x{i[2]}, x{i[3]}")
    elif op == "addi": lines.append(f"addi x{i[1]}, x{i[2]}, {i[3]}")
    elif op == "lw": lines.append(f"lw x{i[1]}, {i[2]}(x{i[3]})")
    elif op == "sw": lines.append(f"sw x{i[1]}, {i[2]}(x{i[3]})")
    elif op == "csrr": lines.append(f"csrr x{i[1]}, {csr[i[2]]}")
    elif op == "csrw": lines.append(f"csrw {csr[i[1]]}, x{i[2]}")
    else: lines.append(None)
  return lines


def sext12(x):
  x &= 0xFFF
  return x - 0x1000 if x & 0x800 else x


def run(prog, mngr, mem=None, max_steps=400):
  """-> (proc2mngr list, memory dict(addr->byte), halted, consumed mngr count)."""
  R = [0] * 32
  pc = RESET_PC
  out = []
  mem = dict(mem or {})
  mngr = list(mngr)
  taken = 0
  xr0 = 0
  for step in range(max_steps):
    idx = (pc - RESET_PC) // 4
    if not (0 <= idx < len(prog)): return out, mem, False, taken
    i = prog[idx]
    op = i[0]
    npc = pc + 4
    def wr(rd, v):
      if rd: R[rd] = v & M32
    if op == "add": wr(i[1], R[i[2]] + R[i[3]])
    elif op == "and": wr(i[1], R[i[2]] & R[i[3]])
    elif op == "sll": wr(i[1], R[i[2]] << (R[i[3]] & 31))
    elif op == "srl": wr(i[1], R[i[2]] >> (R[i[3]] & 31))
    elif op == "addi": wr(i[1], R[i[2]] + sext12(i[3]))
    elif op == "lw":
      a = (R[i[3]] + sext12(i[2])) & M32
      wr(i[1], sum(mem.get(a + k, 0) << (8 * k) for k in range(4)))
    elif op == "sw":
      a = (R[i[3]] + sext12(i[2])) & M32
      for k in range(4): mem[a + k] = (R[i[1]] >> (8 * k)) & 255
    elif op == "bne":
      if R[i[1]] != R[i[2]]:
        if i[3] == 0: return out, mem, True, taken        # branch to self: halt
        npc = pc + i[3]
    elif op == "csrr":
      if i[2] == MNGR2PROC:
        if taken >= len(mngr): return out, mem, False, taken
        wr(i[1], mngr[taken]); taken += 1
      elif i[2] == XCELREG0: wr(i[1], xr0)
      else: raise KeyError(i)
    elif op == "csrw":
      if i[1] == PROC2MNGR: out.append(R[i[2]])
      elif i[1] == XCELREG0: xr0 = R[i[2]]
      else: raise KeyError(i)
    else: raise KeyError(op)
    pc = npc
  return out, mem, False, taken


def fletcher(words):
  s1 = s2 = 0
  for w in words:
    s1 = (s1 + w) & 0xFFFF
    s2 = (s2 + s1) & 0xFFFF
  return (s2 << 16) | s1
