"""Build real pymtl3 simulators from IR designs under each scheduling pass group."""
from vt import ir, seams

GROUPS = ("simple", "dynamic", "heuristic", "mamba", "unroll")


def build_cls(cls, group, shuffle=None):
  """A hand-written component class under one scheduling pass group (no IR): returns the simulatable top."""
  d = Dut.__new__(Dut)
  Dut.__init__(d, None, group, cls=cls, shuffle=shuffle, _no_ir=True)
  return d.top


class Dut:
  def __init__(self, top_ir, group="dynamic", hook=None, cls=None, keep_dag=False, shuffle=None, _no_ir=False, dump_dag=None):
    """hook(top) is called after the scheduling pass and before the simulator
    is prepared (only for group 'simple': schedule surgery)."""
    from pymtl3.passes.sim.GenDAGPass import GenDAGPass
    from pymtl3.passes.sim.WrapGreenletPass import WrapGreenletPass
    from pymtl3.passes.sim.SimpleSchedulePass import SimpleSchedulePass
    from pymtl3.passes.sim.DynamicSchedulePass import DynamicSchedulePass
    from pymtl3.passes.sim.PrepareSimPass import PrepareSimPass
    from pymtl3.passes.mamba.HeuristicTopoPass import HeuristicTopoPass
    from pymtl3.passes.mamba.Mamba2020Pass import Mamba2020Pass
    from pymtl3.passes.mamba.UnrollSimPass import UnrollSimPass
    # dump_dag() renders a graphviz picture into /tmp and opens a viewer before the passes raise
    # UpblkCyclicError; it is a debugging aid with no effect on the verdict, so it is silenced here
    import pymtl3.passes.sim.SimpleSchedulePass as _ssp
    _ssp.dump_dag = dump_dag or (lambda *a, **k: None)      # dump_dag=...: environment answer chosen by the harness (e.g. "no viewer installed")
    self.ir = top_ir
    self.modname = None
    if cls is None:
      cls, self.src, self.modname = ir.load(top_ir)
    self.top = top = cls()
    top.elaborate()
    GenDAGPass()(top)
    WrapGreenletPass()(top)
    if group == "simple":
      with seams.shuffle_seam(shuffle):
        SimpleSchedulePass()(top)
      if hook: hook(top)
      PrepareSimPass(print_line_trace=False)(top)
    elif group == "dynamic":
      DynamicSchedulePass()(top)
      if hook: hook(top)
      PrepareSimPass(print_line_trace=False)(top)
    elif group == "heuristic":
      HeuristicTopoPass(print_line_trace=False)(top)
    elif group == "mamba":
      Mamba2020Pass(print_line_trace=False)(top)
    elif group == "unroll":
      with seams.shuffle_seam(shuffle):
        SimpleSchedulePass()(top)
      if hook: hook(top)
      UnrollSimPass(print_line_trace=False)(top)
    else:
      raise KeyError(group)
    if _no_ir: return
    self.keys = sorted(ir.instances(top_ir))
    body = ", ".join(f"int({ir.inst_name(k)}.to_bits())" for k in self.keys)
    self._read = eval(f"lambda s: ({body},)")
    self._setters = {}

  def set_inputs(self, values):
    top = self.top
    for k, v in values.items():
      name = k if isinstance(k, str) else ir.inst_name(k)[2:]
      fn = self._setters.get(name)
      if fn is None:
        fn = self._setters[name] = self._mk_setter(name, k)
      fn(top, v)

  def _mk_setter(self, name, k):
    key = k if isinstance(k, tuple) else ((), k, ())
    t = ir.instances(self.ir)[key]
    if t[0] == "B":
      ns = {}
      exec(f"def f(s, v):\n  s.{name} @= v", ns)
      return ns["f"]
    ns = {}
    exec(f"def f(s, v):\n  s.{name} @= type(s.{name}).from_bits(Bits(s.{name}.nbits if hasattr(s.{name},'nbits') else {ir.width(t)}, v))",
         {"Bits": __import__("pymtl3").Bits}, ns)
    return ns["f"]

  def eval_comb(self): self.top.sim_eval_combinational()
  def tick(self): self.top.sim_tick()

  def obs(self):
    return dict(zip(self.keys, self._read(self.top)))

  def close(self):
    if self.modname: ir.unload(self.modname)
