"""Run the registered checks against the seeded property-breaking changes.

  ./check --seeded            all of /verif/seeded/*/
  ./check --seeded C17-x ...  selected ones

For each seeded change: apply patch.diff to /repo's working tree, run the quick
(or the tier named in meta.json "tier") check of the property it breaks, expect
exit status 1 with a VIOLATION line, and ALWAYS revert with git checkout.
Refuses to run when /repo has uncommitted changes to tracked files.
Results are written to seeded/RESULTS.md.
"""
import json
import os
import subprocess
import sys
import time

ROOT = os.path.dirname(os.path.dirname(os.path.abspath(__file__)))
SEEDED = os.path.join(ROOT, "seeded")


def sh(cmd, **kw):
  return subprocess.run(cmd, shell=True, capture_output=True, text=True, **kw)


def main(names):
  if sh("git -C /repo status --porcelain --untracked-files=no").stdout.strip():
    print("seeded: /repo has uncommitted tracked changes; refusing")
    return 2
  dirs = sorted(d for d in os.listdir(SEEDED) if os.path.isfile(os.path.join(SEEDED, d, "patch.diff")))
  if names:
    dirs = [d for d in dirs if d in names or any(d.startswith(n) for n in names)]
  rows = []
  bad = 0
  for d in dirs:
    meta = json.load(open(os.path.join(SEEDED, d, "meta.json")))
    pids = meta["property"] if isinstance(meta["property"], list) else [meta["property"]]
    tier = meta.get("tier", "quick")
    patch = os.path.join(SEEDED, d, "patch.diff")
    if meta.get("superseded_by"):
      # a later repair of the unchanged code made this change harmless (its own demonstration passes with the patch applied)
      rows.append((d, ",".join(pids), f"SUPERSEDED by fix {meta['superseded_by']}", "", 0))
      print(rows[-1], flush=True)
      continue
    r = sh(f"git -C /repo apply {patch}")
    if r.returncode != 0:
      rows.append((d, ",".join(pids), "PATCH-DOES-NOT-APPLY", "", 0)); bad += 1
      continue
    try:
      for pid in pids:
        t0 = time.time()
        env = dict(os.environ, VERIF_NOCONFIRM="1")
        c = subprocess.run([os.path.join(ROOT, "check"), pid, "--tier", tier], capture_output=True, text=True, env=env)
        viol = [l for l in c.stdout.splitlines() if l.startswith("VIOLATION")]
        sig = ""
        for l in c.stdout.splitlines():
          if l.startswith("  sig="): sig = l.strip()[:150]; break
        ok = c.returncode == 1 and viol
        if not ok: bad += 1
        rows.append((d, pid, "DETECTED" if ok else f"MISSED(exit {c.returncode})", sig, round(time.time() - t0, 1)))
        print(rows[-1], flush=True)
    finally:
      sh("git -C /repo checkout -- .")
  # evidence files were rewritten by the runs on mutated trees: regenerate them on the clean tree
  for pid in sorted({r[1] for r in rows if r[1] and "," not in r[1]}):
    c = subprocess.run([os.path.join(ROOT, "check"), pid, "--tier", "quick"], capture_output=True, text=True)
    if c.returncode != 0:
      print(f"seeded: WARNING clean-tree re-run of {pid} exited {c.returncode}")
  # a run over selected changes replaces only their rows
  path = os.path.join(SEEDED, "RESULTS.md")
  table = {}
  if os.path.exists(path):
    for l in open(path):
      c = [x.strip() for x in l.strip().strip("|").split(" | ")]
      if len(c) == 5 and c[0] not in ("change", "---") and not c[0].startswith("-"): table[(c[0], c[1])] = c
  ran = {r[0] for r in rows}
  table = {k: v for k, v in table.items() if k[0] not in ran and os.path.isdir(os.path.join(SEEDED, k[0]))}
  for row in rows: table[(row[0], row[1])] = [str(x) for x in row]
  with open(path, "w") as f:
    f.write("# Seeded breaking changes vs. checks\n\n| change | property | result | first signature | s |\n|---|---|---|---|---|\n")
    for k in sorted(table): f.write("| " + " | ".join(table[k]) + " |\n")
  sup = sum(1 for r in rows if str(r[2]).startswith("SUPERSEDED"))
  print(f"seeded: {len(rows) - bad - sup}/{len(rows) - sup} detected" + (f", {sup} superseded" if sup else ""))
  return 1 if bad else 0
