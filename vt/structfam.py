"""Structural design family for the translation checks: struct / nested struct / list-field / 2-D list-field /
list-of-struct ports moved around by connections only (no behavioural access), directly and through a child."""
from vt import ir
from vt.ir import B, S, L, ref
from vt.irgen import Sab, Npc, SLal, comp, leaves

S2D = S("S2D", ("hdr", B(2)), ("arr", L(L(B(2), 3), 2)), ("tl", B(1)))
SLS = S("SLS", ("q", L(Sab, 2)), ("z", B(1)))
S3D = S("S3D", ("hdr", B(1)), ("cube", L(L(L(B(2), 2), 3), 2)))                                       # three packed-array dimensions
SL3 = S("SL3", ("a", B(2)), ("l", L(B(2), 3)))                                                          # list field whose size differs from the port-list size (2)
INN = S("Inn", ("tag", B(1)), ("v", L(B(1), 3)))
PKT = S("Pkt", ("hd", B(1)), ("arr", L(B(2), 3)), ("inn", L(INN, 2)))                                   # list of structs that hold lists, next to a list of another size
TYPES = [("Sab", Sab), ("Npc", Npc), ("SLal", SLal), ("S2D", S2D), ("SLS", SLS), ("S3D", S3D), ("SL3", SL3), ("Pkt", PKT)]


def designs():
  for tn, t in TYPES:
    sig = [("in_", "in", t, ()), ("out", "out", t, ())]
    yield f"sp:{tn}:direct", comp("SpD", sig, connects=[(ref("out"), ref("in_"))])
    ch = comp("SpC", [("i", "in", t, ()), ("o", "out", t, ())], connects=[(ref("o"), ref("i"))])
    yield f"sp:{tn}:through-child", comp("SpT", sig, children=[("c", ch)], connects=[(ref("i", path=("c",)), ref("in_")), (ref("out"), ref("o", path=("c",)))])
    sig2 = [("in_", "in", t, (2,)), ("out", "out", t, (2,))]
    yield f"sp:{tn}:port-list-crossed", comp("SpL", sig2, connects=[(ref("out", ("i", 0)), ref("in_", ("i", 1))), (ref("out", ("i", 1)), ref("in_", ("i", 0)))])
    chl = comp("SpCL", [("i", "in", t, (2,)), ("o", "out", t, (2,))], connects=[(ref("o", ("i", 0)), ref("i", ("i", 1))), (ref("o", ("i", 1)), ref("i", ("i", 0)))])
    yield f"sp:{tn}:port-list-through-child", comp("SpTL", sig2, children=[("c", chl)],
          connects=[(ref("i", ("i", k), path=("c",)), ref("in_", ("i", k))) for k in (0, 1)] + [(ref("out", ("i", k)), ref("o", ("i", k), path=("c",))) for k in (0, 1)])
  # behavioural READS of input struct ports only (no struct wire, nothing struct-typed is written by a block):
  # every leaf of port 1 of a list of two struct ports is copied to its own Bits output, one leaf of port 0 by a connection
  for tn, t in TYPES:
    lv = list(leaves(t))
    sigs = [("in_", "in", t, (2,))] + [(f"o{k}", "out", B(w), ()) for k, (acc, w) in enumerate(lv)] + [("p0", "out", B(lv[-1][1]), ())]
    blk = ("rd", "comb", [("=", ref(f"o{k}"), ref("in_", ("i", 1), *acc)) for k, (acc, w) in enumerate(lv)])
    yield f"sp:{tn}:read-leaves", comp("SpR", sigs, blocks=[blk], connects=[(ref("p0"), ref("in_", ("i", 0), *lv[-1][0]))])
  sig = [("in_", "in", Sab, ()), ("out", "out", Sab, ())]
  yield "sp:Sab:fields-swapped", comp("SpF", sig, connects=[(ref("out", ("f", "a")), ref("in_", ("f", "b"))), (ref("out", ("f", "b")), ref("in_", ("f", "a")))])
  sig = [("in_", "in", Npc, ()), ("out", "out", Npc, ()), ("o2", "out", B(2), ())]
  yield "sp:Npc:nested-fields", comp("SpN", sig, connects=[(ref("out", ("f", "p")), ref("in_", ("f", "p"))), (ref("out", ("f", "c")), ref("in_", ("f", "p"), ("f", "a"))),
                                                          (ref("o2"), ref("in_", ("f", "c")))])


def input_seqs(d):
  ports = [(n, t, dims) for n, k, t, dims in d["sigs"] if k == "in"]
  seqs = []
  n, t, dims = ports[0]
  w = ir.width(t)
  vals = list(range(1 << w)) if w <= 6 else sorted({0, (1 << w) - 1, int("01" * w, 2) & ((1 << w) - 1)} | {1 << i for i in range(w)} | {((1 << w) - 1) ^ (1 << i) for i in range(w)})
  for v in vals:
    if dims:
      seqs.append([{((), n, (0,)): v, ((), n, (1,)): (v * 7 + 3) & ((1 << w) - 1), "reset": 0}])
    else:
      seqs.append([{n: v, "reset": 0}])
  return seqs
