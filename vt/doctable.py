"""Regenerates the 'quick tier' table of DESIGN.md section 0.1 from the evidence files (python -m vt.doctable)."""
import json
import os
import re

ROOT = os.path.dirname(os.path.dirname(os.path.abspath(__file__)))


def n(x):
  x = int(x)
  if x >= 10_000_000: return f"{x / 1e6:.1f} M"
  s = f"{x:,}".replace(",", " ")
  return s


NSTMT = open(os.path.join(ROOT, 'vt', 'stmtfam.py')).read().count('\n@design(')
NMANGLE = 12

FMT = {
  "C01": lambda c: f"{n(c['designs'])} generated designs + {n(c.get('stmt_family_designs', 0))} statement-family designs, {n(c['schedules_run'])} schedules executed (5 pass groups, {n(c['linear_extensions'])} linear extensions x ff orders, shuffle-seam DFS on {n(c['seam_designs'])} designs), {n(c['states'])} all-signal comparisons; {n(c['distinct_nontrivial'])} designs order-sensitive with >= 2 schedules; extension cap {c['ext_cap']} hit on {n(c['ext_cap_hits'])} designs (reported, `exhaustive:false`)",
  "C02": lambda c: f"{n(c['designs'])} designs, {n(c['evaluations'])} recorded executions, {n(c['required_pairs'])} writer-before-reader / explicit obligations, {n(c['seam_schedules'])} seam schedules, {n(c['cyclic_rejections'])} cyclic-constraint rejections",
  "C03": lambda c: f"{n(c['programs'])} designs translated ({n(c['expression_statements'])} expression / statement blocks, {NSTMT} hand-written statement designs with reference functions), {n(c['evaluations'])} (design, input step) comparisons of every output port; {n(c['not_translatable'])} designs refused by the backend",
  "C04": lambda c: f"{n(c['evaluations'])} operator / constructor / fresh-result cases, all widths 1..{c['widths_covered']} on the boundary alphabet, protocol graph {n(c['states'])} states / {n(c['transitions'])} transitions closed",
  "C05": lambda c: f"{n(c['evaluations'])} slice / index / concat / ext / reduce / clog2 cases (all values of widths 1..7)",
  "C06": lambda c: f"{n(c['shapes'])} struct shapes ({n(c['shapes_with_lists'])} with list fields), {n(c['evaluations'])} (shape, value) cases, {n(c['alias_histories'])} alias histories",
  "C07": lambda c: f"{n(c['designs'])} register designs (up to {c['max_ff_blocks']} ff blocks), {n(c['ff_orders'])} ff orders, {n(c['states'])} ticks compared, {n(c['probe_ticks'])} in-tick probes",
  "C08": lambda c: f"{n(c['legal_sets'])} legal connection sets ({n(c['skipped_illegal_sets'])} skipped as illegal by my analysis), {n(c['evaluations'])} elaborations (orders x flips x hash permutations)",
  "C09": lambda c: f"{n(c['cases'])} designs ({n(c['illegal'])} with one defect, {n(c['legal'])} defect-free siblings) x 6 orders / permutations",
  "C10": lambda c: f"{n(c['blocks_accepted'] + c['blocks_rejected'])} blocks type-checked one by one ({n(c['blocks_accepted'])} accepted and executed with probes on 192 inputs; {n(c['accepted_blocks_checked_strictly'])} of them outside the two known-finding classes), {n(c['literals'])} literals",
  "C11": lambda c: f"{n(c['designs'])} cyclic designs x 2 cyclic-capable + 3 acyclic-only pass groups, {n(c['states'])} returned evaluations re-checked as fixed points, {n(c['diverge_reported'])} divergences reported by the simulator",
  "C12": lambda c: f"{n(c['programs'])} designs through the Yosys backend, {n(c['evaluations'])} comparisons, ports driven leaf by leaf",
  "C13": lambda c: f"{n(c['pairs'] // 2)} instance pairs x 2 backends, {n(c['determinism_designs'])} (design, backend) texts x {c['determinism_runs']} runs (6 hash-seed child processes + 3 object-hash permutations), {NMANGLE} mangling designs",
  "C14": lambda c: f"{n(c['hierarchies'])} hierarchies elaborated twice, {n(c['evaluations'])} names evaluated back, {n(c['lazily_created_objects'])} lazily created objects",
  "C15": lambda c: f"{n(c['evaluations'])} replacement histories (length <= 2) on a real elaborated design, {n(c['states'])} configurations, each compared with the from-scratch build",
  "C16": lambda c: f"{n(c['designs'])} designs x all sequences of length 3: {n(c['evaluations'])} dumps parsed back, {n(c['states'])} (signal, cycle) points",
  "C17": lambda c: f"{n(c['queue_configs'])} queue configurations, product BFS closed: {n(c['states'])} states / {n(c['transitions'])} transitions",
  "C18": lambda c: f"{n(c['request_sets'])} request sets, {n(c['evaluations'])} executions (timing configs x stall schedules) checked for linearizability",
  "C19": lambda c: f"{n(c['states'])} reachable pointer states, {n(c['transitions'])} transitions, {n(c['fairness_product_states'])} fairness product states, closed",
  "C20": lambda c: f"{n(c['programs'])} programs x 3 processor models x timing configs ({n(c['evaluations'])} runs incl. {n(c['checksum_inputs'])} checksum inputs)",
}


def main():
  rows = ["| id | level | quick tier: what was covered on this tree (measured) | wall |", "|---|---|---|---|"]
  for k in range(1, 21):
    pid = f"C{k:02d}"
    ev = json.load(open(os.path.join(ROOT, "evidence", pid + ".json")))
    if ev["tier"] != "quick": raise SystemExit(f"{pid}: evidence on disk is from the {ev['tier']} tier")
    rows.append(f"| {pid} | {ev['level']} | {FMT[pid](ev['coverage'])} | {round(ev['wall_s'])} s |")
  p = os.path.join(ROOT, "DESIGN.md")
  s = open(p).read()
  m = re.search(r"\| id \| level \| quick tier:.*?\n\n", s, re.S)
  s = s[:m.start()] + "\n".join(rows) + "\n\n" + s[m.end():]
  open(p, "w").write(s)
  print("table updated")


if __name__ == "__main__":
  main()
